"""C03 -- function space reproduces polynomials and integrates them exactly (structural clauses).

Every clause is decided on *values*: the functions named below are interpreted (rules/C03_interp.MeshInterp: exact symbolic arrays of
concrete shape; nothing of the library is imported or run) on generic inputs -- elements with symbolic vertex coordinates, symbolic
shape-function tables, weights, nodal fields, opaque user kernels -- and the results are compared, as exact polynomial / rational
identities, with what the property needs.  How the code is organised (helpers, closures, partial, vmap vs broadcasting, loops vs
vectorised forms, dict dispatch, ...) does not enter.

  a  dispatch: compute_shapes sends every element type (each constant the module defines, and the type stamped by each parent-element
     maker) to the shape routine of that element with the element's own degree / nodes and the given points; the function-space factory
     maps each advertised mode2D to volumes and an isAxisymmetric flag that agree, and stores the fields in the right slots;
  b  axisymmetric weight: volumes = 2*pi * r(xi_q) * (Cartesian volumes), r = radius (column 0) interpolated with the element's shape
     functions; same radial column in Mechanics.axisymmetric_gradient / TensorMath.gradient_2D_to_axisymmetric (hoop strain u_r / r);
  c  affine map: x = xi0 X_v0 + xi1 X_v1 + (1 - xi0 - xi1) X_v2 over the *vertex nodes of the parent element*: volumes = det(dx/dxi) w_q,
     mapped gradients g satisfy g . dx/dxi = dN (so both belong to this one map, which is also the map order elevation places nodes with,
     rules/C03_mesh.py); block integration contracts the block's values with the block's volumes; the factory evaluates the mesh's parent
     element at the rule's points;
  d  edge normals: four sibling implementations agree (rules/C16);
  e  axis typing of map_element_shape_grads: result [node, x] (the identity g J = dN fails for solve(J, .) or a missing transpose);
     field gradient contracts the node axis;
  f  tabulated rules: for every integer degree the triangle rule accepts, the table it returns has positive weights, points in the
     reference triangle and exact monomial moments a! b!/(a+b+2)! up to that degree; the 1D rule takes n Gauss points with 2n-1 >= degree;
     every other factory of the rule module that returns a QuadratureRule for a requested degree (found by what it returns, e.g. the
     padded fixed-size 1D rule whose tables are selected by lax.switch) has exact monomial moments up to that degree as well -- nodes and
     weights are checked as pairs -- within the capacity 2N-1 of a fixed-size rule;
  g  edge integration: sum_q f(u(s_q), X(s_q), n) |t| w_q with u, X interpolated by the same 1D shape functions at the rule's points over
     the nodes conns[element, faceNodes[side]], n = outward normal, |t| = edge length.
Not decided: partition of unity / reproduction by the Vandermonde inversion (numerical linear algebra), the divergence theorem on
physical meshes as numbers.
"""
from __future__ import annotations

import ast
import math
from fractions import Fraction

from optilint.core import Incomplete
from optilint.tensoreval import Dual, Arr, EvalError, Raised, Unknown, Record, PyFunc, Closure, _A, rat_const, d_fun
from .C03_interp import MeshInterp, fresh_interp, int_arr, ints_of, const_of, rows_of, Opaque, Singular
from . import C03_mesh as M
from .C03_mesh import ERRS, eq, sym_arr, opaque_fn, opaque_value

LEVEL = "other"
RULE_TEXT = ("obligations = (element type / mode2D x dispatch result) + (axisymmetric weight identity) + (affine-map identities of volumes and "
             "gradients) + (axis typing) + (quadrature degree x monomial moment) + (edge integral identity)")
EXPLANATION = ("Symbolic interpretation of Interpolants/FunctionSpace/Mesh/QuadratureRule kernels on generic elements (symbolic vertices, shape "
               "tables, weights, fields, opaque kernels); results compared as exact identities with the affine-map specification; constant "
               "folding of the literal quadrature tables against the exact monomial moments of the reference triangle. Reproduction "
               "properties of the Vandermonde-inverted basis are not decided.")

FS = "optimism.FunctionSpace"
IP = "optimism.Interpolants"
QR = "optimism.QuadratureRule"
ME = "optimism.Mesh"


def run(ctx):
    for m in (FS, IP, QR, ME, "optimism.Surface", "optimism.Mechanics", "optimism.TensorMath"):
        ctx.need_module(m)
    ctx.guard(a_dispatch, ctx)
    ctx.guard(a_modes, ctx)
    ctx.guard(b_axisymmetric, ctx)
    ctx.guard(c_affine, ctx)
    ctx.guard(c_block_integration, ctx)
    ctx.guard(e_axis_typing, ctx)
    ctx.guard(f_tables, ctx)
    ctx.guard(f_rule_1d, ctx)
    ctx.guard(f_sibling_factories, ctx)
    ctx.guard(g_edges, ctx)
    from . import C16, C13
    ctx.guard(C16.o1_normals, _Ren(ctx, "d/"))
    ctx.guard(C13.d3_elevation, _Ren(ctx, "c/"))
    from . import parentelem
    ctx.guard(parentelem.run, ctx, "c/T6-parent-element-tables")
    ctx.trust("integral of x^a y^b over the unit triangle = a! b! / (a+b+2)!; n-point Gauss-Legendre is exact to degree 2n-1")
    ctx.trust("the 1D Lagrange shape functions of the line parent element sum to one and reproduce the edge coordinate (used only to give the "
              "interpolated coordinates of a straight edge one normal form)")
    ctx.assume("literal table entries carry ~15 significant digits: moments are compared with tolerance 2e-14")
    ctx.assume("element kernels are mesh-size uniform (vmap / broadcasting over elements): identities shown on generic elements with symbolic "
               "vertex coordinates hold for every element of every mesh")


class _Ren:
    def __init__(self, ctx, prefix):
        self._c, self._p = ctx, prefix

    def __getattr__(self, k):
        return getattr(self._c, k)

    def _r(self, rule):
        return self._p + rule.split("/", 1)[-1]

    def decide(self, rule, *a, **kw):
        return self._c.decide(self._r(rule), *a, **kw)

    def refuted(self, rule, *a, **kw):
        return self._c.refuted(self._r(rule), *a, **kw)

    def undecided(self, rule, *a, **kw):
        return self._c.undecided(self._r(rule), *a, **kw)

    def proved(self, rule, *a, **kw):
        return self._c.proved(self._r(rule), *a, **kw)


# ----------------------------------------------------------------------------- helpers

def fn_value(I, qual):
    mname, _, f = qual.partition(":")
    return I.module_value(I.repo.modules[mname], f)


def show(x):
    if isinstance(x, Dual):
        return repr(x.a)
    if isinstance(x, Arr):
        s = ", ".join(repr(v.a) for v in x.data[:6])
        return f"[{s}{', ...' if len(x.data) > 6 else ''}] shape {x.shape}"
    return repr(x)


def first_mismatch(got, want):
    """got / want: Arr (or Dual) of equal shape; returns None if identical, else (flat index, got, want) or a shape message"""
    if isinstance(got, Unknown):
        raise EvalError(f"value not evaluated: {got.why[:120]}")
    if isinstance(want, Dual):
        if isinstance(got, Arr) and got.size() == 1:
            got = got.data[0]
        if not isinstance(got, Dual):
            if isinstance(got, (int, float, Fraction)) and not isinstance(got, bool):
                got = Dual.of(got)
            else:
                return f"a {type(got).__name__} where a scalar is expected"
        return None if eq(got, want) else (0, got, want)
    if not isinstance(got, Arr):
        return f"{show(got)} where an array of shape {want.shape} is expected"
    if tuple(got.shape) != tuple(want.shape):
        return f"shape {tuple(got.shape)} where {tuple(want.shape)} is expected"
    for i, (g, w) in enumerate(zip(got.data, want.data)):
        if not eq(g, w):
            return (i, g, w)
    return None


def short(x, n=220):
    r = repr(x.a) if isinstance(x, Dual) else str(x)
    return r if len(r) <= n else r[:n] + " ..."


def describe(mm, what="entry"):
    if mm is None:
        return ""
    if isinstance(mm, str):
        return mm
    i, g, w = mm
    return f"{what} {i} is `{short(g)}`; the specification gives `{short(w)}`"


def same_value(a, b):
    """identity, or equal arrays / numbers (a copy or a re-wrapped array is the same value)"""
    if a is b:
        return True
    if isinstance(a, Arr) and isinstance(b, Arr):
        return tuple(a.shape) == tuple(b.shape) and all(eq(x, y) for x, y in zip(a.data, b.data))
    ca, cb = const_of(a), const_of(b)
    if ca is not None and cb is not None and not isinstance(a, (Arr, Record)) and not isinstance(b, (Arr, Record)):
        return ca == cb
    return False


def touch_visited(ctx, I, modules):
    for q in I.visited:
        s_ = ctx.repo.find(q)
        if s_ is not None and s_.module.name in modules:
            ctx.touch(s_)


def evaluate(ctx, rule, scope, construct, thunk):
    """Run an interpretation; an un-modelled operation / unexpected shape makes the obligation UNDECIDED and returns None."""
    try:
        return thunk()
    except ERRS as ex:
        ctx.undecided(rule, scope, None, construct=construct, detail=f"cannot interpret: {type(ex).__name__}: {str(ex)[:300]}")
        return None


def shape_functions(I, values, gradients):
    return I.call(fn_value(I, f"{IP}:ShapeFunctions"), [], {"values": values, "gradients": gradients})


def quadrature_rule(I, xi, w):
    return I.call(fn_value(I, f"{QR}:QuadratureRule"), [], {"xigauss": xi, "wgauss": w})


# ----------------------------------------------------------------------------- a: dispatch

def a_dispatch(ctx):
    rule = "a/T14-dispatch"
    mod = ctx.need_module(IP)
    cs = ctx.need(f"{IP}:compute_shapes")
    # element-type constants the module advertises: module-level integer constants whose value is an element type (public API names)
    consts = {}
    I0 = fresh_interp(ctx.repo)
    for st in mod.tree.body:
        if isinstance(st, ast.Assign) and len(st.targets) == 1 and isinstance(st.targets[0], ast.Name) and "ELEMENT" in st.targets[0].id.upper():
            try:
                v = const_of(I0.module_value(mod, st.targets[0].id))
            except ERRS:
                v = None
            if v is not None:
                consts[st.targets[0].id] = v
    if len(consts) < 3:
        raise Incomplete(f"element type constants found: {sorted(consts)}")
    ctx.decide(rule, len(set(consts.values())) == len(consts), mod.scope, None, construct="element-type-constants-distinct", detail=str(consts),
               bad_detail=f"element type constants are not distinct: {consts}")
    makers = {"make_parent_element_1d": "shape1d", "make_parent_element_2d": "shape2d", "make_parent_element_2d_with_bubble": "shape2dBubble"}
    for r_ in makers.values():
        ctx.need(f"{IP}:{r_}")

    def dispatch(pe):
        """which shape routine compute_shapes calls for parent element `pe`, with which arguments"""
        I = fresh_interp(ctx.repo)
        log = []
        def stub(r_):
            def f(it, args, kw):
                log.append((r_, list(args), dict(kw)))
                return shape_functions(it, sym_arr(f"val_{r_}", (2, 3)), sym_arr(f"grad_{r_}", (2, 3, 2)))
            return f
        for r_ in set(makers.values()):
            I.special[f"{IP}:{r_}"] = stub(r_)
        pts = sym_arr("p", (2, 2))
        try:
            res = I.call(fn_value(I, f"{IP}:compute_shapes"), [pe, pts], {})
        except Raised as ex:
            return ("raise", str(ex)), log, pts
        return res, log, pts
    # every advertised constant has a handler
    for cname, cval in sorted(consts.items()):
        def go(cval=cval):
            I = fresh_interp(ctx.repo)
            pe = I.call(fn_value(I, f"{IP}:ParentElement"), [], {"elementType": int(cval), "degree": 2, "coordinates": sym_arr("c", (3, 2)),
                                                              "vertexNodes": int_arr([0, 1, 2]), "faceNodes": None, "interiorNodes": int_arr([])})
            return dispatch(pe)
        r = evaluate(ctx, rule, cs, f"compute_shapes:{cname}", go)
        if r is None:
            continue
        res, log, _ = r
        handled = isinstance(res, Record) and len(log) >= 1
        ctx.decide(rule, True if handled else (False if (isinstance(res, tuple) and res and res[0] == "raise") or res is None else None), cs, None,
                   construct=f"compute_shapes:{cname}", detail=f"element type {cname} = {cval} is evaluated by {log[0][0] if log else '?'}",
                   bad_detail=f"compute_shapes has no branch for element type {cname} = {cval}: " +
                              (f"it raises `{res[1]}`" if isinstance(res, tuple) else "it returns nothing" if res is None else f"it returns {res!r}"))
    # each maker stamps a type that compute_shapes sends to the routine of that element, with the element's own data
    for mk, want in makers.items():
        sc = ctx.need(f"{IP}:{mk}")

        def go(mk=mk):
            I = fresh_interp(ctx.repo)
            pe = I.call(fn_value(I, f"{IP}:{mk}"), [2], {})
            if not isinstance(pe, Record):
                raise EvalError(f"{mk}(2) is {pe!r}")
            return (pe,) + dispatch(pe)
        r = evaluate(ctx, rule, sc, f"{mk}:element-type", go)
        if r is None:
            continue
        pe, res, log, pts = r
        et = const_of(pe.get("elementType"))
        names = [k for k, v in consts.items() if v == et]
        if isinstance(res, tuple) and res and res[0] == "raise" or res is None or not log:
            ctx.refuted(rule, sc, None, construct=f"{mk}:element-type",
                        detail=f"{mk} builds a ParentElement of type {et} ({names or 'no constant'}), for which compute_shapes " +
                               (f"raises `{res[1]}`" if isinstance(res, tuple) else "evaluates no shape routine"))
            continue
        routines = sorted({l[0] for l in log})
        if routines != [want]:
            # exactly one call of a *different* element's routine is a derived fault; any other pattern (several routines combined, ...) is not understood
            ok = False if (len(log) == 1) else None
            why = f"compute_shapes evaluates an element of type {et} ({names}) built by {mk} with {routines}, expected {want}"
        else:
            ok = True
            why = ""
            sc_r = ctx.repo.find(f"{IP}:{want}")
            ps = sc_r.params()
            for (_, args, kw) in log:
                bound = dict(zip(ps, args))
                bound.update(kw)
                vals = list(bound.values())
                uses_pts = any(same_value(v, pts) for v in vals)
                if want == "shape2dBubble":
                    okargs = any(v is pe or (isinstance(v, Record) and M._same_tables(v, pe)) for v in vals) and uses_pts
                else:
                    okargs = any(same_value(v, pe.get("coordinates")) for v in vals) and uses_pts and \
                        any(same_value(v, pe.get("degree")) for v in vals if not isinstance(v, (Arr, Record)))
                if not okargs:
                    ok = False
                    why = (f"{want} is called with ({', '.join(show(v) if isinstance(v, (Arr, Dual)) else repr(v) for v in vals)}): not with the element's own degree "
                           f"{pe.get('degree')!r} / nodal coordinates and the given points")
        ctx.decide(rule, ok, sc, None, construct=f"{mk}:element-type", detail=f"{mk} -> type {et} {names} -> {want}(own degree, own nodes, points)",
                   bad_detail=why)


# ----------------------------------------------------------------------------- function-space fixtures and specifications

class Fixture:
    """Two disjoint generic elements of the given order, symbolic reference shape tables and rule."""
    def __init__(self, ctx, order=2, bubble=False, nq=2, ntri=2):
        self.I = I = fresh_interp(ctx.repo)
        self.mesh, self.V, self.pe, self.pe1 = M.spec_mesh(I, order, bubble, ntri=ntri)
        self.nn = M.table(self.pe, "coordinates").shape[0]
        self.nq, self.nt = nq, ntri
        self.N = sym_arr("N", (nq, self.nn))
        self.dN = sym_arr("dN", (nq, self.nn, 2))
        self.w = sym_arr("w", (nq,))
        self.xi = sym_arr("xi", (nq, 2))
        self.shapeOnRef = shape_functions(I, self.N, self.dN)
        self.rule = quadrature_rule(I, self.xi, self.w)
        self.conns = ints_of(self.mesh.get("conns"))
        self.coords = self.mesh.get("coords")

    def node(self, t, n):
        return self.conns[t * self.nn + n]

    def X(self, t, n, c):
        return self.coords.data[2 * self.node(t, n) + c]

    def det(self, t):
        J0, J1 = M.jacobian_columns(self.V[t])
        return M.cross2(J0, J1)

    def spec_vols(self, t, axisymmetric):
        out = []
        for q in range(self.nq):
            v = self.w.data[q] * self.det(t)
            if axisymmetric:
                r = Dual(0)
                for n in range(self.nn):
                    r = r + self.N.data[q * self.nn + n] * self.X(t, n, 0)
                v = Dual(2) * Dual(_A.atom("pi")) * r * v
            out.append(v)
        return Arr(out, (self.nq,))

    def grads_mismatch(self, g, t):
        """g: (nq, nn, 2) mapped gradients of element t.  None if  sum_i g[q,n,i] dx_i/dxi_a == dN[q,n,a]  for all q, n, a."""
        if isinstance(g, Unknown):
            raise EvalError(f"gradients not evaluated: {g.why[:120]}")
        if not isinstance(g, Arr) or tuple(g.shape) != (self.nq, self.nn, 2):
            return f"mapped gradients have shape {tuple(g.shape) if isinstance(g, Arr) else type(g).__name__}; [point, node, x] = {(self.nq, self.nn, 2)} is required"
        J = M.jacobian_columns(self.V[t])
        for q in range(self.nq):
            for n in range(self.nn):
                g0, g1 = g.data[(q * self.nn + n) * 2], g.data[(q * self.nn + n) * 2 + 1]
                for a in range(2):
                    lhs = g0 * J[a][0] + g1 * J[a][1]
                    want = self.dN.data[(q * self.nn + n) * 2 + a]
                    if not eq(lhs, want):
                        return (f"at point {q}, node {n}: grad_x N . dx/dxi{a} = {lhs.a!r}, but dN/dxi{a} = {want.a!r} "
                                f"(x = xi0 X_v0 + xi1 X_v1 + (1-xi0-xi1) X_v2 over the parent element's vertex nodes)")
        return None


def sub_arr(a, t):
    return rows_of(a)[t]


# ----------------------------------------------------------------------------- a: modes of the factory

def a_modes(ctx):
    rule = "a/T14-dispatch"
    sc = ctx.need(f"{FS}:construct_function_space_from_parent_element")
    results = {}
    for mode, axi in (("cartesian", False), ("axisymmetric", True)):
        def go(mode=mode):
            F = Fixture(ctx, order=2, bubble=False)
            fs = F.I.call(fn_value(F.I, f"{FS}:construct_function_space_from_parent_element"), [F.mesh, F.shapeOnRef, F.rule, mode], {})
            touch_visited(ctx, F.I, (FS,))
            if not isinstance(fs, Record):
                raise EvalError(f"result is {fs!r}")
            return F, fs
        r = evaluate(ctx, rule, sc, f"mode:{mode}", go)
        if r is None:
            continue
        F, fs = r
        results[mode] = r

        def verdict(F=F, fs=fs, axi=axi):
            flag = fs.get("isAxisymmetric")
            if not isinstance(flag, bool):
                raise EvalError(f"isAxisymmetric is {flag!r}")
            vols = fs.get("vols")
            bad = None
            if flag != axi:
                bad = f"isAxisymmetric = {flag}"
            for t in range(F.nt):
                mm = first_mismatch(sub_arr(vols, t) if isinstance(vols, Arr) and vols.ndim == 2 and vols.shape[0] == F.nt else vols, F.spec_vols(t, axi))
                if mm is not None and bad is None:
                    # does the other mode's specification fit?  (then the table is crossed, which is the more useful message)
                    other = first_mismatch(sub_arr(vols, t), F.spec_vols(t, not axi)) if isinstance(vols, Arr) and vols.ndim == 2 and vols.shape[0] == F.nt else "x"
                    bad = (f"the volumes are those of the {'Cartesian' if axi else 'axisymmetric'} mode" if other is None
                           else "volumes of element %d: %s" % (t, describe(mm, "point")))
            return bad
        bad = evaluate(ctx, rule, sc, f"mode:{mode}", lambda: (verdict(),))
        if bad is None:
            continue
        bad = bad[0]
        ctx.decide(rule, bad is None, sc, None, construct=f"mode:{mode}",
                   detail=f"mode2D='{mode}': isAxisymmetric={axi}, vols = {'2 pi r(xi_q) ' if axi else ''}det(dx/dxi) w_q",
                   bad_detail=f"mode2D='{mode}' gives {bad}; expected isAxisymmetric={axi} with {'2*pi*r*' if axi else ''}det(dx/dxi)*w_q")
    if "cartesian" in results:
        F, fs = results["cartesian"]

        def fields():
            bad = None
            shapes = fs.get("shapes")
            for t in range(F.nt):
                mm = first_mismatch(sub_arr(shapes, t) if isinstance(shapes, Arr) and shapes.ndim == 3 else shapes, F.N)
                if mm is not None:
                    bad = bad or f"shapes of element {t}: {describe(mm)} (every element carries the reference shape values)"
            g = fs.get("shapeGrads")
            if isinstance(g, Unknown):
                raise EvalError(f"shapeGrads not evaluated: {g.why[:120]}")
            if bad is None and (not isinstance(g, Arr) or g.ndim != 4 or g.shape[0] != F.nt):
                bad = f"shapeGrads has shape {getattr(g, 'shape', None)}; [element, point, node, x] is required"
            if bad is None:
                for t in range(F.nt):
                    m = F.grads_mismatch(sub_arr(g, t), t)
                    if m is not None:
                        bad = f"shapeGrads of element {t}: {m}"
                        break
            if bad is None and fs.get("mesh") is not F.mesh:
                m_ = fs.get("mesh")
                if not isinstance(m_, Record) or "coords" not in m_.fields or "conns" not in m_.fields:
                    raise EvalError(f"field mesh is {m_!r}")
                if not (same_value(m_.get("coords"), F.coords) and same_value(m_.get("conns"), F.mesh.get("conns"))):
                    bad = "field `mesh` is not the mesh the space was built on"
            if bad is None and fs.get("quadratureRule") is not F.rule:
                q_ = fs.get("quadratureRule")
                if not isinstance(q_, Record) or not (same_value(q_.values[0], F.xi) and same_value(q_.values[1], F.w)):
                    bad = "field `quadratureRule` is not the rule the space was built with"
            return (bad,)
        r = evaluate(ctx, rule, sc, "FunctionSpace-fields", fields)
        if r is not None:
            ctx.decide(rule, r[0] is None, sc, None, construct="FunctionSpace-fields",
                       detail="shapes = reference values per element, shapeGrads . dx/dxi = reference gradients, mesh and rule stored as given",
                       bad_detail=f"FunctionSpace built by the factory: {r[0]}")


# ----------------------------------------------------------------------------- b: axisymmetric weight

def b_axisymmetric(ctx):
    rule = "b/T7-axisymmetric-weight"
    sc = ctx.need(f"{FS}:compute_element_volumes_axisymmetric")
    for bubble in (False, True):
        cons = "vols_axi=2*pi*r(xi_q)*vols" + ("[bubble]" if bubble else "")

        def go(bubble=bubble):
            F = Fixture(ctx, order=2, bubble=bubble)
            t = 1
            nodes = int_arr([F.node(t, n) for n in range(F.nn)])
            got = F.I.call(fn_value(F.I, f"{FS}:compute_element_volumes_axisymmetric"), [F.coords, nodes, F.pe, F.N, F.w], {})
            touch_visited(ctx, F.I, (FS,))
            mm = first_mismatch(got, F.spec_vols(t, True))
            factor = ""
            if isinstance(mm, tuple):
                # the weight the code applies = its volume / the Cartesian volume of the same point (more readable than the product)
                q = mm[0]
                try:
                    ratio = mm[1] / F.spec_vols(t, False).data[q]
                    want = mm[2] / F.spec_vols(t, False).data[q]
                    factor = f"at quadrature point {q} the Cartesian volume is weighted by `{short(ratio)}`; the axisymmetric weight is `{short(want)}`"
                except ERRS:
                    factor = ""
            return (mm, first_mismatch(got, F.spec_vols(t, False)), factor)
        r = evaluate(ctx, rule, sc, cons, go)
        if r is None:
            continue
        mm, mm_cart, factor = r
        ctx.decide(rule, mm is None, sc, None, construct=cons,
                   detail="2*pi*(shapes @ X_nodes[:,0])*det(dx/dxi)*w_q on a generic element",
                   bad_detail="axisymmetric volumes: " + (factor or describe(mm, 'quadrature point')) + (" (these are the Cartesian volumes)" if mm_cart is None else "") +
                              "; expected 2*pi times the radius interpolated at each quadrature point (shapes @ X_nodes[:,0]) times the Cartesian volume")
    # radial column agreement: hoop strain u_r / r with r = column 0, other entries the planar gradient
    H = sym_arr("H", (2, 2))
    u = sym_arr("u", (2,))
    X = sym_arr("X", (2,))

    def want33(Hq, uq, Xq):
        out = [Dual(0)] * 9
        for i in range(2):
            for j in range(2):
                out[i * 3 + j] = Hq.data[i * 2 + j]
        out[8] = uq.data[0] / Xq.data[0]
        return Arr(out, (3, 3))
    for q in ("optimism.Mechanics:axisymmetric_gradient", "optimism.TensorMath:gradient_2D_to_axisymmetric"):
        s_ = ctx.need(q)
        cons = f"{s_.name}:hoop-strain=u_r/r"

        def go(q=q):
            I = fresh_interp(ctx.repo)
            return (first_mismatch(I.call(fn_value(I, q), [H, u, X], {}), want33(H, u, X)),)
        r = evaluate(ctx, rule, s_, cons, go)
        if r is not None:
            ctx.decide(rule, r[0] is None, s_, None, construct=cons, detail="entry (2,2) = u[0]/X[0] (column 0 is the radius), planar block = 2D gradient",
                       bad_detail=f"{s_.name}: {describe(r[0])}; the radius is column 0 everywhere else (entry 8 = (2,2) must be u[0]/X[0])")
    at = ctx.need("optimism.Mechanics:axisymmetric_element_gradient_transformation")

    def go():
        I = fresh_interp(ctx.repo)
        nq, nn = 2, 3
        G = sym_arr("G", (nq, 2, 2))
        N = sym_arr("N", (nq, nn))
        vols = sym_arr("vol", (nq,))
        U = sym_arr("U", (nn, 2))
        Xn = sym_arr("Xn", (nn, 2))
        got = I.call(fn_value(I, "optimism.Mechanics:axisymmetric_element_gradient_transformation"), [G, N, vols, U, Xn], {})
        rows = []
        for q_ in range(nq):
            uq = Arr([sum((N.data[q_ * nn + n] * U.data[n * 2 + c] for n in range(nn)), Dual(0)) for c in range(2)], (2,))
            xq = Arr([sum((N.data[q_ * nn + n] * Xn.data[n * 2 + c] for n in range(nn)), Dual(0)) for c in range(2)], (2,))
            rows.append(want33(rows_of(G)[q_], uq, xq))
        from .C03_interp import stack_rows
        return (first_mismatch(got, stack_rows(rows)),)
    r = evaluate(ctx, rule, at, "axisymmetric-transformation-roles", go)
    if r is not None:
        ctx.decide(rule, r[0] is None, at, None, construct="axisymmetric-transformation-roles",
                   detail="per point: (planar gradient, shapes@disps, shapes@coords) -> hoop strain (N u)_0 / (N X)_0",
                   bad_detail=f"axisymmetric gradient transformation: {describe(r[0])}")


# ----------------------------------------------------------------------------- c: affine map

def c_affine(ctx):
    rule = "c/T6-affine-map"
    mg = ctx.need(f"{FS}:map_element_shape_grads")
    ev = ctx.need(f"{FS}:compute_element_volumes")
    for bubble in (False, True):
        sfx = "[bubble]" if bubble else ""

        def go_v(bubble=bubble):
            F = Fixture(ctx, order=2, bubble=bubble)
            out = []
            for t in range(F.nt):
                nodes = int_arr([F.node(t, n) for n in range(F.nn)])
                got = F.I.call(fn_value(F.I, f"{FS}:compute_element_volumes"), [F.coords, nodes, F.pe, F.N, F.w], {})
                out.append(first_mismatch(got, F.spec_vols(t, False)))
            touch_visited(ctx, F.I, (FS,))
            return out
        r = evaluate(ctx, rule, ev, "volumes=det(dx/dxi)*weights" + sfx, go_v)
        if r is not None:
            bad = next((m for m in r if m is not None), None)
            ctx.decide(rule, bad is None, ev, None, construct="volumes=det(dx/dxi)*weights" + sfx,
                       detail="vols[q] = w_q * det[X_v0 - X_v2, X_v1 - X_v2] over the vertex nodes of the given parent element",
                       bad_detail=f"compute_element_volumes: {describe(bad, 'quadrature point')}: the volume Jacobian is not det(dx/dxi) of the affine map "
                                  f"x = xi0 X_v0 + xi1 X_v1 + (1-xi0-xi1) X_v2 over the parent element's vertex nodes (the map the gradients and order elevation use)")

        def go_g(bubble=bubble):
            return _grad_check(ctx, bubble)
        r = evaluate(ctx, rule, mg, "gradients-of-the-same-affine-map" + sfx, go_g)
        if r is not None:
            bad = next((m for m in r if m is not None), None)
            # shape / transposition faults are reported by rule e; here: the map itself
            ctx.decide(rule, True if bad is None else (None if bad.startswith("mapped gradients have shape") else False), mg, None,
                       construct="gradients-of-the-same-affine-map" + sfx,
                       detail="grad_x N . dx/dxi = dN/dxi with dx/dxi = [X_v0 - X_v2, X_v1 - X_v2] over the parent element's vertex nodes: det(dx/dxi) is the volume Jacobian",
                       bad_detail=f"map_element_shape_grads: {bad}: gradients and volumes belong to different affine maps")
    # the public factory evaluates the mesh's parent element at the rule's own points
    c0 = ctx.need(f"{FS}:construct_function_space")

    def go():
        F = Fixture(ctx, order=2, bubble=False)
        log = []

        def stub(it, args, kw):
            log.append((list(args), dict(kw)))
            return F.shapeOnRef
        F.I.special[f"{IP}:compute_shapes"] = stub
        fs = F.I.call(fn_value(F.I, f"{FS}:construct_function_space"), [F.mesh, F.rule], {})
        if not isinstance(fs, Record) or isinstance(fs.get("shapes"), Unknown):
            raise EvalError(f"result is {fs!r}")
        if not log:
            raise EvalError("the shape functions are not obtained from Interpolants.compute_shapes")
        for (args, kw) in log:
            vals = args + list(kw.values())
            if not any(v is F.pe or (isinstance(v, Record) and M._same_tables(v, F.pe)) for v in vals):
                return ("the shape functions are not those of mesh.parentElement",)
            if not any(same_value(v, F.xi) for v in vals):
                return ("the shape functions are not evaluated at quadratureRule.xigauss",)
        for t in range(F.nt):
            mm = first_mismatch(sub_arr(fs.get("shapes"), t), F.N)
            if mm is not None:
                return (f"shapes of element {t}: {describe(mm)}",)
        if fs.get("isAxisymmetric") is not False:
            return (f"default mode gives isAxisymmetric = {fs.get('isAxisymmetric')!r}",)
        return (None,)
    r = evaluate(ctx, rule, c0, "shapes-at-the-rule's-points", go)
    if r is not None:
        ctx.decide(rule, r[0] is None, c0, None, construct="shapes-at-the-rule's-points",
                   detail="shape functions of the mesh's parent element at the rule's own points, handed to the factory",
                   bad_detail=f"construct_function_space: {r[0]}")


def _grad_check(ctx, bubble):
    """map_element_shape_grads on the generic elements: per element None or the first violated identity (memoised per run)."""
    memo = ctx.__dict__.setdefault("_c03_grad", {})
    if bubble not in memo:
        try:
            F = Fixture(ctx, order=2, bubble=bubble, nq=1)
            out = []
            for t in range(F.nt):
                nodes = int_arr([F.node(t, n) for n in range(F.nn)])
                n_sing = len(F.I.singular)
                try:
                    got = F.I.call(fn_value(F.I, f"{FS}:map_element_shape_grads"), [F.coords, nodes, F.pe, F.dN], {})
                except Singular as ex:
                    got = Unknown(str(ex))
                if isinstance(got, Unknown) and len(F.I.singular) > n_sing:
                    out.append(f"the Jacobian it inverts, {F.I.singular[-1]}, is singular for every element (its columns are not the two parametric directions "
                               f"X_v0 - X_v2, X_v1 - X_v2 of the parent element's vertex nodes)")
                else:
                    out.append(F.grads_mismatch(got, t))
            touch_visited(ctx, F.I, (FS,))
            memo[bubble] = out
        except ERRS as ex:
            memo[bubble] = ex
    if isinstance(memo[bubble], Exception):
        raise memo[bubble]
    return memo[bubble]


def c_block_integration(ctx):
    rule = "c/T6-affine-map"
    iob = ctx.need(f"{FS}:integrate_over_block")
    cons = "integrate=dot(values[block], vols[block])"

    def go():
        I = fresh_interp(ctx.repo)
        mesh, V, pe, pe1 = M.spec_mesh(I, 1, False, ntri=3)
        nt, nq, nn = 3, 2, 3
        conns = ints_of(mesh.get("conns"))
        coords = mesh.get("coords")
        nN = coords.shape[0]
        shapes = sym_arr("S", (nt, nq, nn))
        grads = sym_arr("G", (nt, nq, nn, 2))
        vols = sym_arr("vol", (nt, nq))
        xi, w = sym_arr("xi", (nq, 2)), sym_arr("w", (nq,))
        fs = I.call(fn_value(I, f"{FS}:FunctionSpace"), [], {"shapes": shapes, "vols": vols, "shapeGrads": grads, "mesh": mesh,
                                                              "quadratureRule": quadrature_rule(I, xi, w), "isAxisymmetric": False})
        U = sym_arr("U", (nN, 2))
        state = sym_arr("q", (nt, nq, 1))
        dt = Dual(_A.atom("dt"))
        f = opaque_fn("f")
        block = int_arr([2, 0])
        got = I.call(fn_value(I, f"{FS}:integrate_over_block"), [fs, U, state, dt, f, block], {})
        touch_visited(ctx, I, (FS,))
        want = Dual(0)
        for t in (2, 0):
            for q in range(nq):
                S = lambda n: shapes.data[(t * nq + q) * nn + n]
                uq = Arr([sum((S(n) * U.data[conns[t * nn + n] * 2 + c] for n in range(nn)), Dual(0)) for c in range(2)], (2,))
                xq = Arr([sum((S(n) * coords.data[conns[t * nn + n] * 2 + c] for n in range(nn)), Dual(0)) for c in range(2)], (2,))
                gq = Arr([sum((U.data[conns[t * nn + n] * 2 + i] * grads.data[((t * nq + q) * nn + n) * 2 + j] for n in range(nn)), Dual(0))
                          for i in range(2) for j in range(2)], (2, 2))
                sq = Arr([state.data[t * nq + q]], (1,))
                want = want + opaque_value("f", [uq, gq, sq, xq, dt]) * vols.data[t * nq + q]
        return (first_mismatch(got, want),)
    r = evaluate(ctx, rule, iob, cons, go)
    if r is not None:
        ctx.decide(rule, r[0] is None, iob, None, construct=cons,
                   detail="sum over the block's elements and points of f(u_q, grad u_q, state, X_q, dt) * vols[element, q]",
                   bad_detail=f"integrate_over_block on block [2, 0] of a 3-element mesh: {describe(r[0])}: the kernel values of the block's elements are not "
                              f"contracted with the volumes of the same elements / points")


# ----------------------------------------------------------------------------- e: axis typing

def e_axis_typing(ctx):
    rule = "e/T9-axis-typing"
    mg = ctx.need(f"{FS}:map_element_shape_grads")

    def go():
        return (next((m for m in _grad_check(ctx, False) if m is not None), None),)
    r = evaluate(ctx, rule, mg, "physical-gradients=[node,x]", go)
    if r is not None:
        ctx.decide(rule, r[0] is None, mg, None, construct="physical-gradients=[node,x]",
                   detail="mapped gradients g : [point, node, x] satisfy g . dx/dxi = dN/dxi (J : [x, xi], reference gradients : [node, xi])",
                   bad_detail=f"map_element_shape_grads: {r[0]}; with J : [x, xi] and reference gradients : [node, xi] the mapped gradients must be "
                              f"solve(J^T, dN^T)^T : [node, x] (both axes have length 2, so NumPy cannot catch a mix-up)")
    sg = ctx.need(f"{FS}:compute_quadrature_point_field_gradient")

    def go2():
        I = fresh_interp(ctx.repo)
        nn = 3
        u = sym_arr("u", (nn, 2))
        g = sym_arr("g", (nn, 2))
        got = I.call(fn_value(I, f"{FS}:compute_quadrature_point_field_gradient"), [u, g], {})
        want = Arr([sum((u.data[n * 2 + i] * g.data[n * 2 + j] for n in range(nn)), Dual(0)) for i in range(2) for j in range(2)], (2, 2))
        return (first_mismatch(got, want),)
    r = evaluate(ctx, rule, sg, "field-gradient-contracts-the-node-axis", go2)
    if r is not None:
        ctx.decide(rule, r[0] is None, sg, None, construct="field-gradient-contracts-the-node-axis",
                   detail="grad u [i, j] = sum_n u[n, i] dN[n, j]",
                   bad_detail=f"field gradient: {describe(r[0])}; it must contract nodal values with shape gradients over the node axis: [i, j] = sum_n u[n,i] dN[n,j]")


# ----------------------------------------------------------------------------- f: quadrature tables

def _fractions(a):
    if isinstance(a, Unknown):
        raise EvalError(f"table not evaluated: {a.why[:120]}")
    if not isinstance(a, Arr):
        raise EvalError(f"table is {a!r}")
    out = []
    for x in a.data:
        c = const_of(x)
        if c is None:
            raise EvalError("table entry is not a constant")
        out.append(c)
    return out


def f_tables(ctx):
    rule = "f/T7-quadrature-tables"
    tri = ctx.need(f"{QR}:create_quadrature_rule_on_triangle")
    tables = []          # [X, W, lowest degree, highest degree]
    MAXD = 15
    for d in range(0, MAXD + 1):
        try:
            I = fresh_interp(ctx.repo, lobatto=False)
            I.tolerant = False
            r = I.call(fn_value(I, f"{QR}:create_quadrature_rule_on_triangle"), [d], {})
            touch_visited(ctx, I, (QR,))
            xi, w = I.iterate(r) if isinstance(r, Record) else r
            X, W = _fractions(xi), _fractions(w)
            if not isinstance(xi, Arr) or xi.ndim != 2 or xi.shape[1] != 2 or w.ndim != 1:
                raise EvalError(f"points have shape {xi.shape}, weights {w.shape}")
            X = [(X[2 * i], X[2 * i + 1]) for i in range(len(X) // 2)]
        except Raised as ex:
            if 1 <= d <= 10:
                ctx.refuted(rule, tri, None, construct=f"degree={d}:supported",
                            detail=f"create_quadrature_rule_on_triangle({d}) raises `{ex}`; degrees 1..10 are part of the advertised range")
            continue
        except ERRS as ex:
            ctx.undecided(rule, tri, None, construct=f"degree={d}:table", detail=f"cannot evaluate the rule for degree {d}: {type(ex).__name__}: {str(ex)[:200]}")
            continue
        for tb in tables:
            if tb[0] == X and tb[1] == W:
                tb[3] = d
                break
        else:
            tables.append([X, W, d, d])
    tol = Fraction(2, 10**14)
    for (X, W, lo, hi) in tables:
        okc = len(X) == len(W)
        pos = all(x > 0 for x in W)
        inside = all(p[0] >= 0 and p[1] >= 0 and p[0] + p[1] <= 1 for p in X)
        ctx.decide(rule, okc and pos and inside, tri, None, construct=f"degree<={hi}:positive-weights-points-inside",
                   detail=f"{len(W)} points, weights positive, points in the reference triangle",
                   bad_detail=f"rule returned for degree {lo}..{hi}: {len(X)} points / {len(W)} weights, positive weights: {pos}, points inside the triangle: {inside}")
        if not okc:
            continue
        worst = None
        for a in range(hi + 1):
            for b in range(hi + 1 - a):
                exact = Fraction(math.factorial(a) * math.factorial(b), math.factorial(a + b + 2))
                got = sum(wq * (p[0] ** a) * (p[1] ** b) for wq, p in zip(W, X))
                err = abs(got - exact)
                if worst is None or err > worst[0]:
                    worst = (err, a, b, got, exact)
        ok = worst[0] <= tol
        ctx.decide(rule, ok, tri, None, construct=f"degree<={hi}:monomial-moments",
                   detail=f"all moments x^a y^b, a+b <= {hi}, match a!b!/(a+b+2)! (max error {float(worst[0]):.2e})",
                   bad_detail=f"rule returned for degree <= {hi} integrates x^{worst[1]} y^{worst[2]} to {float(worst[3]):.16g} instead of {float(worst[4]):.16g} "
                              f"(error {float(worst[0]):.2e}): it is not exact to the degree it is selected for")
    if len(tables) < 1:
        raise Incomplete("no triangle rule could be evaluated")


def _gauss_stubs(I):
    """Gauss-Legendre providers as opaque tables: n shifted nodes s_i / weights ws_i on [0,1]; the [-1,1] providers return 2 s - 1, 2 ws."""
    def shifted(n):
        return (Arr([Dual(_A.atom(f"gauss{n}_s{i}")) for i in range(n)], (n,)), Arr([Dual(_A.atom(f"gauss{n}_w{i}")) for i in range(n)], (n,)))

    def sh(it, args, kw):
        n = it.as_int(args[0])
        if n < 1:
            raise Raised(f"roots_sh_legendre({n}): n must be positive")
        return shifted(n)

    def std(it, args, kw):
        n = it.as_int(args[0])
        if n < 1:
            raise Raised(f"Gauss-Legendre with {n} points")
        s, w = shifted(n)
        return (s.map(lambda v: Dual(2) * v - Dual(1)), w.map(lambda v: Dual(2) * v))
    for nm in ("roots_sh_legendre", "ps_roots"):
        for pre in ("scipy.special.", "scipy.special.special.", "scipy."):
            I.ext_special[pre + nm] = sh
    for nm in ("roots_legendre", "p_roots"):
        for pre in ("scipy.special.", "scipy.special.special.", "scipy."):
            I.ext_special[pre + nm] = std
    for pre in ("numpy.polynomial.legendre.", "numpy.polynomial.legendre.legendre."):
        I.ext_special[pre + "leggauss"] = std
    return shifted


def _affine_image(xi, w, s, ws):
    """(a, b, c) if xi = a*s + b and w = c*ws entrywise with rational constants, else None"""
    try:
        abc = set()
        for x_, w_, s_, ws_ in zip(xi.data, w.data, s.data, ws.data):
            (sa,) = s_.a.atoms()
            (wa,) = ws_.a.atoms()
            a = rat_const(_A.diff(x_.a, sa))
            c = rat_const(_A.diff(w_.a, wa))
            if a is None or c is None:
                return None
            b = rat_const(_A.norm(x_.a - _A.const(a) * s_.a))
            r = rat_const(_A.norm(w_.a - _A.const(c) * ws_.a))
            if b is None or r is None or r != 0:
                return None
            abc.add((a, b, c))
        return abc.pop() if len(abc) == 1 else None
    except (ValueError, TypeError, AttributeError):
        return None


def f_rule_1d(ctx):
    rule = "f/T7-quadrature-tables"
    q1 = ctx.need(f"{QR}:create_quadrature_rule_1D")
    bad = None
    und = None
    for d in range(0, 26):
        try:
            I = fresh_interp(ctx.repo, lobatto=False)
            I.tolerant = False
            shifted = _gauss_stubs(I)
            r = I.call(fn_value(I, f"{QR}:create_quadrature_rule_1D"), [d], {})
            xi, w = I.iterate(r) if isinstance(r, Record) else r
            if not isinstance(xi, Arr) or not isinstance(w, Arr) or xi.ndim != 1 or xi.shape != w.shape:
                raise EvalError(f"rule is ({xi!r}, {w!r})")
            n = xi.shape[0]
            if n < 1 or 2 * n - 1 < d:
                bad = bad or f"for degree {d} it takes n = {n} points, exact only to degree {2 * n - 1}"
                continue
            cx, cw = [const_of(v) for v in xi.data], [const_of(v) for v in w.data]
            if all(c is not None for c in cx + cw):
                # literal tables: decided by the moments  sum_i w_i x_i^k = 1/(k+1),  k = 0..degree
                worst = max((abs(sum(wi * xi_ ** k for wi, xi_ in zip(cw, cx)) - Fraction(1, k + 1)), k) for k in range(d + 1))
                if worst[0] > Fraction(2, 10**14):
                    bad = bad or f"for degree {d} the {n}-point table integrates x^{worst[1]} over [0,1] with error {float(worst[0]):.2e}"
                continue
            s, ws = shifted(n)
            if first_mismatch(xi, s) is None and first_mismatch(w, ws) is None:
                continue
            # an affine image of the n-point Gauss-Legendre rule on [0,1]?  x = a s + b, weights c ws: exact on [0,1] only for a=1, b=0, c=1
            aff = _affine_image(xi, w, s, ws)
            if aff is None:
                und = und or f"degree {d}: points {show(xi)}, weights {show(w)} are not recognised as a Gauss-Legendre rule"
            else:
                bad = bad or (f"for degree {d} it returns the {n}-point Gauss-Legendre rule mapped by x -> {aff[0]}*x + {aff[1]} with weights scaled by {aff[2]}: "
                              f"that is a rule on [{aff[1]}, {aff[0] + aff[1]}], not on the unit interval the edge shape functions use")
        except Raised as ex:
            bad = bad or f"for degree {d} it raises `{ex}`"
        except ERRS as ex:
            und = und or f"degree {d}: {type(ex).__name__}: {str(ex)[:200]}"
    ctx.decide(rule, False if bad else (None if und else True), q1, None, construct="1D:points=ceil((degree+1)/2)",
               detail="n Gauss-Legendre points on [0,1] with 2n-1 >= degree for degree 0..25",
               bad_detail=f"create_quadrature_rule_1D: {bad or und}")
    ei = ctx.need(f"{QR}:eval_at_iso_points")

    def go():
        I = fresh_interp(ctx.repo, lobatto=False)
        xi = sym_arr("s", (3,))
        fld = sym_arr("f", (2, 2))
        got = I.call(fn_value(I, f"{QR}:eval_at_iso_points"), [xi, fld], {})
        want = Arr([fld.data[c] + (fld.data[2 + c] - fld.data[c]) * xi.data[q] for q in range(3) for c in range(2)], (3, 2))
        return (first_mismatch(got, want),)
    r = evaluate(ctx, rule, ei, "eval_at_iso_points", go)
    if r is not None:
        ctx.decide(rule, r[0] is None, ei, None, construct="eval_at_iso_points", detail="f0 + (f1 - f0) xi at every point",
                   bad_detail=f"eval_at_iso_points: {describe(r[0])}")


def _constructs_class(ctx, fn, cls):
    """call-graph fact: some scope reachable from `fn` refers to the class `cls` (so `fn` may build an instance of it)"""
    from optilint.model import ClassVal, walk_local
    try:
        cone = ctx.cg.cone([fn], by_attr_name=False)
    except Exception:       # noqa: BLE001 -- fail closed: treat as "may construct"
        return True
    for s in cone:
        for n in walk_local(s.node):
            if isinstance(n, (ast.Name, ast.Attribute)) and isinstance(getattr(n, "ctx", None), ast.Load):
                try:
                    vals = ctx.repo.resolve(n, s)
                except Exception:   # noqa: BLE001
                    continue
                if any(isinstance(v, ClassVal) and v.scope is cls for v in vals):
                    return True
    return False


def _accepts_rule(ctx, fn):
    """interpretation fact: called with a generic rule (record, or (points, weights) pair) instead of a degree, `fn` runs through"""
    for mk in ("record", "pair"):
        try:
            I = fresh_interp(ctx.repo, lobatto=False)
            I.tolerant = False
            xi, w = sym_arr("probe_s", (3,)), sym_arr("probe_w", (3,))
            arg = quadrature_rule(I, xi, w) if mk == "record" else (xi, w)
            I.call(fn_value(I, fn.qualname), [arg], {})
            return True
        except ERRS:
            continue
    return False


def _moment_error_1d(cx, cw, d):
    """(largest error, k) of  sum_i w_i x_i^k = 1/(k+1),  k = 0..d  (exact rationals)"""
    return max((abs(sum(wi * xi_ ** k for wi, xi_ in zip(cw, cx)) - Fraction(1, k + 1)), k) for k in range(d + 1))


def _moment_error_2d(X, W, d):
    worst = None
    for a in range(d + 1):
        for b in range(d + 1 - a):
            exact = Fraction(math.factorial(a) * math.factorial(b), math.factorial(a + b + 2))
            got = sum(wq * (p[0] ** a) * (p[1] ** b) for wq, p in zip(W, X))
            err = abs(got - exact)
            if worst is None or err > worst[0]:
                worst = (err, a, b)
    return worst


def f_sibling_factories(ctx):
    """Every *other* way the rule module offers to obtain a QuadratureRule from a requested degree (padded / fixed-size / alternative
    factories) must keep the same promise as the two main factories: the rule it returns for degree d integrates every monomial of degree
    <= d exactly over the reference domain ([0,1] for 1D points, the unit triangle for 2D points).  The factories are found by what they
    return (an instance of the rule class), the tables by interpretation (wherever they live: branch functions of a lax.switch, helper
    functions, module constants); nodes and weights enter only through the moments, i.e. as *pairs*.

    Range of degrees: a factory whose result has the same number N of entries for every degree (padded to a fixed size) cannot hold more
    than N Gauss points, hence cannot be exact beyond degree 2N-1 (1D); beyond that capacity nothing is required.  A degree the factory
    refuses (raises) is outside its range."""
    rule = "f/T7-quadrature-tables"
    mod = ctx.need_module(QR)
    cls = ctx.need(f"{QR}:QuadratureRule")
    main = {"create_quadrature_rule_1D", "create_quadrature_rule_on_triangle"}
    tol = Fraction(2, 10**14)
    MAXD = 25
    for fn in mod.scope.children:
        if not fn.is_function() or fn.kind != "function" or fn.name in main:
            continue
        if len(fn.params()) < 1 or fn.n_required() > 1 or fn.cls is not None:
            continue
        results = {}        # degree -> ("1d", cx, cw) | ("2d", X, W) | ("sym", xi, w, s, ws) | ("raise", msg)
        und = None
        other = False
        for d in range(0, MAXD + 1):
            try:
                I = fresh_interp(ctx.repo, lobatto=False)
                I.tolerant = False
                shifted = _gauss_stubs(I)
                r = I.call(fn_value(I, fn.qualname), [d], {})
                if not (isinstance(r, Record) and (r.cls is cls or (r.cls is None and r.tname == cls.name))):
                    other = True        # returns something else: not a factory of rules
                    break
                touch_visited(ctx, I, (QR,))
                xi, w = I.iterate(r)
                if not isinstance(xi, Arr) or not isinstance(w, Arr) or w.ndim != 1 or xi.shape[0] != w.shape[0]:
                    raise EvalError(f"rule is ({xi!r}, {w!r})")
                cx, cw = [const_of(v) for v in xi.data], [const_of(v) for v in w.data]
                literal = all(c is not None for c in cx + cw)
                if xi.ndim == 1 and literal:
                    results[d] = ("1d", cx, cw)
                elif xi.ndim == 2 and xi.shape[1] == 2 and literal:
                    results[d] = ("2d", [(cx[2 * i], cx[2 * i + 1]) for i in range(len(cx) // 2)], cw)
                elif xi.ndim == 1:
                    results[d] = ("sym", xi, w) + tuple(shifted(xi.shape[0]))
                else:
                    raise EvalError(f"points of shape {xi.shape} with symbolic entries")
            except Raised as ex:
                results[d] = ("raise", str(ex))
            except ERRS as ex:
                und = und or f"degree {d}: {type(ex).__name__}: {str(ex)[:200]}"
        if other:
            continue
        if und and not results:
            if not _constructs_class(ctx, fn, cls):
                continue        # a helper that never builds a rule
            if _accepts_rule(ctx, fn):
                continue        # its parameter is a rule / a (points, weights) pair, not a degree: a transformer, reached through the factories
        cons = f"factory[{fn.name}]:exact-to-requested-degree"
        if und:
            ctx.undecided(rule, fn, None, construct=cons, detail=f"{fn.name} may build a {cls.name} but cannot be interpreted: {und}")
            continue
        rules_ = {d: v for d, v in results.items() if v[0] != "raise"}
        if not rules_:
            ctx.undecided(rule, fn, None, construct=cons, detail=f"{fn.name} raises for every degree 0..{MAXD}: {results[0][1][:120]}")
            continue
        sizes = {(v[2].shape[0] if isinstance(v[2], Arr) else len(v[2])) for v in rules_.values()}
        one_d = all(v[0] in ("1d", "sym") for v in rules_.values())
        cap = None
        if one_d and len(sizes) == 1 and len(rules_) > 1:
            cap = 2 * next(iter(sizes)) - 1         # fixed-size rule: capacity of N Gauss points
        bad = None
        unk = None
        checked = []
        for d in sorted(rules_):
            v = rules_[d]
            if cap is not None and d > cap:
                continue
            if v[0] == "1d":
                err, k = _moment_error_1d(v[1], v[2], d)
                if err > tol:
                    live = [(float(x), float(w_)) for x, w_ in zip(v[1], v[2]) if w_ != 0]
                    bad = bad or (f"for degree {d} it returns the (point, weight) pairs {', '.join(f'({x:.6g}, {w_:.6g})' for x, w_ in live[:8])} which integrate x^{k} "
                                  f"over [0,1] with error {float(err):.2e}: nodes and weights do not form a rule exact to degree {d}")
                else:
                    checked.append(d)
            elif v[0] == "2d":
                err, a, b = _moment_error_2d(v[1], v[2], d)
                if err > tol:
                    bad = bad or f"for degree {d} the {len(v[2])}-point table integrates x^{a} y^{b} over the unit triangle with error {float(err):.2e}"
                else:
                    checked.append(d)
            else:
                _, xi, w, s, ws = v
                n = xi.shape[0]
                if first_mismatch(xi, s) is None and first_mismatch(w, ws) is None:
                    if 2 * n - 1 < d:
                        bad = bad or f"for degree {d} it takes n = {n} Gauss points, exact only to degree {2 * n - 1}"
                    else:
                        checked.append(d)
                    continue
                aff = _affine_image(xi, w, s, ws)
                if aff is None:
                    unk = unk or f"degree {d}: points {show(xi)}, weights {show(w)} are not recognised as a Gauss-Legendre rule"
                else:
                    bad = bad or (f"for degree {d} it returns the {n}-point Gauss-Legendre rule mapped by x -> {aff[0]}*x + {aff[1]} with weights scaled by "
                                  f"{aff[2]}: not a rule on the unit interval")
        if not bad and not unk and not checked:
            unk = "no degree could be checked"
        rng = f"{min(checked)}..{max(checked)}" if checked else "-"
        ctx.decide(rule, False if bad else (None if unk else True), fn, None, construct=cons,
                   detail=f"rule returned for every degree {rng} has exact monomial moments up to that degree"
                          + (f" (fixed size {next(iter(sizes))}: capacity 2N-1 = {cap})" if cap is not None else ""),
                   bad_detail=f"{fn.name}: {bad or unk}")


# ----------------------------------------------------------------------------- g: edge integration

class EdgeFixture:
    def __init__(self, ctx, order=2, nq=2):
        self.F = F = Fixture(ctx, order=order, bubble=False, nq=nq)
        I = F.I
        self.I = I
        self.order = order
        self.nn1 = order + 1
        self.s = sym_arr("s", (nq,))
        self.wq = sym_arr("wq", (nq,))
        self.rule1d = quadrature_rule(I, self.s, self.wq)
        self.U = sym_arr("U", (F.coords.shape[0], 2))
        self.faces = ints_of(M.table(F.pe, "faceNodes"))
        self.calls = []
        pe1 = F.pe1

        def shapes1d(it, args, kw):
            vals = list(args) + list(kw.values())
            pts = [v for v in vals if isinstance(v, Arr)]
            if not any(v is pe1 for v in vals) or len(pts) != 1 or pts[0].ndim != 1:
                raise EvalError("compute_shapes: not the 1D parent element of the mesh at a list of points")
            self.calls.append(pts[0])
            return shape_functions(it, self.basis(pts[0]), self.basis(pts[0], "dB"))
        I.special[f"{IP}:compute_shapes"] = shapes1d
        self.fs = I.call(fn_value(I, f"{FS}:FunctionSpace"), [], {"shapes": None, "vols": None, "shapeGrads": None, "mesh": F.mesh,
                                                                  "quadratureRule": None, "isAxisymmetric": False})

    def basis(self, pts, name="B"):
        """values[n, q] of the 1D Lagrange basis function n at point q (layout of Interpolants.shape1d).  The interior functions are opaque
        symbols of the point; the two end functions are eliminated by the reproduction identities  sum_n B_n = 1,  sum_n B_n L_n = s
        (trusted), so that an interpolation of affinely placed nodes and the straight-line form a + s (b - a) have one normal form."""
        from optilint.expr import simplify
        p = self.nn1 - 1
        L = M.table(self.F.pe1, "coordinates").data
        cols = []
        for s_ in pts.data:
            key = repr(simplify(_A.norm(s_.a)))
            if name != "B":
                cols.append([Dual(_A.atom(f"{name}{n}[{key}]")) for n in range(self.nn1)])
                continue
            inner = {n: Dual(_A.atom(f"B{n}[{key}]")) for n in range(1, p)}
            last = s_ - sum((inner[n] * L[n] for n in inner), Dual(0))
            first = Dual(1) - last - sum(inner.values(), Dual(0))
            cols.append([first] + [inner[n] for n in range(1, p)] + [last])
        return Arr([cols[q][n] for n in range(self.nn1) for q in range(len(cols))], (self.nn1, pts.shape[0]))

    def edge_nodes(self, t, side):
        F = self.F
        return [F.node(t, k) for k in self.faces[side * self.nn1:(side + 1) * self.nn1]]

    def interp(self, field, pts, t, side):
        B = self.basis(pts)
        nodes = self.edge_nodes(t, side)
        nq = pts.shape[0]
        return Arr([sum((B.data[n * nq + q] * field.data[nodes[n] * 2 + c] for n in range(self.nn1)), Dual(0)) for q in range(nq) for c in range(2)], (nq, 2))

    def roles(self, t, side):
        F = self.F
        a, b = F.V[t][side], F.V[t][(side + 1) % 3]
        tx, ty = b[0] - a[0], b[1] - a[1]
        jac = d_fun("sqrt", tx * tx + ty * ty)
        normal = Arr([ty / jac, -tx / jac], (2,))
        return self.interp(self.U, self.s, t, side), self.interp(F.coords, self.s, t, side), normal, jac

    def integral(self, t, side, fname="f"):
        uq, xq, normal, jac = self.roles(t, side)
        tot = Dual(0)
        for q in range(self.s.shape[0]):
            tot = tot + opaque_value(fname, [rows_of(uq)[q], rows_of(xq)[q], normal]) * jac * self.wq.data[q]
        return tot


def g_edges(ctx):
    rule = "g/T5-edge-integration"
    ie = ctx.need(f"{FS}:integrate_function_on_edge")
    cases = [(1, 0), (0, 2), (1, 1)]
    for (t, side) in cases:
        cons = f"edge-integral[element={t},side={side}]"

        def go(t=t, side=side):
            E = EdgeFixture(ctx)
            log = []
            got = E.I.call(fn_value(E.I, f"{FS}:integrate_function_on_edge"), [E.fs, opaque_fn("f", log), E.U, E.rule1d, int_arr([t, side])], {})
            touch_visited(ctx, E.I, (FS, ME))
            mm = first_mismatch(got, E.integral(t, side))
            why = ""
            if mm is not None:
                # which role is off?  compare the arguments the kernel received at each point with the specification
                uq, xq, normal, jac = E.roles(t, side)
                if len(log) != E.s.shape[0]:
                    why = f"the integrand is evaluated {len(log)} times for {E.s.shape[0]} quadrature points"
                for q, call in enumerate(log[:E.s.shape[0]]):
                    if why or len(call) != 3:
                        break
                    for nm, g_, w_ in (("interpolated field u", call[0], rows_of(uq)[q]), ("interpolated coordinates X", call[1], rows_of(xq)[q]), ("normal", call[2], normal)):
                        try:
                            m2 = first_mismatch(g_, w_)
                        except ERRS:
                            m2 = None
                        if m2 is not None:
                            why = f"at quadrature point {q} the kernel receives as {nm}: {describe(m2, 'component')}"
                            break
                if not why:
                    why = "the kernel arguments agree with the specification, so the weights differ from (edge length) * w_q: " + describe(mm, "value")
            return (mm, why)
        r = evaluate(ctx, rule, ie, cons, go)
        if r is None:
            continue
        mm, why = r
        ctx.decide(rule, mm is None, ie, None, construct=cons,
                   detail="sum_q f(u(s_q), X(s_q), n) |t| w_q: field and coordinates interpolated with the same 1D shape functions at the rule's points over "
                          "conns[element, faceNodes[side]]; n = (t_y, -t_x)/|t|, t = edge vector",
                   bad_detail=f"integrate_function_on_edge on side {side} of element {t}: {why}; expected "
                              f"sum_q f(u_q, X_q, outward normal) * (edge length) * w_q with u_q, X_q interpolated at the rule's points on this edge")
    io = ctx.need(f"{FS}:interpolate_nodal_field_on_edge")

    def go2():
        E = EdgeFixture(ctx)
        pts = sym_arr("p", (3,))
        out = []
        for (t, side) in cases:
            got = E.I.call(fn_value(E.I, f"{FS}:interpolate_nodal_field_on_edge"), [E.fs, E.U, pts, int_arr([t, side])], {})
            out.append(first_mismatch(got, E.interp(E.U, pts, t, side)))
        return out
    r = evaluate(ctx, rule, io, "edge-interpolation-with-1d-parent-element", go2)
    if r is not None:
        bad = next((m for m in r if m is not None), None)
        ctx.decide(rule, bad is None, io, None, construct="edge-interpolation-with-1d-parent-element",
                   detail="shapes of parentElement1d at the given points, contracted with the nodal values on conns[element, faceNodes[side]]",
                   bad_detail=f"interpolate_nodal_field_on_edge: {describe(bad)}: not the 1D parent element's shape functions at the given points times the edge's nodal values")
    gn = ctx.need(f"{FS}:get_nodal_values_on_edge")

    def go3():
        E = EdgeFixture(ctx)
        out = []
        for (t, side) in cases:
            got = E.I.call(fn_value(E.I, f"{FS}:get_nodal_values_on_edge"), [E.fs, E.U, int_arr([t, side])], {})
            nodes = E.edge_nodes(t, side)
            want = Arr([E.U.data[nd * 2 + c] for nd in nodes for c in range(2)], (len(nodes), 2))
            out.append(first_mismatch(got, want))
        return out
    r = evaluate(ctx, rule, gn, "edge-nodes=conns[element, faceNodes[side]]", go3)
    if r is not None:
        bad = next((m for m in r if m is not None), None)
        ctx.decide(rule, bad is None, gn, None, construct="edge-nodes=conns[element, faceNodes[side]]", detail="edge = (element, local side)",
                   bad_detail=f"get_nodal_values_on_edge: {describe(bad)}: it does not gather field[conns[edge[0], faceNodes[edge[1]]]]")
    ies = ctx.need(f"{FS}:integrate_function_on_edges")

    def go4():
        E = EdgeFixture(ctx)
        edges = Arr([Dual(v) for c in cases for v in c], (len(cases), 2))
        got = E.I.call(fn_value(E.I, f"{FS}:integrate_function_on_edges"), [E.fs, opaque_fn("f"), E.U, E.rule1d, edges], {})
        want = Dual(0)
        for (t, side) in cases:
            want = want + E.integral(t, side)
        return (first_mismatch(got, want),)
    r = evaluate(ctx, rule, ies, "sum-over-edges", go4)
    if r is not None:
        ctx.decide(rule, r[0] is None, ies, None, construct="sum-over-edges", detail="sum of the per-edge integrals over the edge list",
                   bad_detail=f"integrate_function_on_edges: {describe(r[0])}: not the sum of the edge integrals over the listed edges")


def variants(repo):
    from optilint.selftest import Variant, sub, sub_in_func, alpha_rename, reformat
    F = "optimism/FunctionSpace.py"
    Q = "optimism/QuadratureRule.py"
    I = "optimism/Interpolants.py"
    Me = "optimism/Mesh.py"
    return [
        Variant("bubble face 2 listed forwards", "optimism/Interpolants.py", sub("    kk = onp.array([i for i in reversed(range(degree + 1, nNodesFromBase, 2))] + [0])", "    kk = onp.array([nNodesFromBase - 1] + [i for i in range(degree + 1, nNodesFromBase - 1, 2)] + [0])"), "c/T6-parent-element-tables"),
        Variant("bubble face 1 copied from plain element", "optimism/Interpolants.py", sub("    jj = onp.array([i for i in range(degree, 3*degree, 2)] + [nNodesFromBase - 1])", "    jj = onp.cumsum(onp.flip(ii)) + ii"), "c/T6-parent-element-tables"),
        Variant("plain face 2 not reversed", "optimism/Interpolants.py", sub("    kk = onp.flip(jj) - ii", "    kk = jj - onp.flip(ii)"), "c/T6-parent-element-tables"),
        Variant("vertex list misses the last node", "optimism/Interpolants.py", sub("    vertexPoints = np.array([0, degree, nPoints - 1], dtype=np.int32)", "    vertexPoints = np.array([0, degree, nPoints - 2], dtype=np.int32)"), "c/T6-parent-element-tables"),
        Variant("nodal x/y formulas exchanged", "optimism/Interpolants.py", sub("            points[point, 0] = (1.0 + 2.0*lobattoPoints[k] - lobattoPoints[j] - lobattoPoints[i])/3.0", "            points[point, 0] = (1.0 + 2.0*lobattoPoints[j] - lobattoPoints[k] - lobattoPoints[i])/3.0"), "c/T6-parent-element-tables"),
        Variant("alpha-rename bubble element", "optimism/Interpolants.py", alpha_rename("make_parent_element_2d_with_bubble"), None),
        Variant("drop 2pi", F, sub("    return 2*np.pi*Rs*vols", "    return np.pi*Rs*vols"), "b/T7-axisymmetric-weight"),
        Variant("radius from column 1", F, sub("    Rs = shapes@Xn[:,0]", "    Rs = shapes@Xn[:,1]"), "b/T7-axisymmetric-weight"),
        Variant("centroid radius", F, sub("    Rs = shapes@Xn[:,0]", "    Rs = np.mean(Xn[parentElement.vertexNodes,0])"), "b/T7-axisymmetric-weight"),
        Variant("solve(J, ...)", F, sub("solve(J.T, dN.T).T", "solve(J, dN.T).T"), "e/T9-axis-typing"),
        Variant("untransposed result", F, sub("solve(J.T, dN.T).T", "solve(J.T, dN.T)"), "e/T9-axis-typing"),
        Variant("volume jacobian of another map", F, sub("    jac = np.cross(v[1] - v[0], v[2] - v[0])", "    jac = np.cross(v[1] - v[0], v[0] - v[2])"), "c/T6-affine-map"),
        Variant("axisymmetric flag swapped", F, sub("        el_vols = compute_element_volumes_axisymmetric\n        isAxisymmetric = True", "        el_vols = compute_element_volumes_axisymmetric\n        isAxisymmetric = False"), "a/T14-dispatch"),
        Variant("element type without handler", I, sub("TRIANGLE_ELEMENT_WITH_BUBBLE = 2", "TRIANGLE_ELEMENT_WITH_BUBBLE = 2\nQUAD_ELEMENT = 3"), "a/T14-dispatch"),
        Variant("weight digit", Q, sub("w  = np.array([1.116907948390055E-01,\n                        1.116907948390055E-01,", "w  = np.array([1.116907948390055E-01,\n                        1.116917948390055E-01,"), "f/T7-quadrature-tables"),
        Variant("degree-5 rule used for degree 6", Q, sub("    elif degree <= 5:", "    elif degree <= 6:"), "f/T7-quadrature-tables"),
        Variant("1D rule one point short", Q, sub("    n = math.ceil((degree + 1)/2)", "    n = math.ceil(degree/2)"), "f/T7-quadrature-tables"),
        Variant("edge weights without jacobian", F, sub("    return np.dot(integrand, jac*quadRule.wgauss)", "    return np.dot(integrand, quadRule.wgauss)"), "g/T5-edge-integration"),
        Variant("edge vectors order", F, sub("    _, normal, jac = Mesh.compute_edge_vectors", "    normal, _, jac = Mesh.compute_edge_vectors"), "g/T5-edge-integration"),
        Variant("interior node convention", Me, sub("        A = np.column_stack((N0,N1,N2))", "        A = np.column_stack((N2,N0,N1))"), "c/T6-order-elevation"),
        Variant("flip one normal", "optimism/Surface.py", sub_in_func("compute_edge_vectors", "    normal = np.array([tangent[1], -tangent[0]])", "    normal = np.array([-tangent[1], tangent[0]])"), "d/T6-normal-siblings"),
        # --- further breaking edits
        Variant("block integration with the leading volumes", F, sub("functionSpace.vols[block].ravel()", "functionSpace.vols[:len(block)].ravel()"), "c/T6-affine-map"),
        Variant("bubble element evaluated with the plain basis", I, sub("        return shape2dBubble(parentElement, evaluationPoints)", "        return shape2d(parentElement.degree, parentElement.coordinates, evaluationPoints)"), "a/T14-dispatch"),
        Variant("edge coordinates interpolated at mirrored points", F, sub("    Xq = interpolate_nodal_field_on_edge(functionSpace, functionSpace.mesh.coords, quadRule.xigauss, edge)", "    Xq = interpolate_nodal_field_on_edge(functionSpace, functionSpace.mesh.coords, 1.0 - quadRule.xigauss, edge)"), "g/T5-edge-integration"),
        Variant("edge nodes of the wrong side", F, sub("    edgeNodes = functionSpace.mesh.parentElement.faceNodes[edge[1], :]", "    edgeNodes = functionSpace.mesh.parentElement.faceNodes[edge[0], :]"), "g/T5-edge-integration"),
        Variant("field gradient transposed", F, sub("    dg = np.tensordot(u, shapeGrad, axes=[0,0])", "    dg = np.tensordot(shapeGrad, u, axes=[0,0])"), "e/T9-axis-typing"),
        Variant("hoop strain from column 1", "optimism/Mechanics.py", sub("    dispGrad = dispGrad.at[2,2].set(disp[0]/coord[0])", "    dispGrad = dispGrad.at[2,2].set(disp[1]/coord[1])"), "b/T7-axisymmetric-weight"),
        Variant("1D rule on [-1, 1]", Q, sub("    xi, w = scipy.special.roots_sh_legendre(n)", "    xi, w = scipy.special.roots_legendre(n)"), "f/T7-quadrature-tables"),
        Variant("right-neighbour store unguarded", Me, sub("        if elemRight >= 0:", "        if True:"), "c/T6-order-elevation"),
        Variant("volumes of the first three nodes", F, sub_in_func("compute_element_volumes", "    v = Xn[parentElement.vertexNodes]", "    v = Xn[:3]"), "c/T6-affine-map"),
        Variant("gradients of the first three nodes", F, sub_in_func("map_element_shape_grads", "    v = Xn[parentElement.vertexNodes]", "    v = Xn[:3]"), "e/T9-axis-typing"),
        # --- further preserving edits (deeper restructurings)
        Variant("shapes by broadcasting", F, sub("    shapes = jax.vmap(lambda elConns, elShape: elShape, (0, None))(mesh.conns, shapeOnRef.values)", "    shapes = np.broadcast_to(shapeOnRef.values, (mesh.conns.shape[0],) + shapeOnRef.values.shape)"), None),
        Variant("radius by einsum", F, sub("    Rs = shapes@Xn[:,0]", "    Rs = np.einsum('qn,n->q', shapes, Xn[:,0])"), None),
        Variant("volume jacobian as a determinant", F, sub("    jac = np.cross(v[1] - v[0], v[2] - v[0])", "    jac = np.linalg.det(np.stack((v[0] - v[2], v[1] - v[2])))"), None),
        Variant("gradients by the inverse Jacobian", F, sub("    return jax.vmap(lambda dN: solve(J.T, dN.T).T)(shapeGradients)", "    return np.einsum('qna,ai->qni', shapeGradients, np.linalg.inv(J))"), None),
        Variant("1D point count by integer division", Q, sub("    n = math.ceil((degree + 1)/2)", "    n = degree//2 + 1"), None),
        Variant("mode dispatch by table", F, sub("    if mode2D == 'cartesian':\n        el_vols = compute_element_volumes\n        isAxisymmetric = False\n    elif mode2D == 'axisymmetric':\n        el_vols = compute_element_volumes_axisymmetric\n        isAxisymmetric = True\n",
                                                 "    el_vols, isAxisymmetric = {'axisymmetric': (compute_element_volumes_axisymmetric, True), 'cartesian': (compute_element_volumes, False)}[mode2D]\n"), None),
        Variant("edge weights factored", F, sub("    return np.dot(integrand, jac*quadRule.wgauss)", "    return jac*np.sum(integrand*quadRule.wgauss)"), None),
        Variant("straight-edge coordinates", F, sub("    Xq = interpolate_nodal_field_on_edge(functionSpace, functionSpace.mesh.coords, quadRule.xigauss, edge)\n    edgeCoords = Mesh.get_edge_coords(functionSpace.mesh, edge)",
                                                   "    edgeCoords = Mesh.get_edge_coords(functionSpace.mesh, edge)\n    Xq = edgeCoords[0] + np.outer(quadRule.xigauss, edgeCoords[-1] - edgeCoords[0])"), None),
        Variant("dispatch by dictionary", I, sub("    if parentElement.elementType == LINE_ELEMENT:\n        return shape1d(parentElement.degree, parentElement.coordinates, evaluationPoints)\n    elif parentElement.elementType == TRIANGLE_ELEMENT:\n        return shape2d(parentElement.degree, parentElement.coordinates, evaluationPoints)\n    elif",
                                                 "    table = {LINE_ELEMENT: shape1d, TRIANGLE_ELEMENT: shape2d}\n    if parentElement.elementType in table:\n        return table[parentElement.elementType](parentElement.degree, parentElement.coordinates, evaluationPoints)\n    if"), None),
        # --- sibling factories of quadrature rules (padded / fixed-size 1D rule): nodes and weights are checked as pairs, through the moments
        Variant("padded 3-point table: nodes in another order than the weights", Q, sub("    xi = np.array([-0.7745966692414834,  0.                ,  0.7745966692414834,", "    xi = np.array([-0.7745966692414834,  0.7745966692414834,  0.                ,"), "f/T7-quadrature-tables"),
        Variant("padded 4-point table: inner and outer weights exchanged", Q, sub("    w  = np.array([ 0.3478548451374537 ,  0.6521451548625462 ,  0.6521451548625462 ,\n                    0.3478548451374537,   0.])", "    w  = np.array([ 0.6521451548625462 ,  0.3478548451374537 ,  0.3478548451374537 ,\n                    0.6521451548625462,   0.])"), "f/T7-quadrature-tables"),
        Variant("padded rule: branch list in another order", Q, sub("                  [_gauss_quad_1D_1pt, _gauss_quad_1D_2pt, _gauss_quad_1D_3pt,", "                  [_gauss_quad_1D_3pt, _gauss_quad_1D_2pt, _gauss_quad_1D_1pt,"), "f/T7-quadrature-tables"),
        Variant("padded rule: weights of the bi-unit interval kept", Q, sub("    return QuadratureRule(0.5*(xi + 1.0), 0.5*w)", "    return QuadratureRule(0.5*(xi + 1.0), w)"), "f/T7-quadrature-tables"),
        Variant("padded rule: points of the bi-unit interval kept", Q, sub("    return QuadratureRule(0.5*(xi + 1.0), 0.5*w)", "    return QuadratureRule(xi, 0.5*w)"), "f/T7-quadrature-tables"),
        Variant("padded rule: table selected two points short", Q, sub("    npts = np.ceil((degree + 1)/2).astype(int)", "    npts = np.ceil((degree - 3)/2).astype(int)"), "f/T7-quadrature-tables"),
        Variant("padded 3-point table: nodes and weights permuted together", Q, sub("    xi = np.array([-0.7745966692414834,  0.                ,  0.7745966692414834,\n                    0.,                  0.])\n    w  = np.array([ 0.5555555555555557,  0.8888888888888888,  0.5555555555555557,",
                                                                                     "    xi = np.array([-0.7745966692414834,  0.7745966692414834,  0.                ,\n                    0.,                  0.])\n    w  = np.array([ 0.5555555555555557,  0.5555555555555557,  0.8888888888888888,"), None),
        Variant("padded rule: point count by floor", Q, sub("    npts = np.ceil((degree + 1)/2).astype(int)", "    npts = np.floor(degree/2).astype(int) + 1"), None),
        Variant("padded rule: tables returned by one helper, mapped before the selection", Q, sub("    xi,w = switch(npts,\n                  [_gauss_quad_1D_1pt, _gauss_quad_1D_2pt, _gauss_quad_1D_3pt,\n                   _gauss_quad_1D_4pt, _gauss_quad_1D_5pt],\n                  None)\n    return QuadratureRule(0.5*(xi + 1.0), 0.5*w)",
                                                                                                    "    def on_unit_interval(table):\n        def branch(_):\n            x, wt = table(None)\n            return 0.5*x + 0.5, wt/2\n        return branch\n    tables = (_gauss_quad_1D_1pt, _gauss_quad_1D_2pt, _gauss_quad_1D_3pt, _gauss_quad_1D_4pt, _gauss_quad_1D_5pt)\n    xi, w = switch(npts, [on_unit_interval(t) for t in tables], None)\n    return QuadratureRule(xigauss=xi, wgauss=w)"), None),
        Variant("reformat FunctionSpace", F, reformat(), None),
        Variant("reformat QuadratureRule", Q, reformat(), None),
    ]
