"""Derivative rules of the spectral matrix functions, decided on interpreted values (C12 O3/T5 + O3/T7, shared with C10 W1).

Nothing here looks at the text of a statement, at parameter names or at parameter positions.  For every custom_jvp function

  registration   the registered rule is a *value*: the function under `@f.defjvp`, or whatever the argument of a module level
                 `f.defjvp(<expr>)` evaluates to (a named function, a lambda, a closure made by a factory, a functools.partial);
  primal         the decorated function is interpreted with the eigen solver replaced by (lam, V): with V = I the result is diag(y) and
                 y_i is the value of the primal's scalar function at l_i; with a generic V the result must be V diag(y) V^T;
  rule           the rule is interpreted on symbolic (primals, tangents) with the decorated function replaced by a recording stand-in:
                 the first component of the result must be the value of decorated_function(*primals);
  tangent helper found dynamically: while the rule runs, the eigen solver stand-in looks at the stack of repository functions being
                 interpreted; the helper is the outermost function between the rule and the eigen decomposition whose arguments (through
                 tuples / NamedTuples / dictionaries / keywords) carry one callable of one argument (the scalar function) and one callable of
                 two arguments (the relative difference).  These roles are found by calling the callables, not by position or name;
  agreement      the scalar function of the rule, applied to l_i, must be y_i (exact; a difference at sample points refutes, equality only
                 at sample points is undecided);
  data flow      the helper is interpreted on the arguments the rule really passes, with the matrix primal / its tangent replaced by
                 generic matrices C / Cdot and the two callables by x^3 and its exact divided difference: the eigen decomposition must be
                 taken of C and the result must be the Daleckii-Krein form in Cdot (distinct, double and triple eigenvalues);
  divided        the two-argument callable handed to the helper must be the divided difference of the one-argument callable:
  difference     rd(a, b) (a - b) == f(a) - f(b) on symbols, derived by polynomial / square-root algebra or by the exp-log normal form of
                 rules/C12_explog.py (exp, expm1, log, log1p, real powers, sinh / cosh, both orders of every min / max pair): PROVED;
                 both sides fully modelled (floor, ceil, ... included) and different at a sample point: REFUTED; else a note.
"""
from __future__ import annotations

import ast
import math
from fractions import Fraction

from optilint.model import FuncVal, ExtVal
from optilint.core import Incomplete
from optilint.expr import Rat, Poly
from optilint.tensoreval import Dual, Arr, PyFunc, Closure, Ext, Unknown, EvalError, Raised, matmul, _A, rat_is_zero
from optilint.tensoreval import Deriv
from . import tensorid
from .C12_sym import SymInterp, tree_flatten, is_callable_value, callable_scope
from .C12_eigen import pair_maker

TM = "optimism.TensorMath"
NONUNIT = f"{TM}:eigen_sym33_non_unit"
UNIT = f"{TM}:eigen_sym33_unit"
L = ("l0", "l1", "l2")
P_ATOMS = {f"p{i}{j}" for i in range(3) for j in range(3)}      # generic matrix primal C
C_ATOMS = {f"c{i}{j}" for i in range(3) for j in range(3)}      # generic tangent Cdot
_ERR = (EvalError, Raised, KeyError, IndexError, TypeError, ZeroDivisionError, AttributeError, ValueError, RecursionError, OverflowError)
UNARY_NP = {"exp", "expm1", "log", "log1p", "sqrt", "square", "abs", "absolute", "sin", "cos", "tan", "tanh", "sinh", "cosh", "reciprocal",
            "negative", "cbrt", "exp2", "log2", "log10"}


def _atoms(prefix, n):
    return [Dual(_A.atom(f"{prefix}{i}")) for i in range(n)]


def same(x, y):
    """two interpreter values are the same exact value"""
    if isinstance(x, Dual) and isinstance(y, Dual):
        return _A.equal(x.a, y.a) and _A.equal(x.b, y.b)
    if isinstance(x, Arr) and isinstance(y, Arr):
        return x.shape == y.shape and all(same(a, b) for a, b in zip(x.data, y.data))
    if isinstance(x, (tuple, list)) and isinstance(y, (tuple, list)):
        return len(x) == len(y) and all(same(a, b) for a, b in zip(x, y))
    num = (int, float, Fraction)
    if (isinstance(x, num) and isinstance(y, num + (Dual,)) or isinstance(y, num) and isinstance(x, Dual)) \
            and not isinstance(x, bool) and not isinstance(y, bool):
        try:
            return same(Dual.of(x), Dual.of(y))
        except EvalError:
            return False
    return x is y


# ------------------------------------------------------------------------------------------------ registrations

def custom_jvp_named(ctx, mname):
    """(module, [(public name, scope of the decorated function)]): `@custom_jvp def f` and `f = custom_jvp(g)`"""
    m = ctx.need_module(mname)
    out, seen = [], set()

    def is_cj(expr):
        return any(isinstance(v, ExtVal) and v.name.endswith("custom_jvp") for v in ctx.repo.resolve(expr, m.scope))
    for c in m.scope.children:
        if c.kind == "function" and any(is_cj(d.func if isinstance(d, ast.Call) else d) for d in c.node.decorator_list):
            out.append((c.name, c))
            seen.add(c.qualname)
    for st in m.tree.body:
        if isinstance(st, ast.Assign) and len(st.targets) == 1 and isinstance(st.targets[0], ast.Name) and isinstance(st.value, ast.Call) \
                and st.value.args and is_cj(st.value.func):
            for v in ctx.repo.resolve(st.value.args[0], m.scope):
                if isinstance(v, FuncVal) and v.scope.qualname not in seen:
                    out.append((st.targets[0].id, v.scope))
                    seen.add(v.scope.qualname)
    return m, out


def rule_values(I, m):
    """(qualified name of a custom_jvp function -> callable value of its registered rule, number of registrations that could not be read).
    `@f.defjvp` above a function, and every module level statement that mentions `.defjvp` (a call, a loop over a table of pairs, ...)
    is interpreted; the interpreter records (decorated function, rule) at each call of `.defjvp`."""
    rules, loose = {}, 0
    env = I.module_env(m)
    for c in m.scope.children:
        if c.kind == "function":
            for d in c.node.decorator_list:
                if isinstance(d, ast.Attribute) and d.attr == "defjvp":
                    try:
                        base = I.eval(d.value, env)
                        if isinstance(base, Closure):
                            rules[base.scope.qualname] = I.module_value(m, c.name)
                        else:
                            loose += 1
                    except _ERR:
                        loose += 1
                elif any(isinstance(n_, ast.Attribute) and n_.attr in ("defjvp", "defjvps", "defvjp") for n_ in ast.walk(d)):
                    loose += 1
    for st in m.tree.body:
        if isinstance(st, (ast.FunctionDef, ast.ClassDef, ast.AsyncFunctionDef)):
            continue
        uses = [n_ for n_ in ast.walk(st) if isinstance(n_, ast.Attribute) and n_.attr in ("defjvp", "defjvps", "defvjp")]
        if not uses:
            continue
        before = len(I.registrations)
        try:
            I.tolerant = False
            I.stmt(st, env)
        except _ERR:
            loose += 1
        finally:
            I.tolerant = True
        new = I.registrations[before:]
        if not new:
            loose += 1
        for base, rv in new:
            if isinstance(base, Closure) and is_callable_value(rv):
                rules[base.scope.qualname] = rv
            else:
                loose += 1
    # registrations inside functions / classes are not executed by this module
    for c in m.scope.children:
        if c.kind in ("function", "class"):
            body_uses = [n_ for st in c.node.body for n_ in ast.walk(st) if isinstance(n_, ast.Attribute) and n_.attr in ("defjvp", "defjvps", "defvjp")]
            loose += len(body_uses)
    return rules, loose


# ------------------------------------------------------------------------------------------------ per function analysis

class _Found(Exception):
    """raised by the eigen solver stand-in of pass A once the stack has been recorded"""


class JvpFunction:
    def __init__(self, name, scope, mname):
        self.name, self.scope, self.mname = name, scope, mname
        self.rule = self.rule_why = None
        self.I = None
        self.primals = self.tangents = ()
        self.spectral = False
        self.primal_error = None
        self.fp = None                 # values of the primal's scalar function at l0, l1, l2
        self.fp_why = ""
        self.slot = None               # index of the primal that is decomposed
        self.okp, self.rule_error = None, None
        self.helper = None             # scope of the tangent helper
        self.h_args, self.h_kwargs = None, None
        self.ft = self.rd = None
        self.dfs, self.df_ok, self.df_why = [], True, ""     # derivative(s) of the scalar function handed over next to it, and their agreement with d ft
        self.roles_why = ""
        self.same_f, self.shown = None, ""
        self.args_ok, self.args_why = None, ""
        self.rule_eig = []

    @property
    def where(self):
        return callable_scope(self.rule) or self.scope


def _lam():
    return Arr([Dual(_A.atom(n)) for n in L], (3,))


def _identity():
    return Arr([Dual(1 if i == j else 0) for i in range(3) for j in range(3)], (3, 3))


def arity(I, g):
    """1: callable with one scalar, 2: with two scalars (tried by interpretation), None: neither"""
    if isinstance(g, Ext):
        return 1 if g.name.split(".")[-1] in UNARY_NP else None
    u, w = Dual(_A.atom("@u")), Dual(_A.atom("@w"))
    I.positive.update({"@u", "@w"})
    for k, args in ((1, [u]), (2, [u, w])):
        try:
            v = I.num(I.call(g, list(args), {}))
            if isinstance(v, Dual):
                return k
        except _ERR:
            continue
    return None


def _sample_points(I, rats, base):
    """numeric points: the given values for the listed atoms, fixed generic numbers for every other free symbol"""
    free = set()
    for r in rats:
        atoms, _ = I.reach([r])
        free |= {a for a in atoms if a not in I.fn and a not in I.sel and a not in I.let and a not in _A.rules}
    pts = []
    for k, b in enumerate(base):
        pt = dict(b)
        for j, a in enumerate(sorted(free)):
            pt.setdefault(a, [1.7, 0.6, 2.3][(j + k) % 3])
        pts.append(pt)
    return pts


def values_agree(I, xs, ys, base):
    """True: exactly equal; False: different at a sample point; None: equal at the sample points only / not evaluable; + text"""
    if all(same(x, y) for x, y in zip(xs, ys)):
        return True, ""
    try:
        rats = [v.a for v in list(xs) + list(ys)]
        for pt in _sample_points(I, rats, base):
            for x, y in zip(xs, ys):
                vx, vy = I.numeric(x.a, pt), I.numeric(y.a, pt)
                if vx != vx or vy != vy:
                    return None, "not evaluable at a sample point"
                if abs(vx - vy) > 1e-9 * max(1.0, abs(vx), abs(vy)):
                    return False, f"{vx:.9g} against {vy:.9g} at a sample point"
    except (KeyError, ZeroDivisionError, OverflowError, ValueError, TypeError):
        return None, "not evaluable at a sample point"
    return None, "equal at sample points, not proved equal"


def split_roles(I, fns, who="the helper", fp=None):
    """The roles of the callables handed to a tangent helper, by interpretation: exactly one callable of two scalars (the relative
    difference) and one callable of one scalar (the scalar function).  Further callables of one scalar are accepted when they are handed
    over as the DERIVATIVE of the scalar function (an optional `dfunc=jax.jacfwd(f)`, a hand-written f'): each is compared with the forward
    derivative of the scalar function on a symbol.
    -> (scalar function, relative difference, [derivatives], agreement True / None / False, text)   or a text saying what was found"""
    kinds = [(v, arity(I, v)) for v in fns]
    un, bi = [v for v, n_ in kinds if n_ == 1], [v for v, n_ in kinds if n_ == 2]
    if len(un) == 1 and len(bi) == 1:
        return (un[0], bi[0], [], True, "")
    text = f"{who} receives {len(un)} callable(s) of one argument and {len(bi)} of two (one of each expected: scalar function and relative difference)"
    if len(bi) != 1 or len(un) < 2 or len(un) > 3:
        return text
    u = Dual(_A.atom("@u"))
    I.positive.add("@u")

    def against(f, others):
        """agreement of every g in others with d f / d u: True (exact) / None (sample points only, not evaluable) / False (+ text)"""
        try:
            df = I.num(I.call(Deriv(f, 0), [u], {}))
            if not isinstance(df, Dual):
                return None, "the derivative of the scalar function is not a scalar"
            worst, why = True, ""
            for g in others:
                gv = I.num(I.call(g, [u], {}))
                if not isinstance(gv, Dual) or not rat_is_zero(gv.b) or not rat_is_zero(df.b):
                    return None, "the derivative handed over does not return a plain scalar"
                ok, w = values_agree(I, [df], [gv], [{"@u": 0.7}, {"@u": 1.9}])
                if ok is False:
                    return False, f"d f/d u = {df.a!r} against {gv.a!r}: {w}"
                if ok is None:
                    worst, why = None, f"derivative handed over against d f/d u: {w}"
            return worst, why
        except _ERR as ex:
            return None, f"cannot differentiate the scalar function on a symbol: {ex}"
    plain = [v for v in un if not isinstance(v, Deriv)]
    if len(plain) == 1:
        # the others are jax.grad / jacfwd / jacrev objects: derivatives by construction, the only question is of what
        ders = [v for v in un if v is not plain[0]]
        ok, why = against(plain[0], ders)
        return (plain[0], bi[0], ders, ok, why)
    fits = []
    for f in un:
        others = [g for g in un if g is not f]
        ok, why = against(f, others)
        if ok is not False:
            fits.append((f, others, ok, why))
    if len(fits) == 1:
        f, others, ok, why = fits[0]
        return (f, bi[0], others, ok, why)
    if len(fits) == len(un) and all(ok is True for _f, _o, ok, _w in fits):
        # every one is exactly the derivative of every other one: if they are all the same function (exp), the roles are interchangeable
        try:
            vals = [I.num(I.call(f, [u], {})) for f in un]
            if all(isinstance(v, Dual) and same(v, vals[0]) for v in vals):
                f, others, ok, why = fits[0]
                return (f, bi[0], others, ok, why)
        except _ERR:
            pass
    if not fits and fp is not None:
        # none is the derivative of another: the scalar function is the one that IS the scalar function of the primal (exactly), the others
        # are handed over next to it and are not its derivative (what the helper does with them is read by the caller before anything is said)
        try:
            lam = [Dual(_A.atom(n_)) for n_ in L]
            is_fp = [f for f in un if all(same(I.num(I.call(f, [x], {})), y) for x, y in zip(lam, fp))]
            if len(is_fp) == 1:
                others = [g for g in un if g is not is_fp[0]]
                ok, why = against(is_fp[0], others)
                if ok is False:
                    return (is_fp[0], bi[0], others, False, why)
        except _ERR:
            pass
    return text + ("; none of them is the derivative of another" if not fits else "; which one is the scalar function is ambiguous")


def analyse(ctx, name, fscope, mname, rule, rule_why) -> JvpFunction:
    jf = JvpFunction(name, fscope, mname)
    jf.rule, jf.rule_why = rule, rule_why
    I = jf.I = SymInterp(ctx.repo, positive=set(L))
    I.generic = set(L)
    n_par = len(fscope.params())
    Vg = tensorid.generic("v")
    # ---- the primal: scalar function applied to the eigenvalues, read off the value
    eig_args, state = [], {"V": _identity()}

    make = pair_maker(ctx, UNIT)           # the stand-ins return the kind of pair the solver returns (tuple, list, NamedTuple)

    def eig(it, args, kw):
        eig_args.append(list(args) + list(kw.values()))
        return make(_lam(), state["V"])
    I.special[UNIT] = I.special[NONUNIT] = eig
    # symbolic arguments: a spectral function takes a matrix (tried first: generic 3x3 matrix in the first slot), anything else scalars
    out1 = None
    for matrix_first in (True, False):
        primals = tuple(_atoms(f"{name}_p", n_par))
        tangents = tuple(_atoms(f"{name}_d", n_par))
        if matrix_first and n_par:
            primals = (tensorid.generic(f"{name}_P"),) + primals[1:]
            tangents = (tensorid.generic(f"{name}_D"),) + tangents[1:]
        del eig_args[:]
        jf.primal_error = None
        try:
            out1 = I.run(fscope, list(primals))
        except _ERR as ex:
            jf.primal_error = str(ex)
        if eig_args and jf.primal_error is None:
            break
    jf.primals, jf.tangents = primals, tangents
    jf.spectral = bool(eig_args)
    if jf.spectral and jf.primal_error is None:
        def atoms_of(v):
            leaves, _ = tree_flatten(v)
            out = set()
            for x in leaves:
                for d_ in (x.data if isinstance(x, Arr) else [x]):
                    if isinstance(d_, Dual):
                        out |= I.reach([d_.a])[0]
            return out
        used = set()
        for c in eig_args:
            used |= atoms_of(tuple(c))
        slots = [k for k, p_ in enumerate(primals) if atoms_of(p_) & used]
        jf.slot = slots[0] if len(slots) == 1 else None
        diag = isinstance(out1, Arr) and out1.shape == (3, 3) and all(isinstance(x, Dual) for x in out1.data) \
            and all(x.is_zero() for k, x in enumerate(out1.data) if k % 4)
        if not diag:
            jf.fp_why = "with the eigenvectors replaced by the identity the primal is not a diagonal matrix of functions of the eigenvalues"
        else:
            y = [out1.data[0], out1.data[4], out1.data[8]]
            state["V"] = Vg
            try:
                out2 = I.run(fscope, list(primals))
                d_ = Arr([y[i] if i == j else Dual(0) for i in range(3) for j in range(3)], (3, 3))
                if same(out2, matmul(matmul(Vg, d_), Vg.T())):
                    jf.fp = y
                else:
                    jf.fp_why = "the primal is not V diag(y) V^T of the eigen decomposition of its argument"
            except _ERR as ex:
                jf.fp_why = f"the primal cannot be interpreted with generic eigenvectors: {ex}"
    state["V"] = Vg
    if rule is None:
        return jf
    # ---- pass A: which repository functions are being interpreted when the eigen decomposition is taken
    prim_calls, calls, frames = [], [], []

    def primal_standin(it, a, k):
        ps = fscope.params()
        vals = list(a) + [None] * max(0, len(ps) - len(a))
        for kk, v in k.items():
            if kk in ps:
                vals[ps.index(kk)] = v
        prim_calls.append(vals)
        return Dual(_A.atom(f"{name}_out"))
    I.special[fscope.qualname] = primal_standin

    def hook(it, f, a, k):
        calls.append((len(it.stack), f, list(a), dict(k)))

    rq = callable_scope(rule).qualname if callable_scope(rule) is not None else None
    memo = {}

    def roles(f, a, k):
        """(scalar function, relative difference) among the leaves of the arguments of a call, when there is exactly one callable of one
        scalar and one of two; else a text saying what was found"""
        key = id(a)
        if key not in memo:
            leaves, _ = tree_flatten((tuple(a), dict(k)))
            fns = [v for v in leaves if is_callable_value(v)]
            if len(fns) < 2:
                memo[key] = f"{f.scope.name} receives {len(fns)} callable(s)"
            else:
                hook_, I.call_hook = I.call_hook, None
                try:
                    memo[key] = split_roles(I, fns, f.scope.name, jf.fp)
                finally:
                    I.call_hook = hook_
        return memo[key]

    def eig_a(it, args, kw):
        snap = []
        for d, q in enumerate(it.stack):
            for (dd, f, a, k) in reversed(calls):
                if dd == d and f.scope.qualname == q:
                    snap.append((f, a, k))
                    break
        frames.append(snap)
        if any(f.scope.qualname != rq and isinstance(roles(f, a, k), tuple) for (f, a, k) in snap):
            raise _Found()           # taken inside the helper: the stack is all pass A needs, the rest is not interpreted here
        return make(_lam(), Vg)      # taken by the rule / a wrapper: the helper is one of the functions called afterwards
    if jf.spectral:
        I.call_hook = hook
        I.special[UNIT] = I.special[NONUNIT] = eig_a
        try:
            I.call(rule, [primals, tangents], {})
        except (_Found,) + _ERR:
            pass
        I.call_hook = None
        I.special[UNIT] = I.special[NONUNIT] = eig
        # candidates: the functions on the stack when the decomposition was taken (outermost first), then every other repository function
        # that ran during the rule (in call order)
        cands = []
        for (f, a, k) in [x for snap in frames for x in snap] + [(f, a, k) for (_d, f, a, k) in calls]:
            q_ = f.scope.qualname
            if q_ not in (rq, fscope.qualname, UNIT, NONUNIT) and f.scope.kind != "lambda" and q_ not in [c[0].scope.qualname for c in cands]:
                cands.append((f, a, k))
        why = "no repository function that takes part in the tangent computation was found" if not cands else ""
        for (f, a, k) in cands:
            r_ = roles(f, a, k)
            if isinstance(r_, tuple):
                jf.helper, jf.h_args, jf.h_kwargs, jf.ft, jf.rd = f.scope, a, k, r_[0], r_[1]
                break
            why = why or r_
        if jf.helper is None:
            jf.roles_why = why
    # ---- pass B: the rule with the helper replaced by a recording stand-in
    helper_calls = []
    if jf.helper is not None:
        I.special[jf.helper.qualname] = lambda it, a, k: (helper_calls.append((list(a), dict(k))), Dual(_A.atom("tangent_out")))[1]
    del eig_args[:]
    out = None
    try:
        out = I.call(rule, [primals, tangents], {})
    except _ERR as ex:
        jf.rule_error = str(ex)
    if jf.helper is not None:
        del I.special[jf.helper.qualname]
    jf.rule_eig = [list(c) for c in eig_args]          # eigen decompositions taken by the rule outside the helper
    if jf.rule_error is None:
        try:
            pair = I.iterate(out)
        except EvalError:
            pair = []
        if len(pair) != 2 or isinstance(pair[0], Unknown) or pair[0] is None:
            jf.rule_error = "the rule does not return a readable pair (primal output, tangent output)"
        else:
            # the value of the first component must be the value the decorated function returned for the primals
            jf.okp = isinstance(pair[0], Dual) and _A.equal(pair[0].a, _A.atom(f"{name}_out")) and rat_is_zero(pair[0].b) \
                and any(same(tuple(c), primals) for c in prim_calls)
    if jf.helper is not None and jf.rule_error is None:
        # the function found must be THE tangent helper: what it returns is the tangent output of the rule
        t_out = pair[1] if len(pair) == 2 else None
        if not (isinstance(t_out, Dual) and _A.equal(t_out.a, _A.atom("tangent_out")) and rat_is_zero(t_out.b)):
            jf.roles_why = f"{jf.helper.name} receives the scalar function and the relative difference, but its result is not the tangent output of the rule"
            jf.helper = jf.ft = jf.rd = None
            helper_calls = []
    if helper_calls:
        jf.h_args, jf.h_kwargs = helper_calls[0]
        if len(helper_calls) != 1:
            jf.roles_why = f"the rule calls the tangent helper {len(helper_calls)} times"
            jf.ft = jf.rd = None
        else:
            # the same roles on the call that pass B recorded (the leaves are the same objects when the rule is deterministic)
            leaves, _ = tree_flatten((tuple(jf.h_args), dict(jf.h_kwargs)))
            r_ = split_roles(I, [v for v in leaves if is_callable_value(v)], fp=jf.fp)
            if isinstance(r_, tuple):
                jf.ft, jf.rd, jf.dfs, jf.df_ok, jf.df_why = r_
            else:
                jf.ft = jf.rd = None
                jf.roles_why = "the callables handed to the tangent helper could not be told apart"
    # ---- agreement of the scalar functions
    if jf.ft is not None and jf.fp is not None:
        try:
            vt = [I.num(I.call(jf.ft, [Dual(_A.atom(n))], {})) for n in L]
            if not all(isinstance(v, Dual) for v in vt):
                raise EvalError("the scalar function of the rule does not return a scalar")
            base = [{"l0": 0.7, "l1": 1.9, "l2": 3.1}, {"l0": 2.4, "l1": 0.35, "l2": 1.2}]
            jf.same_f, why = values_agree(I, jf.fp, vt, base)
            jf.shown = f"primal applies l0 -> {jf.fp[0].a!r}, tangent rule differentiates l0 -> {vt[0].a!r}" + (f" ({why})" if why else "")
        except _ERR as ex:
            jf.same_f, jf.shown = None, f"cannot apply the scalar function of the rule to a symbol: {ex}"
    # ---- data flow into the helper
    if jf.helper is not None and jf.ft is not None and jf.slot is not None:
        try:
            out_h, eig_h, _I2 = run_helper(ctx, jf, L)
            C, Cd = tensorid.generic("p"), tensorid.generic("c")
            if not eig_h and jf.rule_eig:
                # the decomposition is taken by the rule and handed to the helper: the same reading on the symbols of the rule
                C, Cd, eig_h = jf.primals[jf.slot], jf.tangents[jf.slot], jf.rule_eig
            symC = C.zip(C.T(), lambda x, y: (x + y) * Dual(Fraction(1, 2))) if isinstance(C, Arr) and C.ndim == 2 else C
            arg = eig_h[0][0] if len(eig_h) >= 1 and eig_h[0] else None
            if len(eig_h) != 1 or not isinstance(arg, Arr):
                jf.args_ok, jf.args_why = None, f"the helper takes {len(eig_h)} eigen decompositions"
            elif not (same(arg, C) or same(arg, symC)):
                own = P_ATOMS if C is not jf.primals[jf.slot] else {a for x in C.data for a in x.a.atoms()}
                wrong = same(arg, Cd) or (isinstance(arg, Arr) and all(isinstance(x, Dual) for x in arg.data)
                                          and not any(a in own for x in arg.data for a in x.a.atoms()))
                jf.args_ok = False if wrong else None
                jf.args_why = "the tangent helper takes the eigen decomposition of something that is not the matrix primal" + \
                    (" (of the tangent)" if same(arg, Cd) else "")
            elif not (isinstance(out_h, Arr) and out_h.shape == (3, 3) and all(isinstance(x, Dual) for x in out_h.data)):
                jf.args_ok, jf.args_why = None, "the helper does not return a 3x3 tensor"
            else:
                atoms = set()
                for x in out_h.data:
                    atoms |= _I2.reach([x.a])[0]
                has_c, has_p = bool(atoms & C_ATOMS), bool(atoms & P_ATOMS)
                if has_c and not has_p:
                    jf.args_ok = True
                elif has_p and not has_c:
                    jf.args_ok, jf.args_why = False, "the tangent is computed from the matrix primal, not from its tangent"
                else:
                    jf.args_ok, jf.args_why = None, "the result of the helper does not depend on the tangent alone"
        except _ERR as ex:
            jf.args_ok, jf.args_why = None, f"cannot interpret the helper on the arguments of the rule: {ex}"
    return jf


def _cube():
    return PyFunc("cube", lambda it, a, k: (lambda x: x * x * x)(it.num(a[0])))


def _dd():
    return PyFunc("dd", lambda it, a, k: (lambda x, y: x * x + x * y + y * y)(it.num(a[0]), it.num(a[1])))


def run_helper(ctx, jf, names, df_standin=None):
    """the tangent helper interpreted on the arguments the rule of `jf` passes to it, with the roles replaced by generic data:
    matrix primal -> C (atoms p[..]), its tangent -> Cdot (atoms c[..]), scalar function -> x^3, relative difference -> x^2+xy+y^2;
    the eigen solver returns (names as eigenvalues, generic V).  -> (result, arguments of the eigen solver calls, interpreter)"""
    V, Cd, C = tensorid.generic("v"), tensorid.generic("c"), tensorid.generic("p")
    lam = [Dual(_A.atom(n)) for n in names]
    I2 = SymInterp(ctx.repo)
    I2.generic = set(L)
    eig_calls = []

    make = pair_maker(ctx, UNIT)

    def eig(it, args, kw):
        eig_calls.append(list(args) + list(kw.values()))
        return make(Arr(list(lam), (3,)), V)
    I2.special[UNIT] = I2.special[NONUNIT] = eig
    leaves, rebuild = tree_flatten((tuple(jf.h_args), dict(jf.h_kwargs)))
    new = []
    for v in leaves:
        if v is jf.ft:
            new.append(_cube())
        elif v is jf.rd:
            new.append(_dd())
        elif any(v is d_ for d_ in jf.dfs):
            new.append(df_standin or Deriv(_cube(), 0))             # handed over as the derivative of the scalar function: the derivative of the stand-in
        elif jf.slot is not None and same(v, jf.primals[jf.slot]):
            new.append(C)
        elif jf.slot is not None and same(v, jf.tangents[jf.slot]):
            new.append(Cd)
        elif same(v, _lam()):
            new.append(Arr(list(lam), (3,)))          # eigenvalues computed by the rule and handed over
        elif isinstance(v, Dual) and any(same(v, Dual(_A.atom(n_))) for n_ in L):
            new.append(lam[[k_ for k_, n_ in enumerate(L) if same(v, Dual(_A.atom(n_)))][0]])
        else:
            new.append(v)
    a, k = rebuild(new)
    out = I2.run(jf.helper, list(a), dict(k))
    return out, eig_calls, I2


def helper_uses_derivative(ctx, jf):
    """True when the callable the helper receives next to the scalar function is used by it AS the derivative of the scalar function: the
    tangent depends on it (interpreted with a marked stand-in in its place) and, with f = x^3 and 3x^2 in its place, the helper returns the
    Daleckii-Krein form for distinct eigenvalues (so anything but f' in that place gives a wrong tangent); None when that cannot be read"""
    mark = PyFunc("dmark", lambda it, a, k: it.num(a[0]) * Dual(_A.atom("@dmark")))
    try:
        out, _eig, I2 = run_helper(ctx, jf, L)
        want = _expected([Dual(_A.atom(n_)) for n_ in L], tensorid.generic("v"), tensorid.generic("c"))
        if not (isinstance(out, Arr) and out.shape == (3, 3) and all(isinstance(x, Dual) for x in out.data)):
            return None
        got = [x.a for x in out.data]
        if I2.sel_log:
            got = [I2.specialise(g_, {"l0": 0.7, "l1": 1.9, "l2": 3.1}) for g_ in got]
        if not all(_A.equal(g_, w_.a) for g_, w_ in zip(got, want.data)):
            return None
        out, _eig, I2 = run_helper(ctx, jf, L, df_standin=mark)
        if not (isinstance(out, Arr) and all(isinstance(x, Dual) for x in out.data)):
            return None
        atoms = set()
        for x in out.data:
            atoms |= I2.reach([x.a])[0]
        return "@dmark" in atoms
    except _ERR:
        return None


_CACHE = {}


def wiring(ctx):
    """[JvpFunction] of TensorMath and Math (built once per source tree)"""
    key = id(ctx.repo)
    if key not in _CACHE or _CACHE[key][0] is not ctx.repo:          # the tree object is kept with the entry: its id cannot be reused
        _CACHE.clear()
        out = []
        for mname in (TM, "optimism.Math"):
            m, fns = custom_jvp_named(ctx, mname)
            rules, loose = rule_values(SymInterp(ctx.repo), m)
            for name, sc in fns:
                rv = rules.get(sc.qualname)
                why = f"{loose} registration(s) in the module could not be attributed to a function" if (rv is None and loose) else None
                out.append(analyse(ctx, name, sc, mname, rv, why))
        _CACHE[key] = (ctx.repo, out)
    for jf in _CACHE[key][1]:
        ctx.touch(jf.scope)
        if callable_scope(jf.rule) is not None:
            ctx.touch(callable_scope(jf.rule))
    return _CACHE[key][1]


# ------------------------------------------------------------------------------------------------ obligations

def jvp_wiring(ctx, rule):
    jfs = wiring(ctx)
    for jf in jfs:
        f = jf.scope
        if jf.rule is None:
            if jf.rule_why:
                ctx.undecided(rule, f, None, construct=f"{jf.name}:has-rule", detail=f"{jf.name}: {jf.rule_why}")
            else:
                ctx.refuted(rule, f, None, construct=f"{jf.name}:has-rule",
                            detail=f"{jf.name} is decorated with custom_jvp but no @{jf.name}.defjvp rule is registered")
            continue
        r = jf.where
        ctx.decide(rule, jf.okp, r, None, construct=f"{jf.name}:primal-out-calls-decorated-function",
                   detail=f"primal output = {jf.name}(*primals)",
                   bad_detail=(f"the JVP rule of {jf.name} does not compute its primal output by calling {jf.name} on the primals: higher-order derivatives would bypass the custom rule"
                               if jf.rule_error is None else f"cannot interpret the rule: {jf.rule_error}"))
        if not jf.spectral:
            continue
        construct = f"{jf.name}:tangent-uses-the-primal-scalar-function"
        if jf.primal_error is not None or jf.fp is None:
            ctx.undecided(rule, r, None, construct=construct, detail=f"{jf.name}: the scalar function of the primal could not be read: {jf.primal_error or jf.fp_why}")
        elif jf.helper is None or jf.ft is None:
            ctx.undecided(rule, r, None, construct=construct, detail=f"{jf.name}: the tangent helper and the scalar function handed to it were not found: {jf.roles_why or jf.rule_error}")
        elif jf.same_f is False:
            ctx.refuted(rule, r, None, construct=construct, detail=f"{jf.name}: {jf.shown}")
        elif jf.args_ok is False:
            ctx.refuted(rule, r, None, construct=construct,
                        detail=f"{jf.name}: the tangent helper does not receive (matrix primal,), (its tangent,) of the decorated function: {jf.args_why}")
        elif jf.dfs and jf.df_ok is False and helper_uses_derivative(ctx, jf) is not True:
            ctx.undecided(rule, r, None, construct=construct, detail=f"{jf.name}: a callable handed to the tangent helper next to the scalar function is not its "
                                                                     f"derivative ({jf.df_why}) and the tangent was not seen to depend on it")
        elif jf.dfs and jf.df_ok is False:
            ctx.refuted(rule, r, None, construct=construct,
                        detail=f"{jf.name}: the callable handed to the tangent helper as the derivative of the scalar function is not its derivative: {jf.df_why}")
        elif jf.same_f is None or jf.args_ok is None:
            ctx.undecided(rule, r, None, construct=construct, detail=f"{jf.name}: {jf.shown if jf.same_f is None else jf.args_why}")
        elif jf.dfs and jf.df_ok is None:
            ctx.undecided(rule, r, None, construct=construct, detail=f"{jf.name}: {jf.df_why}")
        else:
            ctx.proved(rule, r, None, construct=construct, detail=f"both use the same scalar function ({jf.shown.split(',')[0]}); the helper decomposes the matrix primal and rotates its tangent")
    if len(jfs) < 5:
        raise Incomplete(f"{len(jfs)} custom_jvp functions found (5 expected)")
    helper_rules(ctx, rule)
    divided_differences(ctx, rule)


def _expected(lam, V, Cd):
    three = Dual(3)
    hh = [[None] * 3 for _ in range(3)]
    for i_ in range(3):
        for j_ in range(3):
            if i_ == j_ or _A.equal(lam[i_].a, lam[j_].a):
                hh[i_][j_] = three * lam[i_] * lam[i_]
            else:
                hh[i_][j_] = lam[i_] * lam[i_] + lam[i_] * lam[j_] + lam[j_] * lam[j_]
    S = Cd.zip(Cd.T(), lambda x, y: (x + y) * Dual(Fraction(1, 2)))
    Wm = matmul(matmul(V.T(), S), V)
    HW = Arr([hh[i_][j_] * Wm.data[i_ * 3 + j_] for i_ in range(3) for j_ in range(3)], (3, 3))
    return matmul(matmul(V, HW), V.T())


def helper_rules(ctx, rule):
    """The shared tangent helper, interpreted on generic symbolic data the way a rule calls it: eigenvalues l0..l2 (distinct generic numbers;
    equal names = exactly equal eigenvalues), a generic matrix V in place of the eigenvectors, a generic tangent, f(x) = x^3 with exact divided
    difference x^2+xy+y^2.  The result must be the Daleckii-Krein form V (h o (V^T sym(Cdot) V)) V^T with h_ii = f'(l_i), h_ij = divided
    difference (distinct) or f' (equal eigenvalues).  The switch between the two must be exact equality: any condition that is still open when
    all eigenvalues are distinct generic numbers is evaluated at nearly equal eigenvalues -- if it holds there, f' replaces the (exact) divided
    difference where they differ."""
    jfs = [jf for jf in wiring(ctx) if jf.helper is not None and jf.ft is not None and jf.slot is not None]
    if not jfs:
        why = "; ".join(sorted({jf.roles_why for jf in wiring(ctx) if jf.spectral and jf.roles_why})) or "no spectral custom_jvp function found"
        raise Incomplete(f"the tangent helper of the spectral matrix functions was not found by interpretation ({why})")
    done = set()
    for jf in sorted(jfs, key=lambda j: (j.args_ok is not True, j.name)):
        # one reading of the helper per way of calling it: without, and with a derivative of the scalar function handed over
        key = (jf.helper.qualname, bool(jf.dfs))
        if key in done:
            continue
        if jf.dfs and not (jf.same_f is True and jf.df_ok is True):
            continue          # the roles of the callables of this call are not established (its own obligation above is not proved)
        done.add(key)
        _helper_cases(ctx, rule, jf, tag="[derivative of the scalar function handed over]" if jf.dfs else "")


def _helper_cases(ctx, rule, jf, tag=""):
    h = jf.helper
    ctx.touch(h)
    V, Cd = tensorid.generic("v"), tensorid.generic("c")
    cases = [("distinct", ("l0", "l1", "l2")), ("double", ("l0", "l0", "l2")), ("triple", ("l0", "l0", "l0"))]
    verdicts = {}
    open_conditions = []
    tolerance_witness = None
    for cname, names in cases:
        lam = [Dual(_A.atom(n)) for n in names]
        try:
            out, _eig, I = run_helper(ctx, jf, names)
            want = _expected(lam, V, Cd)
            if not (isinstance(out, Arr) and out.shape == (3, 3) and all(isinstance(x, Dual) for x in out.data)):
                raise EvalError("the helper does not return a 3x3 tensor")
            opened = {c.key: c for c in I.sel_log}
            got = [x.a for x in out.data]
            if opened:
                # conditions that symbolic eigenvalues leave open: the assembly is read at well separated eigenvalues (what the open
                # conditions do at nearly equal eigenvalues is the business of the fallback obligation below)
                sep = {"l0": 0.7, "l1": 1.9, "l2": 3.1}
                try:
                    got = [I.specialise(g_, sep) for g_ in got]
                except (KeyError, ZeroDivisionError, EvalError, ValueError):
                    pass
            bad = [(i_, j_) for i_ in range(3) for j_ in range(3) if not _A.equal(got[i_ * 3 + j_], want.data[i_ * 3 + j_].a)]
            if cname == "distinct":
                open_conditions = list(opened.values())
                gaps = (1e-6, 1e-9, 1e-12, 1e-14, 4.5e-16)
                pts = [pt for g_ in gaps for pt in ({"l0": 1.0, "l1": 1.0 + g_, "l2": 2.0}, {"l0": 1.0, "l1": 2.0, "l2": 2.0 * (1.0 + g_)},
                                                   {"l0": 3.0 * (1.0 + g_), "l1": 2.0, "l2": 3.0}, {"l0": 1e-9, "l1": 1e-9 * (1.0 + g_) + g_ * 1e-9, "l2": 1.0})]
                pts.append({"l0": 1e-9, "l1": 2e-9, "l2": 1.0})
                for c in open_conditions:
                    for pt in pts:
                        if len({pt["l0"], pt["l1"], pt["l2"]}) < 3:
                            continue
                        try:
                            if I.numeric_cond(c, pt):
                                tolerance_witness = (c, pt)
                                break
                        except (KeyError, ZeroDivisionError):
                            pass
                    if tolerance_witness:
                        break
            if bad and opened and not tolerance_witness and cname == "distinct":
                verdicts[cname] = None
                ctx.undecided(rule, h, None, construct=f"helper:daleckii-krein-assembly:{cname}{tag}",
                              detail=f"the tangent depends on conditions that generic distinct eigenvalues do not decide: {sorted(opened)[:2]}")
                continue
            verdicts[cname] = not bad
            ctx.decide(rule, not bad, h, None, construct=f"helper:daleckii-krein-assembly:{cname}{tag}",
                       detail=f"tangent == V (h o V^T sym(Cdot) V) V^T for generic V, Cdot and {cname} eigenvalues (f = x^3)",
                       bad_detail=f"for {cname} eigenvalues the tangent differs from V (h o V^T sym(Cdot) V) V^T in entries {bad} "
                                  f"(generic V, generic Cdot, f(x) = x^3 with its exact divided difference)")
        except _ERR as ex:
            verdicts[cname] = None
            ctx.undecided(rule, h, None, construct=f"helper:daleckii-krein-assembly:{cname}{tag}", detail=f"cannot interpret the helper on generic data: {ex}")
    # ---- the switch between divided difference and derivative
    if tolerance_witness is not None:
        c, pt = tolerance_witness
        ok, why = False, (f"the switch condition `{c.key[:120]}` holds for the distinct eigenvalues {sorted(pt.values())}: the divided difference is replaced by f' "
                          f"although the relative-difference formulas are exact for every non-zero gap")
    elif verdicts.get("distinct") and verdicts.get("double") is False:
        ok, why = False, "at exactly equal eigenvalues the divided difference does not fall back to the derivative"
    elif verdicts.get("distinct") and verdicts.get("double") and not open_conditions:
        ok, why = True, ""
    else:
        ok, why = None, "the switch between divided difference and derivative could not be read"
    ctx.decide(rule, ok, h, None, construct=f"helper:degenerate-fallback-is-derivative{tag}",
               detail="exact equality of two eigenvalues (and nothing else) selects the derivative f'(a) instead of the divided difference",
               bad_detail=f"the divided difference does not fall back to the derivative exactly at equal eigenvalues: {why}")


# ------------------------------------------------------------------------------------------------ relative differences by role

def relative_difference_of(ctx, pred):
    """the relative-difference callable (and interpreter) of the spectral function whose primal scalar function satisfies `pred(I, fp)`"""
    for jf in wiring(ctx):
        if jf.spectral and jf.rd is not None and jf.fp is not None and jf.same_f is True:
            try:
                if pred(jf.I, jf.fp):
                    return jf
            except _ERR:
                continue
    return None


def divided_difference_verdict(jf):
    """Is the two-argument callable that the rule of `jf` hands to the tangent helper the divided difference of the scalar function the rule
    differentiates:  rd(a, b) (a - b) == f(a) - f(b)  for symbolic a, b > 0 (and symbolic extra parameters such as an exponent)?
    -> (True, how): identity derived exactly (polynomial / square-root algebra, or the exp-log normal form of rules/C12_explog.py);
       (False, witness): every operation of both sides is modelled and the two sides differ at a sample point;
       (None, why): equal at the sample points but not derived, or a side that cannot be evaluated.      Cached on the JvpFunction."""
    if getattr(jf, "dd_verdict", None) is not None:
        return jf.dd_verdict
    from . import C12_explog
    I = jf.I
    a, b = Dual(_A.atom("@a")), Dual(_A.atom("@b"))
    I.positive.update({"@a", "@b"})
    verdict = (None, "not evaluated")
    try:
        got = I.num(I.call(jf.rd, [a, b], {}))
        fa, fb = I.num(I.call(jf.ft, [a], {})), I.num(I.call(jf.ft, [b], {}))
        if not all(isinstance(v, Dual) for v in (got, fa, fb)):
            raise EvalError("the relative difference or the scalar function does not return a scalar")
        lhs, rhs = _A.norm(got.a * (a.a - b.a)), _A.norm(fa.a - fb.a)
        if _A.equal(lhs, rhs):
            verdict = (True, "exact algebra")
        elif C12_explog.is_zero(I, _A.norm(lhs - rhs)) is True:
            verdict = (True, "exp-log normal form, every order of the arguments")
        else:
            bad, seen = None, 0
            for pt0 in ({"@a": 2.0, "@b": 0.5}, {"@a": 0.3, "@b": 3.0}, {"@a": 1.5, "@b": 1.2}):
                for pt in _sample_points(I, [lhs, rhs], [pt0]):
                    x, y = I.numeric(lhs, pt), I.numeric(rhs, pt)
                    if x != x or y != y:
                        continue
                    seen += 1
                    if bad is None and abs(x - y) > 1e-9 * max(1.0, abs(x), abs(y)):
                        gap = pt0["@a"] - pt0["@b"]
                        others = {k: v for k, v in pt.items() if k not in pt0}
                        bad = (f"evaluates to {x / gap:.12g} at ({pt0['@a']}, {pt0['@b']})"
                               + (f" with the remaining parameters at {sorted(others.values())}" if others else "")
                               + f" but (f(a)-f(b))/(a-b) = {y / gap:.12g}")
            if bad:
                verdict = (False, bad)
            elif seen:
                verdict = (None, "agrees at well separated sample points; the identity was not derived (sampling is not a proof)")
            else:
                verdict = (None, "not evaluable at the sample points")
    except _ERR + (OverflowError,) as ex:
        verdict = (None, f"cannot be interpreted on symbols: {ex}")
    jf.dd_verdict = verdict
    return verdict


def divided_differences(ctx, rule):
    """one obligation per spectral custom_jvp function whose rule hands a relative difference to the tangent helper (jvp_wiring: C12 O3, C10 W1):
    PROVED when the identity rd(a,b)(a-b) = f(a)-f(b) is derived, REFUTED on a numeric witness; agreement at sample points alone is a note"""
    for jf in wiring(ctx):
        if not (jf.spectral and jf.rd is not None and jf.ft is not None and jf.same_f is True):
            continue
        where = callable_scope(jf.rd) or jf.where
        ctx.touch(where)
        ok, why = divided_difference_verdict(jf)
        construct = f"{jf.name}:relative-difference-is-the-divided-difference-of-the-scalar-function"
        if ok is True:
            ctx.proved(rule, where, None, construct=construct,
                       detail=f"rd(a, b) (a - b) == f(a) - f(b) for the callables the rule of {jf.name} hands to the tangent helper ({why})")
        elif ok is False:
            ctx.refuted(rule, where, None, construct=construct,
                        detail=f"the relative difference handed to the tangent helper by the rule of {jf.name} is not the divided difference of the scalar function "
                               f"f that the rule differentiates: it {why}; the off-diagonal (eigenbasis) part of the derivative of {jf.name} is wrong")
        else:
            ctx.notes.append(f"{jf.name}: relative difference against the divided difference of the scalar function: {why}")


def screen_relative_differences(ctx, rule):
    """For every spectral function: rd(a, b) (a - b) == f(a) - f(b) with f the scalar function of the rule and rd the relative difference it
    hands to the helper (divided_difference_verdict) -- refutation only; -> number of functions without a counterexample."""
    n_ok = 0
    for jf in wiring(ctx):
        if not (jf.spectral and jf.rd is not None and jf.ft is not None and jf.same_f is True):
            continue
        ok, why = divided_difference_verdict(jf)
        if ok is False:
            ctx.refuted(rule, callable_scope(jf.rd) or jf.where, None, construct=f"{jf.name}:relative-difference-of-the-scalar-function",
                        detail=f"the relative difference handed to the tangent helper by the rule of {jf.name} {why} for the scalar function f of {jf.name}")
        elif ok is True or why.startswith("agrees"):
            n_ok += 1
    return n_ok
