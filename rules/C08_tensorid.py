"""Polynomial identities of the closed-form 3x3 helpers in optimism.TensorMath, decided by interpreting
their source on a *generic symbolic matrix* (entries a00..a22) with exact rational normal forms.

Copy of rules/tensorid.py for C08 (rules/tensorid.py is shared and frozen) with one difference: the helpers are looked up as
*public names of the module* (optilint.tensoreval.Interp.module_value), so `det = _closed_form_det` / a re-export / a def are the same
thing; the obligation is attached to whatever function the name resolves to."""
from __future__ import annotations

from optilint.tensoreval import Dual, Arr, EvalError, Raised, _A, rat_is_zero, matmul, sum_d
from . import materials as mt

TM = "optimism.TensorMath"


def generic(prefix="a"):
    return Arr([Dual(_A.atom(f"{prefix}{i}{j}")) for i in range(3) for j in range(3)], (3, 3))


def ident():
    return Arr([Dual(1 if i == j else 0) for i in range(3) for j in range(3)], (3, 3))


def arr_equal(X, Y):
    if not isinstance(X, Arr) or not isinstance(Y, Arr) or X.shape != Y.shape:
        return False
    return all(_A.equal(x.a, y.a) for x, y in zip(X.data, Y.data))


def det3(A):
    g = lambda i, j: A.data[i * 3 + j]
    return g(0, 0) * g(1, 1) * g(2, 2) + g(0, 1) * g(1, 2) * g(2, 0) + g(0, 2) * g(1, 0) * g(2, 1) \
        - g(0, 0) * g(1, 2) * g(2, 1) - g(0, 1) * g(1, 0) * g(2, 2) - g(0, 2) * g(1, 1) * g(2, 0)


def run_identities(ctx, rule, names=None):
    """names: subset of {'inv','detpIm1','det','deviator','sym','norm_of_deviator_squared','I2'}"""
    mod = ctx.need_module(TM)
    I = mt.make_interp(ctx.repo)
    A = generic()
    One = ident()
    todo = names or ["inv", "detpIm1", "det", "deviator", "sym", "norm_of_deviator_squared", "I2", "trace"]

    from optilint.core import Incomplete

    def f(name):
        try:
            v = I.module_value(mod, name)
        except EvalError:
            raise Incomplete(f"public name {TM}.{name} not found in the source tree")
        sc = getattr(v, "scope", None) or mod.scope
        if sc is not mod.scope:
            ctx.touch(sc)
        return sc, v

    def attempt(name, fn):
        sc = f(name)[0]
        try:
            ok, detail, bad = fn()
        except (EvalError, Raised, KeyError, IndexError, TypeError, ZeroDivisionError) as ex:
            ctx.undecided(rule, sc, None, construct=f"TensorMath.{name}", detail=f"cannot interpret on a generic matrix: {ex}")
            return
        ctx.decide(rule, ok, sc, None, construct=f"TensorMath.{name}", detail=detail, bad_detail=bad)

    if "det" in todo:
        def t():
            d = I.num(I.call(f("det")[1], [A], {}))
            ok = _A.equal(d.a, det3(A).a)
            return ok, "det(A) is the Leibniz expansion", f"TensorMath.det(A) = {d.a!r} is not the determinant of a generic 3x3 matrix"
        attempt("det", t)
    if "trace" in todo:
        def t():
            d = I.num(I.call(f("trace")[1], [A], {}))
            want = A.data[0] + A.data[4] + A.data[8]
            return _A.equal(d.a, want.a), "trace(A) = a00+a11+a22", f"TensorMath.trace(A) = {d.a!r}"
        attempt("trace", t)
    if "I2" in todo:
        def t():
            d = I.num(I.call(f("I2")[1], [A], {}))
            g = lambda i, j: A.data[i * 3 + j]
            want = g(0, 0) * g(1, 1) - g(0, 1) * g(1, 0) + g(0, 0) * g(2, 2) - g(0, 2) * g(2, 0) + g(1, 1) * g(2, 2) - g(1, 2) * g(2, 1)
            return _A.equal(d.a, want.a), "I2(A) = sum of principal 2x2 minors", f"TensorMath.I2(A) = {d.a!r} is not the second invariant"
        attempt("I2", t)
    if "detpIm1" in todo:
        def t():
            d = I.num(I.call(f("detpIm1")[1], [A], {}))
            ApI = A.zip(One, lambda x, y: x + y)
            want = det3(ApI) - Dual(1)
            return _A.equal(d.a, want.a), "detpIm1(A) == det(A + I) - 1 for a generic matrix", \
                f"detpIm1(A) differs from det(A+I)-1 by {_A.norm(d.a - want.a)!r}"
        attempt("detpIm1", t)
    if "inv" in todo:
        def t():
            B = I.call(f("inv")[1], [A], {})
            left, right = matmul(B, A), matmul(A, B)
            ok = arr_equal(left, One) and arr_equal(right, One)
            wrong = [(i, j) for i in range(3) for j in range(3) if not _A.equal(left.data[i * 3 + j].a, One.data[i * 3 + j].a)]
            return ok, "inv(A) @ A == A @ inv(A) == I for a generic matrix", \
                f"inv(A) @ A differs from the identity in entries {wrong} for a generic (non-symmetric) matrix: an entry of the adjugate is wrong"
        attempt("inv", t)
    if "deviator" in todo:
        def t():
            D = I.call(f("deviator")[1], [A], {})
            tr = D.data[0] + D.data[4] + D.data[8]
            off = all(_A.equal(D.data[i * 3 + j].a, A.data[i * 3 + j].a) for i in range(3) for j in range(3) if i != j)
            iso = _A.equal((A.data[0] - D.data[0]).a, (A.data[4] - D.data[4]).a) and _A.equal((A.data[0] - D.data[0]).a, (A.data[8] - D.data[8]).a)
            return rat_is_zero(tr.a) and off and iso, "deviator(A) is traceless and differs from A by a multiple of I", \
                f"deviator(A): trace {tr.a!r}, off-diagonals unchanged: {off}, isotropic difference: {iso}"
        attempt("deviator", t)
    if "sym" in todo:
        def t():
            Sy = I.call(f("sym")[1], [A], {})
            Sk = I.call(f("skw")[1], [A], {})
            ok = arr_equal(Sy, Sy.T()) and arr_equal(Sy.zip(Sk, lambda x, y: x + y), A) and arr_equal(Sk.T(), Sk.map(lambda x: -x))
            return ok, "sym is symmetric, skw antisymmetric, sym + skw == A", "sym/skw do not split a generic matrix into symmetric and antisymmetric parts"
        attempt("sym", t)
    if "norm_of_deviator_squared" in todo:
        def t():
            v = I.num(I.call(f("norm_of_deviator_squared")[1], [A], {}))
            D = I.call(f("deviator")[1], [A], {})
            want = sum_d(x * x for x in D.data)
            return _A.equal(v.a, want.a), "norm_of_deviator_squared(A) == dev(A):dev(A)", f"norm_of_deviator_squared(A) = {v.a!r}"
        attempt("norm_of_deviator_squared", t)
