"""Exact identities between values that contain exponentials, logarithms and real powers (C12 O3 / C10 W1: relative differences).

The symbolic interpreter (rules/C12_sym.py) keeps exp / expm1 / log / log1p / pow / min / max as opaque applications.  `is_zero(I, r)`
decides whether such a value vanishes identically by rewriting it into the exp-log normal form

    expm1(E) = exp(E) - 1        log1p(x) = log(1 + x)        x ** k = exp(k log x)       (sinh / cosh are already written with exp)
    log(n / d) = log|n| - log|d|,   log|c m p| = log c + sum e_i log|x_i| + log|p|     (c constant, m = prod x_i^e_i, p primitive polynomial)
    exp(sum_t c_t t) = prod_t G_t ^ (c_t / g_t)       with one generator G_t = exp(g_t t) per distinct term t of all exponents, g_t the
                                                      common divisor of its coefficients; exp(k log x) = x^k (x > 0), exp(log(x)/2) = sqrt(x)

and by splitting on every min / max pair (both orders).  What remains is a rational function of independent generators, which is compared
exactly.  True: identically zero in every case;  None: not closed by these rules (no statement).  Nothing here is numeric.
"""
from __future__ import annotations

import itertools
from fractions import Fraction
from math import gcd

from optilint.expr import Rat, Poly, simplify
from optilint.tensoreval import Dual, Arr, _A, rat_const
from .C12_sym import subst

ONE = Rat(Poly.const(1))
ZERO = Rat(Poly())


class GiveUp(Exception):
    pass


def _factor(n: int):
    out, p = {}, 2
    while p * p <= n and p < 2000:
        while n % p == 0:
            out[p] = out.get(p, 0) + 1
            n //= p
        p += 1
    if n > 1:
        out[n] = out.get(n, 0) + 1
    return out


class _Case:
    """one expansion with a fixed choice for every min / max pair"""

    def __init__(self, I, choice, pairs):
        self.I, self.choice, self.pairs = I, choice, pairs
        self.memo = {}
        self.T, self._tkey = {}, {}          # placeholder atom of an exponential -> exponent (Rat)
        self.L, self._lkey = {}, {}          # atom of a logarithm -> (kind, payload): ("atom", name) / ("poly", Poly) / ("const", int)
        self.opq = {}

    # ---- atoms
    def positive(self, a):
        return a in self.I.positive or a in self.T or a in _A.rules

    def t_atom(self, e: Rat) -> Rat:
        e = simplify(_A.norm(e))
        if e.n.is_zero():
            return ONE
        if e.atoms() & set(self.T):
            raise GiveUp("nested exponentials")
        key = repr(e)
        nm = self._tkey.get(key)
        if nm is None:
            nm = self._tkey[key] = f"T#{len(self.T) + 1}"
            self.T[nm] = e
        return _A.atom(nm)

    def l_atom(self, kind, payload) -> Rat:
        key = (kind, repr(payload))
        nm = self._lkey.get(key)
        if nm is None:
            nm = self._lkey[key] = f"L#{len(self.L) + 1}"
            self.L[nm] = (kind, payload)
        return _A.atom(nm)

    def log_const(self, c: Fraction) -> Rat:
        if c <= 0:
            raise GiveUp("logarithm of a non-positive constant")
        out = ZERO
        for sgn, k in ((1, c.numerator), (-1, c.denominator)):
            if k > 10 ** 12:
                raise GiveUp("constant too large to factor")
            for p, e in _factor(k).items():
                out = out + Rat(Poly.const(sgn * e)) * self.l_atom("const", p)
        return out

    def log_abs_poly(self, p: Poly) -> Rat:
        """log |p|"""
        if p.is_zero():
            raise GiveUp("logarithm of zero")
        atoms = sorted(p.atoms())
        out = ZERO
        # common monomial factor
        mins = {a: min(dict(m).get(a, 0) for m in p.t) for a in atoms}
        if any(mins.values()):
            p = Poly({tuple(sorted((k, e - mins[k]) for k, e in m if e - mins[k])): c for m, c in p.t.items()})
        for a, e in mins.items():
            if e:
                out = out + Rat(Poly.const(e)) * self.log_abs_atom(a)
        # content, sign normalised on the first monomial in sorted order
        lead = p.t[min(p.t)]
        nums = [abs(c.numerator) for c in p.t.values()]
        dens = [c.denominator for c in p.t.values()]
        g = 0
        for x in nums:
            g = gcd(g, x)
        l = 1
        for x in dens:
            l = l * x // gcd(l, x)
        content = Fraction(g, l) * (1 if lead > 0 else -1)
        p = Poly({m: c / content for m, c in p.t.items()})
        if abs(content) != 1:
            out = out + self.log_const(abs(content))
        if not (p.is_const() and p.const_value() == 1):
            out = out + self.l_atom("poly", p)
        return out

    def log_abs_atom(self, a) -> Rat:
        if a in self.T:
            return self.T[a]                                   # log(exp(E)) = E
        if a in _A.rules:
            return Rat(Poly.const(Fraction(1, 2))) * self.log_abs_poly(_A.rules[a])        # log sqrt(p) = log|p| / 2
        return self.l_atom("atom", a)

    def log(self, x: Rat) -> Rat:
        x = simplify(_A.norm(x))
        return self.log_abs_poly(x.n) - self.log_abs_poly(x.d)

    # ---- expansion
    def value(self, v) -> Rat:
        if isinstance(v, Dual):
            return self.expand(v.a)
        if isinstance(v, Rat):
            return self.expand(v)
        if isinstance(v, (int, float, Fraction)) and not isinstance(v, bool):
            return _A.const(v)
        raise GiveUp("argument that is not a scalar")

    def expand(self, r: Rat) -> Rat:
        for a in sorted(r.atoms()):
            if a in self.I.fn or a in self.I.let or a in self.I.sel:
                r = subst(r, a, self.atom(a))
        return r

    def atom(self, a) -> Rat:
        if a not in self.memo:
            self.memo[a] = self._atom(a)
        return self.memo[a]

    def _atom(self, a) -> Rat:
        I = self.I
        if a in I.let:
            return self.expand(I.let[a])
        if a in I.sel:
            raise GiveUp("a selection that is still open")
        name, args = I.fn[a]
        if any(isinstance(x, Arr) for x in args):
            raise GiveUp(f"{name} of an array")
        xs = [self.value(x) for x in args]
        if name == "exp":
            return self.t_atom(xs[0])
        if name == "expm1":
            return self.t_atom(xs[0]) - ONE
        if name == "log":
            return self.log(xs[0])
        if name == "log1p":
            return self.log(ONE + xs[0])
        if name == "pow":
            c = rat_const(xs[1])
            if c is not None and Fraction(c).denominator == 1:
                return simplify(_A.norm(xs[0].pow(int(c))))
            return self.t_atom(xs[1] * self.log(xs[0]))
        if name in ("min", "max") and len(xs) == 2:
            ks = sorted([repr(simplify(x)) for x in xs])
            key = (ks[0], ks[1])
            if key not in self.pairs:
                self.pairs.append(key)
            first_smaller = self.choice.get(key, True)         # True: the argument with the smaller text is the smaller number
            lo, hi = (xs[0], xs[1]) if repr(simplify(xs[0])) == ks[0] else (xs[1], xs[0])
            if not first_smaller:
                lo, hi = hi, lo
            return lo if name == "min" else hi
        if name == "abs":
            raise GiveUp("absolute value of an unsigned quantity")
        # any other application stays opaque, on canonical arguments
        key = name + "(" + ",".join(repr(simplify(x)) for x in xs) + ")"
        nm = self.opq.get(key)
        if nm is None:
            nm = self.opq[key] = f"{name}@{len(self.opq) + 1}"
        return _A.atom(nm)

    # ---- generators of the exponentials
    def generators(self):
        """{placeholder: Rat in independent generators}"""
        terms = {}                                             # (monomial, text of the denominator) -> [coefficients]
        for nm, e in self.T.items():
            for m, c in e.n.t.items():
                terms.setdefault((m, repr(e.d)), []).append(c)
        gen = {}
        for (m, dkey), cs in terms.items():
            l = 1
            for c in cs:
                l = l * c.denominator // gcd(l, c.denominator)
            g = 0
            for c in cs:
                g = gcd(g, abs(int(c * l)))
            single = m[0][0] if len(m) == 1 and m[0][1] == 1 and dkey == repr(Poly.const(1)) and m[0][0] in self.L else None
            base = None
            if single is not None:
                kind, payload = self.L[single]
                if kind == "const":
                    base = Rat(Poly.const(payload))
                elif kind == "atom" and self.positive(payload):
                    base = _A.atom(payload)
                elif kind == "poly" and self.I.sign_of(Rat(payload)) == "pos":
                    base = Rat(payload)
            if base is not None and l == 1:
                gen[(m, dkey)] = (base, Fraction(1))            # exp(k log x) = x^k
            elif base is not None and l == 2:
                gen[(m, dkey)] = (_A.sqrt(base), Fraction(1, 2))  # exp(k log(x) / 2) = sqrt(x)^k
            else:
                unit = Fraction(g, l)
                gen[(m, dkey)] = (_A.atom(f"G[{unit}*{Poly({m: Fraction(1)})!r}/{dkey}]"), unit)
        out = {}
        for nm, e in self.T.items():
            val = ONE
            for m, c in e.n.t.items():
                base, unit = gen[(m, repr(e.d))]
                k = c / unit
                if k.denominator != 1:
                    raise GiveUp("non-integer multiple of a generator")
                val = val * base.pow(int(k))
            out[nm] = val
        return out

    def closed(self, r: Rat) -> bool:
        r = simplify(_A.norm(self.expand(r)))
        if r.n.is_zero():
            return True
        reps = self.generators()
        for nm in sorted(r.atoms() & set(reps)):
            r = subst(r, nm, reps[nm])
        return _A.is_zero(simplify(_A.norm(r)))


def is_zero(I, r: Rat, max_pairs=3):
    """True: `r` vanishes identically (for every order of every min / max pair);  None: not decided by the exp-log rules"""
    pairs = []
    try:
        first = _Case(I, {}, pairs)
        ok = first.closed(r)
        if not ok or not pairs:
            return True if ok else None
        if len(pairs) > max_pairs:
            return None
        keys = list(pairs)
        for bits in itertools.product((True, False), repeat=len(keys)):
            if all(bits):
                continue
            if not _Case(I, dict(zip(keys, bits)), pairs).closed(r):
                return None
        return True
    except (GiveUp, KeyError, ZeroDivisionError, RecursionError, ValueError, TypeError, OverflowError, AttributeError):
        return None
