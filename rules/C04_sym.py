"""C04_sym -- symbolic interpreter for the augmented-Lagrangian driver family (engine of rules/C04.py).

Nothing of the analysed library is imported or executed: its *source* is interpreted, through the optilint model, on symbolic inputs.

Values
  * numbers / arrays are exact rational functions (optilint.expr.Rat) over *atoms*.  Arrays are represented by a generic element
    (element-wise arithmetic is polynomial arithmetic); everything that is not element-wise is a structured atom:
        sym  input symbol                  hav  unknown at the head of a generalised loop
        app  application of an uninterpreted (user supplied / parameter / policy-opaque repository) function
        ext  application of an external function that is not modelled    fb  repository function that could not be interpreted
        sel  where(cond, a, b)             max / min / abs / sqrt / n2 (sum of squares) / sum / any
        gm   a[mask] (gather by boolean mask)    item / attr / size      hs  hstack of blocks (sliced structurally)
        D    derivative of a callable (grad / hessian / jacobian) applied to arguments,   jvp / vjp
    atoms are interned by a canonical key, so two values are equal iff their normal forms coincide -- whatever local names,
    temporaries, helpers (nested defs, lambdas, functools.partial, bound methods, module level helpers, methods of repository classes
    are inlined), keyword / positional style, guard clauses or branch order produced them;
  * conditions are formulas over comparison atoms `d < 0`, `d <= 0`, `d == 0` (d a sign-normalised difference) and opaque truth atoms;
  * Python data (tuples, lists, dicts, namedtuple records, closures, partials, instances of repository classes with a mutable
    attribute store) are concrete.
Control
  * an `if` whose branches complete normally and leave mergeable states is *merged* (where / ite values), otherwise the path forks;
    forks are explored by re-running the function under a decision script (depth first);
  * loops over concrete ranges are unrolled; other loops are *generalised*: the variables / attribute cells written in the body
    are unknown at the head (fixpoint over the written set), the body is run once from that head, the back-edge state is recorded
    and the loop is left from it.  A generalised loop of the analysed function itself is a *cut*: the states that reach it are
    joined and the loop is analysed once from the join.
An operation that is not modelled raises EvalError (the caller reports UNDECIDED, never a violation).
"""
from __future__ import annotations

import ast
import math
import random
from fractions import Fraction

from optilint.expr import Poly, Rat, simplify
from optilint.model import Scope, walk_local


class EvalError(Exception):
    """construct that the interpreter cannot interpret (verdict: undecided)"""


class Budget(EvalError):
    pass


class _Return(Exception):
    def __init__(self, value):
        self.value = value


class _Break(Exception):
    pass


class _Continue(Exception):
    pass


class _Raise(Exception):
    def __init__(self, value=None):
        self.value = value


class _NeedFork(Exception):
    pass


class _NoMerge(Exception):
    pass


class _Cut(Exception):
    pass


class _Restart(Exception):
    pass


class _Consumer(Exception):
    """control transfer raised by the body of a loop that consumes a generator (break / return): it must pass through the
    frames of the generator untouched"""
    def __init__(self, exc):
        self.exc = exc


class _EndPath(Exception):
    """the path cannot be continued (back edge of a loop whose test stays true): it ends here"""


# ------------------------------------------------------------------------------------------------ values

class Atom:
    __slots__ = ("id", "kind", "parts", "dim", "key")

    def __init__(self, id_, kind, parts, dim, key):
        self.id, self.kind, self.parts, self.dim, self.key = id_, kind, parts, dim, key

    def __repr__(self):
        return f"<{self.id} {self.key}>"


class Num:
    __slots__ = ("r", "k")

    def __init__(self, r: Rat):
        self.r = r
        self.k = None

    def __repr__(self):
        return f"Num({self.r!r})"


class Bv:
    """boolean value (scalar condition or element-wise mask): a formula"""
    __slots__ = ("f",)

    def __init__(self, f):
        self.f = f

    def __repr__(self):
        return f"Bv({fkey(self.f)})"


class Closure:
    def __init__(self, scope: Scope, frame, defaults=None, kwdefaults=None):
        self.scope, self.frame, self.defaults, self.kwdefaults = scope, frame, defaults, kwdefaults

    def __repr__(self):
        return f"<closure {self.scope.qualname}>"


class Bound:
    def __init__(self, recv, fn):
        self.recv, self.fn = recv, fn


class PartialV:
    def __init__(self, f, args, kwargs):
        self.f, self.args, self.kwargs = f, tuple(args), dict(kwargs)


class GradFn:
    def __init__(self, f, argnums, kind):
        self.f, self.argnums, self.kind = f, argnums, kind


class VMapFn:
    def __init__(self, f):
        self.f = f


class ClassV:
    def __init__(self, scope: Scope):
        self.scope = scope


class NTClass:
    def __init__(self, name, fields, defaults=()):
        self.name, self.fields, self.defaults = name, tuple(fields), tuple(defaults)


class Rec:
    def __init__(self, nt: NTClass, values):
        self.nt, self.values = nt, tuple(values)

    def get(self, f):
        return self.values[self.nt.fields.index(f)]


class ModuleV:
    def __init__(self, module):
        self.module = module


class Ext:
    def __init__(self, name):
        self.name = name

    def __repr__(self):
        return f"Ext({self.name})"


class Obj:
    def __init__(self, cls: Scope, oid, label):
        self.cls, self.oid, self.label = cls, oid, label

    def __repr__(self):
        return f"<obj {self.label}>"


class SuperV:
    def __init__(self, obj, cls):
        self.obj, self.cls = obj, cls


class PyList:
    def __init__(self, items, stamp):
        self.items, self.stamp = list(items), stamp


class PyDict:
    def __init__(self, items, stamp):
        self.items, self.stamp = dict(items), stamp


class AtProxy:
    def __init__(self, base, idx=None, has_idx=False):
        self.base, self.idx, self.has_idx = base, idx, has_idx


class NumMethod:
    def __init__(self, base, name):
        self.base, self.name = base, name


class ExcV:
    def __init__(self, name, args):
        self.name, self.args = name, args


class RangeV:
    def __init__(self, lo, hi, step):
        self.lo, self.hi, self.step = lo, hi, step


class ElemWise:
    """result of a comprehension / generator expression over the entries of an array: the value of its element expression for the
    generic entry"""
    def __init__(self, v):
        self.v = v


class LazySeq:
    """iterator with a concrete prefix followed by a constant tail (itertools.chain(<concrete>, itertools.repeat(v)))"""
    def __init__(self, prefix, tail, infinite=True):
        self.prefix, self.tail, self.infinite = list(prefix), tail, infinite


class ZipV:
    def __init__(self, parts):
        self.parts = list(parts)


class MethodCaller:
    def __init__(self, kind, name, args=(), kwargs=None):
        self.kind, self.name, self.args, self.kwargs = kind, name, tuple(args), dict(kwargs or {})


class GenV:
    """generator object: the generator function with its bound arguments (its body runs when it is iterated)"""
    def __init__(self, closure, bound):
        self.closure, self.bound = closure, bound


class Guarded:
    """value of a cell that is defined only where the formula holds (one-sided assignment in a merged `if`)"""
    def __init__(self, f, v):
        self.f, self.v = f, v


class SliceV:
    def __init__(self, lo, hi, step):
        self.lo, self.hi, self.step = lo, hi, step


ONE = Poly.const(1)


# ------------------------------------------------------------------------------------------------ formulas
# ('c', bool) | ('lt0'|'le0'|'eq0', dkey, Num) | ('t', key) | ('not', f) | ('and', (f..)) | ('or', (f..))

F_TRUE, F_FALSE = ("c", True), ("c", False)


def fkey(f):
    k = f[0]
    if k == "c":
        return "T" if f[1] else "F"
    if k in ("lt0", "le0", "eq0"):
        return f"{k}[{f[1]}]"
    if k == "t":
        return f"t[{f[1]}]"
    if k == "not":
        return f"!({fkey(f[1])})"
    return ("&" if k == "and" else "|").join(sorted("(" + fkey(x) + ")" for x in f[1]))


def f_not(f):
    if f[0] == "c":
        return F_FALSE if f[1] else F_TRUE
    if f[0] == "not":
        return f[1]
    return ("not", f)


def _f_nary(kind, fs):
    unit = kind == "and"
    out, seen = [], set()
    for f in fs:
        if f[0] == "c":
            if f[1] == unit:
                continue
            return F_FALSE if unit else F_TRUE
        if f[0] == kind:
            sub = f[1]
        else:
            sub = (f,)
        for g in sub:
            k = fkey(g)
            if k not in seen:
                seen.add(k)
                out.append(g)
    keys = {fkey(g) for g in out}
    for g in out:
        if fkey(f_not(g)) in keys:
            return F_FALSE if unit else F_TRUE
    if not out:
        return F_TRUE if unit else F_FALSE
    if len(out) == 1:
        return out[0]
    return (kind, tuple(sorted(out, key=fkey)))


def f_and(*fs):
    return _f_nary("and", fs)


def f_or(*fs):
    return _f_nary("or", fs)


def f_ite(c, a, b):
    return f_or(f_and(c, a), f_and(f_not(c), b))


def f_atoms(f, out=None):
    out = [] if out is None else out
    if f[0] in ("lt0", "le0", "eq0", "t"):
        out.append(f)
    elif f[0] == "not":
        f_atoms(f[1], out)
    elif f[0] in ("and", "or"):
        for g in f[1]:
            f_atoms(g, out)
    return out


_SIGNSET = {"lt0": frozenset((-1,)), "le0": frozenset((-1, 0)), "eq0": frozenset((0,))}
_ALLS = frozenset((-1, 0, 1))


class Facts:
    def __init__(self):
        self.signs = {}
        self.truth = {}
        self.log = []          # (formula atom, value) in decision order

    def copy(self):
        o = Facts()
        o.signs, o.truth, o.log = dict(self.signs), dict(self.truth), list(self.log)
        return o

    def ev(self, f):
        k = f[0]
        if k == "c":
            return f[1]
        if k in _SIGNSET:
            poss = self.signs.get(f[1])
            if poss is None:
                return None
            t = _SIGNSET[k]
            if poss <= t:
                return True
            if not (poss & t):
                return False
            return None
        if k == "t":
            return self.truth.get(f[1])
        if k == "not":
            v = self.ev(f[1])
            return None if v is None else (not v)
        vals = [self.ev(g) for g in f[1]]
        if k == "and":
            if any(v is False for v in vals):
                return False
            return True if all(v is True for v in vals) else None
        if any(v is True for v in vals):
            return True
        return False if all(v is False for v in vals) else None

    def assume(self, f, val, log=True):
        k = f[0]
        if k == "c":
            return
        if k == "not":
            return self.assume(f[1], not val, log)
        if k in _SIGNSET:
            t = _SIGNSET[k] if val else (_ALLS - _SIGNSET[k])
            self.signs[f[1]] = self.signs.get(f[1], _ALLS) & t
            if log:
                self.log.append((f, val))
            return
        if k == "t":
            self.truth[f[1]] = val
            if log:
                self.log.append((f, val))
            return
        if (k == "and" and val) or (k == "or" and not val):
            for g in f[1]:
                self.assume(g, val, log)
            return
        # disjunctive information: kept in the log only
        if log:
            self.log.append((f, val))


class Decider:
    def __init__(self, script):
        self.script = list(script)
        self.trace = []

    def choose(self, key):
        i = len(self.trace)
        v = self.script[i] if i < len(self.script) else True
        self.trace.append(v)
        return v


class NoFork:
    trace = ()

    def choose(self, key):
        raise _NeedFork(key)


def next_script(trace, floor):
    t = list(trace)
    while len(t) > floor and t[-1] is False:
        t.pop()
    if len(t) <= floor:
        return None
    t[-1] = False
    return t


class Frame:
    __slots__ = ("vars", "parent", "scope", "fid")

    def __init__(self, vars_, parent, scope, fid):
        self.vars, self.parent, self.scope, self.fid = vars_, parent, scope, fid


class State:
    def __init__(self):
        self.heap = {}          # oid -> {attr: value}
        self.facts = Facts()
        self.events = []
        self.guards = ()


class Event:
    def __init__(self, kind, **kw):
        self.kind = kind
        self.__dict__.update(kw)


class PathEnd:
    def __init__(self, kind, value, st, trace, obs=None):
        self.kind, self.value, self.trace = kind, value, trace
        self.log = list(st.facts.log)
        self.facts = st.facts
        self.events = list(st.events)
        self.heap = {o: dict(a) for o, a in st.heap.items()}
        self.obs = obs or {}


class LoopInfo:
    def __init__(self, lid):
        self.lid = lid
        self.mod = set()        # cells: ('v', frame-level, name) | ('h', oid, attr)


# ------------------------------------------------------------------------------------------------ machine: algebra

def _frac(c):
    if isinstance(c, bool):
        return Fraction(int(c))
    if isinstance(c, int):
        return Fraction(c)
    if isinstance(c, float):
        return Fraction(repr(c))
    return Fraction(c)


class Algebra:
    """atom table + normalising arithmetic on Num"""

    def __init__(self):
        self.by_key = {}
        self.by_id = {}
        self.rules = {}        # sqrt atom id -> Poly (its square)
        self.domain = {}       # atom id -> 'pos' | 'nonneg' | ('ge', Fraction)   (declared by the rules)
        self.n_atoms = 0

    # ---- atoms
    def atom(self, kind, key, parts=(), dim=None) -> Atom:
        a = self.by_key.get(key)
        if a is None:
            self.n_atoms += 1
            a = Atom(f"@{self.n_atoms}", kind, parts, dim, key)
            self.by_key[key] = a
            self.by_id[a.id] = a
        return a

    def anum(self, a: Atom) -> Num:
        return Num(Rat(Poly.atom(a.id), ONE))

    def sym(self, name, dim=None, kind="sym") -> Num:
        return self.anum(self.atom(kind, f"{kind}:{name}", (name,), dim))

    def const(self, c) -> Num:
        return Num(Rat(Poly.const(_frac(c)), ONE))

    # ---- normal form
    def norm(self, r: Rat) -> Num:
        if self.rules:
            r = Rat(r.n.reduce(self.rules), r.d.reduce(self.rules))
        if r.d.is_const():
            c = r.d.const_value()
            if c != 1:
                r = Rat(Poly({m: v / c for m, v in r.n.t.items()}), ONE)
        else:
            r = simplify(r)
        return Num(r)

    def add(self, a: Num, b: Num):
        return self.norm(a.r + b.r)

    def sub(self, a: Num, b: Num):
        return self.norm(a.r - b.r)

    def neg(self, a: Num):
        return Num(-a.r)

    def mul(self, a: Num, b: Num):
        return self.norm(a.r * b.r)

    def div(self, a: Num, b: Num):
        if b.r.n.is_zero():
            raise EvalError("division by zero")
        return self.norm(a.r / b.r)

    def powi(self, a: Num, k: int):
        if k < 0 and a.r.n.is_zero():
            raise EvalError("division by zero")
        return self.norm(a.r.pow(k))

    def is_const(self, v):
        return isinstance(v, Num) and v.r.d.is_const() and v.r.n.is_const()

    def cval(self, v):
        return v.r.n.const_value() / v.r.d.const_value()

    def is_zero(self, v: Num):
        return v.r.n.is_zero()

    def equal(self, a: Num, b: Num):
        return self.norm(a.r - b.r).r.n.is_zero()

    def single_atom(self, v):
        """the Atom if v is exactly one atom (coefficient 1), else None"""
        if not isinstance(v, Num) or not v.r.d.is_const() or v.r.d.const_value() != 1 or len(v.r.n.t) != 1:
            return None
        (m, c), = v.r.n.t.items()
        if c != 1 or len(m) != 1 or m[0][1] != 1:
            return None
        return self.by_id.get(m[0][0])

    def atoms_of(self, v: Num):
        return [self.by_id[a] for a in sorted(v.r.n.atoms() | v.r.d.atoms())]

    def dim_of(self, v):
        if isinstance(v, Num):
            ds = {self.by_id[a].dim for a in (v.r.n.atoms() | v.r.d.atoms())}
            ds.discard(None)
            ds.discard("1")
            if len(ds) == 1:
                return next(iter(ds))
            if not ds:
                ats = v.r.n.atoms() | v.r.d.atoms()
                if ats and all(self.by_id[a].dim == "1" for a in ats):
                    return "1"
            return None
        return None

    # ---- keys
    @staticmethod
    def _pkey(p: Poly):
        if not p.t:
            return "0"
        parts = []
        for m, c in sorted(p.t.items()):
            mon = "*".join(k if e == 1 else f"{k}^{e}" for k, e in m)
            parts.append(f"{c}" if not mon else (mon if c == 1 else f"{c}*{mon}"))
        return "+".join(parts)

    def nkey(self, v: Num):
        if v.k is None:
            v.k = self._pkey(v.r.n) if v.r.d == ONE else f"({self._pkey(v.r.n)})/({self._pkey(v.r.d)})"
        return v.k

    def subst(self, v: Num, mp: dict) -> Num:
        """substitute atoms (id -> Num) in a Num"""
        if not mp or not ((v.r.n.atoms() | v.r.d.atoms()) & set(mp)):
            return v

        def sp(p: Poly):
            res = Rat(Poly(), ONE)
            for m, c in p.t.items():
                term = Rat(Poly.const(c), ONE)
                for k, e in m:
                    if k in mp:
                        term = term * mp[k].r.pow(e)
                    else:
                        term = term * Rat(Poly({((k, e),): Fraction(1)}), ONE)
                res = res + term
            return res
        return self.norm(sp(v.r.n) / sp(v.r.d))

    def diff(self, v: Num, aid: str) -> Num:
        def dpoly(p: Poly) -> Rat:
            res = Rat(p.diff(aid), ONE)
            for alg, sq in self.rules.items():
                if p.degree_in(alg) > 0 and aid in sq.atoms():
                    res = res + Rat(p.diff(alg), ONE) * Rat(sq.diff(aid), Poly.const(2) * Poly.atom(alg))
            return res
        n, d = v.r.n, v.r.d
        return self.norm((dpoly(n) * Rat(d, ONE) - Rat(n, ONE) * dpoly(d)) / Rat(d * d, ONE))

    # ---- readable rendering
    def show(self, v, depth=6):
        if isinstance(v, Num):
            s = self.nkey(v)
            return self._expand_ids(s, depth)
        if isinstance(v, Bv):
            return self._expand_ids(fkey(v.f), depth)
        if isinstance(v, tuple):
            return "(" + ", ".join(self.show(x, depth) for x in v) + ")"
        return repr(v)

    def _expand_ids(self, s, depth):
        import re
        if depth <= 0:
            return s

        def rep(m):
            a = self.by_id.get(m.group(0))
            if a is None:
                return m.group(0)
            return self._expand_ids(a.key, depth - 1)
        return re.sub(r"@\d+", rep, s)


# ------------------------------------------------------------------------------------------------ machine: terms

FREE_RANGE_EXT = ("gmres", "cg", "bicgstab", "minres", "lgmres", "solve", "spsolve", "lstsq", "solve_triangular", "cho_solve",
                  "normal", "uniform", "rand", "randn")


class Terms(Algebra):
    """smart constructors of structured atoms"""

    def key(self, v) -> str:
        if isinstance(v, Num):
            return self.nkey(v)
        if isinstance(v, Bv):
            return "B{" + fkey(v.f) + "}"
        if v is None or isinstance(v, (bool, str)):
            return repr(v)
        if isinstance(v, (int, float)):
            return repr(v)
        if isinstance(v, tuple):
            return "(" + ",".join(self.key(x) for x in v) + ")"
        if isinstance(v, PyList):
            return "[" + ",".join(self.key(x) for x in v.items) + "]"
        if isinstance(v, PyDict):
            return "{" + ",".join(f"{self.key(k)}:{self.key(x)}" for k, x in sorted(v.items.items(), key=lambda kv: repr(kv[0]))) + "}"
        if isinstance(v, Rec):
            return v.nt.name + "(" + ",".join(self.key(x) for x in v.values) + ")"
        if isinstance(v, Closure):
            return self.closure_key(v)
        if isinstance(v, Bound):
            return "bound(" + self.key(v.recv) + ";" + self.key(v.fn) + ")"
        if isinstance(v, PartialV):
            return "partial(" + self.key(v.f) + ";" + ",".join(self.key(a) for a in v.args) + ";" + \
                ",".join(f"{k}={self.key(x)}" for k, x in sorted(v.kwargs.items())) + ")"
        if isinstance(v, GradFn):
            return f"{v.kind}[{self.key(v.f)};{v.argnums}]"
        if isinstance(v, VMapFn):
            return "vmap[" + self.key(v.f) + "]"
        if isinstance(v, ClassV):
            return "class:" + v.scope.qualname
        if isinstance(v, NTClass):
            return "nt:" + v.name
        if isinstance(v, ModuleV):
            return "module:" + v.module.name
        if isinstance(v, Ext):
            return "ext:" + v.name
        if isinstance(v, Obj):
            return self.obj_key(v)
        if isinstance(v, SliceV):
            return f"slice({self.key(v.lo)},{self.key(v.hi)},{self.key(v.step)})"
        if isinstance(v, RangeV):
            return f"range({self.key(v.lo)},{self.key(v.hi)},{self.key(v.step)})"
        if isinstance(v, NumMethod):
            return f"meth({self.key(v.base)}.{v.name})"
        if isinstance(v, ExcV):
            return f"exc:{v.name}"
        if isinstance(v, AtProxy):
            return f"at({self.key(v.base)})"
        if v is Ellipsis:
            return "..."
        if isinstance(v, GenV):
            return "gen:" + self.closure_key(v.closure)
        if isinstance(v, ElemWise):
            return "elemwise(" + self.key(v.v) + ")"
        if isinstance(v, MethodCaller):
            return f"{v.kind}({v.name};" + ",".join(self.key(a) for a in v.args) + ")"
        if isinstance(v, LazySeq):
            return "lazy(" + ",".join(self.key(a) for a in v.prefix) + ";" + self.key(v.tail) + ")"
        if isinstance(v, Guarded):
            return f"guarded({fkey(v.f)};{self.key(v.v)})"
        raise EvalError(f"no key for {type(v).__name__}")

    def closure_key(self, c: Closure):
        return f"clo:{c.scope.qualname}#{c.frame.fid if c.frame is not None else 0}"

    def obj_key(self, o: Obj):
        return f"obj:{o.label}"

    # ---- opaque applications
    def app(self, kind, fname, args, kwargs=(), dim=None, parts=None):
        k = f"{kind}:{fname}(" + ",".join(self.key(a) for a in args)
        if kwargs:
            k += ";" + ",".join(f"{n}={self.key(v)}" for n, v in sorted(kwargs))
        k += ")"
        return self.anum(self.atom(kind, k, parts if parts is not None else (fname, tuple(args), tuple(kwargs)), dim))

    def mk_attr(self, base: Num, name):
        return self.anum(self.atom("attr", f"attr({self.nkey(base)}.{name})", (base, name), None))

    def mk_item(self, base, idx, dim=None):
        return self.anum(self.atom("item", f"item({self.key(base)};{self.key(idx)})", (base, idx), dim))

    def mk_size(self, v):
        a = self.single_atom(v) if isinstance(v, Num) else None
        if a is not None and a.kind == "hs":
            tot = self.const(0)
            for p in a.parts[0]:
                tot = self.add(tot, self.mk_size(p))
            return tot
        d = self.dim_of(v)
        if d == "1":
            return self.const(1)
        if d is not None:
            return self.anum(self.atom("size", f"#{d}", (d,), "1"))
        return self.anum(self.atom("size", f"size({self.key(v)})", (v,), "1"))

    def mk_sqrt(self, v: Num):
        if self.is_const(v):
            c = self.cval(v)
            if c >= 0:
                n, d = math.isqrt(c.numerator), math.isqrt(c.denominator)
                if n * n == c.numerator and d * d == c.denominator:
                    return self.const(Fraction(n, d))
        if v.r.d != ONE:
            return self.div(self.mk_sqrt(Num(Rat(v.r.n, ONE))), self.mk_sqrt(Num(Rat(v.r.d, ONE))))
        if len(v.r.n.t) == 1:
            (m, c), = v.r.n.t.items()
            if c > 0 and m and all(e % 2 == 0 for _, e in m):
                n, d = math.isqrt(c.numerator), math.isqrt(c.denominator)
                if n * n == c.numerator and d * d == c.denominator:
                    # sqrt(q^2): |q|
                    return self.mk_abs(Num(Rat(Poly({tuple((k, e // 2) for k, e in m): Fraction(n, d)}), ONE)))
        a = self.atom("sqrt", f"sqrt({self.nkey(v)})", (v,), self.dim_of(v))
        self.rules[a.id] = v.r.n
        return self.anum(a)

    def mk_abs(self, v: Num):
        if self.is_const(v):
            return self.const(abs(self.cval(v)))
        a = self.single_atom(v)
        if a is not None and a.kind in ("abs", "sqrt", "n2", "size"):
            return v
        # canonical sign
        k1, k2 = self.nkey(v), self.nkey(self.neg(v))
        if k2 < k1:
            v = self.neg(v)
        return self.anum(self.atom("abs", f"abs({self.nkey(v)})", (v,), self.dim_of(v)))

    def mk_n2(self, v):
        """sum of squares of (the entries of) v"""
        if isinstance(v, Num) and self.is_const(v) and self.cval(v) == 0:
            return self.const(0)
        k1 = self.key(v)
        if isinstance(v, Num):
            k2 = self.nkey(self.neg(v))
            if k2 < k1:
                v, k1 = self.neg(v), k2
        return self.anum(self.atom("n2", f"n2({k1})", (v,), "1"))

    def mk_norm(self, v):
        return self.mk_sqrt(self.mk_n2(v))

    def mk_minmax(self, kind, a: Num, b: Num):
        if self.is_const(a) and self.is_const(b):
            return a if (self.cval(a) >= self.cval(b)) == (kind == "max") else b
        if self.equal(a, b):
            return a
        ks = sorted((self.nkey(a), self.nkey(b)))
        if ks[0] != self.nkey(a):
            a, b = b, a
        return self.anum(self.atom(kind, f"{kind}({ks[0]};{ks[1]})", (a, b), self.dim_of(a) or self.dim_of(b)))

    def mk_sel(self, f, a, b, facts=None):
        if f[0] == "c":
            return a if f[1] else b
        if facts is not None:
            t = facts.ev(f)
            if t is not None and not self._elementwise(f):
                return a if t else b
        if f[0] == "not":
            return self.mk_sel(f[1], b, a, facts)
        if isinstance(a, Num) and isinstance(b, Num):
            if self.nkey(a) == self.nkey(b) or self.equal(a, b):
                return a
            if f[0] in ("lt0", "le0"):
                # where(a < b, a, b) = minimum(a, b), where(a < b, b, a) = maximum(a, b)
                q = self.div(self.sub(a, b), f[2])
                if self.is_const(q) and self.cval(q) != 0:
                    return self.mk_minmax("min" if self.cval(q) > 0 else "max", a, b)
            if self._opaque_value(a) and self._opaque_value(b):
                # a choice between two opaque values (possibly objects): kept as one term, attributes distribute over it
                return self.anum(self.atom("sel", f"sel({fkey(f)};{self.nkey(a)};{self.nkey(b)})", (f, a, b),
                                           self.dim_of(a) or self.dim_of(b)))
            # numeric choice: b + [f]*(a - b) with the idempotent indicator [f] -- where(), mask arithmetic and merged branches coincide
            return self.add(b, self.mul(self.mk_ind(f), self.sub(a, b)))
        raise EvalError("select on non-numeric values")

    def _opaque_value(self, v: Num):
        a = self.single_atom(v)
        return a is not None and a.kind in ("sym", "hav", "app", "attr", "item", "new", "ext", "fb", "sel")

    def mk_ind(self, f) -> Num:
        """indicator (1 where f holds, else 0) of a formula"""
        if f[0] == "c":
            return self.const(1 if f[1] else 0)
        if f[0] == "not":
            return self.sub(self.const(1), self.mk_ind(f[1]))
        a = self.atom("ind", f"ind({fkey(f)})", (f,), None)
        if a.id not in self.rules:
            self.rules[a.id] = Poly.atom(a.id)         # [f]^2 = [f]
        return self.anum(a)

    def _elementwise(self, f):
        return False

    def mk_gm(self, v: Num, f):
        """v[mask]: gather distributes over the atoms of v"""
        mk = fkey(f)
        mp = {}
        for a in self.atoms_of(v):
            if a.kind == "gm" and a.parts[1] == mk:
                continue
            mp[a.id] = self.anum(self.atom("gm", f"gm({a.id};{mk})", (a.id, mk, f), None))
        return self.subst(v, mp)

    def ungm(self, v: Num, f):
        """inverse of mk_gm w.r.t. the same mask; None if v mentions a gather by another mask"""
        mk = fkey(f)
        mp = {}
        for a in self.atoms_of(v):
            if a.kind == "gm":
                if a.parts[1] != mk:
                    return None
                mp[a.id] = self.anum(self.by_id[a.parts[0]])
        return self.subst(v, mp)

    def mk_hs(self, parts):
        parts = tuple(parts)
        flat = []
        for p in parts:
            a = self.single_atom(p)
            if a is not None and a.kind == "hs":
                flat.extend(a.parts[0])
            else:
                flat.append(p)
        if len(flat) == 1:
            return flat[0]
        return self.anum(self.atom("hs", "hs(" + ";".join(self.nkey(p) for p in flat) + ")", (tuple(flat),), None))

    def hs_slice(self, a: Atom, sl: SliceV):
        """structural slicing of an hstack by symbolic block sizes; None if the bounds do not fall on block boundaries"""
        parts = a.parts[0]
        sizes = [self.mk_size(p) for p in parts]
        n = len(parts)
        if sl.step is not None:
            return None

        def prefix_len(e):      # number of leading blocks whose sizes add up to e
            tot = self.const(0)
            if self.is_zero(e):
                return 0
            for i in range(n):
                tot = self.add(tot, sizes[i])
                if self.equal(tot, e):
                    return i + 1
            return None

        def suffix_len(e):
            tot = self.const(0)
            if self.is_zero(e):
                return 0
            for i in range(n):
                tot = self.add(tot, sizes[n - 1 - i])
                if self.equal(tot, e):
                    return i + 1
            return None

        def bound(e, default):
            if e is None:
                return default
            if not isinstance(e, Num):
                return None
            k = prefix_len(e)
            if k is not None:
                return k
            k = suffix_len(self.neg(e))
            if k is not None:
                return n - k
            return None
        lo, hi = bound(sl.lo, 0), bound(sl.hi, n)
        if lo is None or hi is None or lo > hi:
            return None
        sub = parts[lo:hi]
        if not sub:
            return None
        return self.mk_hs(sub)

    # ---- comparisons
    def cmp_formula(self, op, a, b):
        """op in Lt LtE Gt GtE Eq NotEq on two Num"""
        d = self.sub(a, b)
        if self.is_const(d):
            c = self.cval(d)
            return ("c", {"Lt": c < 0, "LtE": c <= 0, "Gt": c > 0, "GtE": c >= 0, "Eq": c == 0, "NotEq": c != 0}[op])
        r = d.r
        if not r.d.is_const():
            s = self.sign_known(Num(Rat(r.d, ONE)))
            if s == 1:
                r = Rat(r.n, ONE)
            elif s == -1:
                r = Rat(-r.n, ONE)
            else:
                k = self.nkey(d)
                base = ("t", f"{op}0[{k}]")
                return base
        p = r.n
        lead = p.t[max(p.t)]
        flip = lead < 0
        sc = abs(lead)
        p = Poly({m: (-c if flip else c) / sc for m, c in p.t.items()})
        dn = Num(Rat(p, ONE))
        dk = self.nkey(dn)
        if op in ("Eq", "NotEq"):
            f = ("eq0", dk, dn)
            return f if op == "Eq" else f_not(f)
        if flip:
            op = {"Lt": "Gt", "LtE": "GtE", "Gt": "Lt", "GtE": "LtE"}[op]
        if op == "Lt":
            return ("lt0", dk, dn)
        if op == "LtE":
            return ("le0", dk, dn)
        if op == "Gt":
            return f_not(("le0", dk, dn))
        return f_not(("lt0", dk, dn))

    def sign_known(self, v: Num):
        """+1 / -1 when the sign of v is known from atom domains alone (used to clear denominators), else None"""
        if self.is_const(v):
            c = self.cval(v)
            return 1 if c > 0 else (-1 if c < 0 else 0)
        if v.r.d != ONE:
            return None
        sg = None
        for m, c in v.r.n.t.items():
            for k, e in m:
                if e % 2 and not self.atom_positive(self.by_id[k]):
                    return None
            s = 1 if c > 0 else -1
            if sg is None:
                sg = s
            elif sg != s:
                return None
        return sg

    def atom_positive(self, a: Atom):
        d = self.domain.get(a.id)
        if d == "pos" or (isinstance(d, tuple) and d[0] == "ge" and d[1] > 0):
            return True
        if a.kind == "gm":
            return self.atom_positive(self.by_id[a.parts[0]])
        return False

    def atom_nonneg(self, a: Atom):
        if self.atom_positive(a) or self.domain.get(a.id) in ("nonneg", "count"):
            return True
        if a.kind in ("abs", "sqrt", "n2", "size", "ind"):
            return True
        if a.kind == "gm":
            return self.atom_nonneg(self.by_id[a.parts[0]])
        if a.kind == "max":
            return any(self.nonneg(x) for x in a.parts)
        if a.kind == "min":
            return all(self.nonneg(x) for x in a.parts)
        if a.kind == "sel":
            return self.nonneg(a.parts[1]) and self.nonneg(a.parts[2])
        if a.kind == "sum":
            return isinstance(a.parts[0], Num) and self.nonneg(a.parts[0])
        return False

    def _shift_lower_bounds(self, v: Num):
        mp = {}
        for a in self.atoms_of(v):
            d = self.domain.get(a.id)
            if isinstance(d, tuple) and d[0] == "ge" and d[1] != 0:
                sh = self.atom("shift", f"shift({a.id})", (a.id,), a.dim)
                self.domain[sh.id] = "nonneg"
                mp[a.id] = self.add(self.const(d[1]), self.anum(sh))
        return self.subst(v, mp)

    def nonneg(self, v: Num, depth=0, hyps=()):
        """sufficient syntactic proof of v >= 0 (element-wise) from atom domains; case split on select / indicator atoms, in each case
        the case's own condition (a sign of a difference d) may be used: v = q*d with a constant q"""
        if self.is_const(v):
            return self.cval(v) >= 0
        if depth < 6:
            for a in self.atoms_of(v):
                if a.kind == "sel" and isinstance(a.parts[1], Num):
                    f = a.parts[0]
                    return self.nonneg(self.subst(v, {a.id: a.parts[1]}), depth + 1, hyps + ((f, True),)) and \
                        self.nonneg(self.subst(v, {a.id: a.parts[2]}), depth + 1, hyps + ((f, False),))
                if a.kind == "ind":
                    f = a.parts[0]
                    return self.nonneg(self.subst(v, {a.id: self.const(1)}), depth + 1, hyps + ((f, True),)) and \
                        self.nonneg(self.subst(v, {a.id: self.const(0)}), depth + 1, hyps + ((f, False),))
                if a.kind == "mulmask":
                    # entries are 1 or the factor
                    return self.nonneg(self.subst(v, {a.id: self.const(1)}), depth + 1, hyps) and \
                        self.nonneg(self.subst(v, {a.id: a.parts[1]}), depth + 1, hyps)
        for f, val in hyps:
            g = f
            if g[0] == "not":
                g, val = g[1], not val
            if g[0] in ("lt0", "le0") and not self.is_zero(g[2]):
                q = self.div(v, g[2])
                if self.is_const(q):
                    # d < 0 / d <= 0 holds (val) or d >= 0 / d > 0 holds (not val)
                    if (self.cval(q) <= 0) == bool(val) or self.cval(q) == 0:
                        return True
        v = self._shift_lower_bounds(v)
        if v.r.d != ONE:
            sd = self.sign_known(Num(Rat(v.r.d, ONE)))
            if sd is None:
                # denominator may still be a product of non-negative atoms
                if not self._poly_nonneg(v.r.d):
                    return False
            elif sd < 0:
                return self._poly_nonneg(-v.r.n)
        return self._poly_nonneg(v.r.n)

    def _poly_nonneg(self, p: Poly):
        for m, c in p.t.items():
            if c < 0:
                return False
            for k, e in m:
                if e % 2 and not self.atom_nonneg(self.by_id[k]):
                    return False
        return True


# ------------------------------------------------------------------------------------------------ machine: interpreter

_IDENT = {"array", "asarray", "copy", "float64", "float32", "double", "ravel", "flatten", "squeeze", "atleast_1d", "astype",
          "jit", "checkpoint", "device_put", "stop_gradient", "real", "asanyarray", "ascontiguousarray", "block_until_ready",
          "custom_jvp", "custom_vjp", "filter_jit", "deepcopy", "reshape", "transpose"}
_GRAD = {"grad": "D", "jacfwd": "D", "jacrev": "D", "jacobian": "D", "hessian": "H", "value_and_grad": "VG"}
_EXC = {"Exception", "NameError", "ValueError", "RuntimeError", "TypeError", "AssertionError", "ArithmeticError", "FloatingPointError",
        "NotImplementedError", "KeyError", "IndexError", "StopIteration", "ZeroDivisionError", "OverflowError"}


class Machine(Terms):
    def __init__(self, repo, inline_modules=(), effects=None, max_paths=4000, max_steps=3_000_000, max_depth=40):
        super().__init__()
        self.repo = repo
        self.inline_modules = set(inline_modules)
        self.effects = effects              # callable: Scope -> set of attribute names possibly written in its cone
        self.max_paths, self.max_steps, self.max_depth = max_paths, max_steps, max_depth
        self.steps = 0
        self.st = None
        self.dec = None
        self.depth = 0
        self.fid = 0
        self.oid = 0
        self.stamp = 0
        self.trial = 0                      # nesting of merge trials
        self.snap_frames = []               # stack of frame-id sets protected by a snapshot
        self.loops = {}                     # loop id -> LoopInfo
        self.phase = None
        self.cuts = None
        self.visited = {}                   # qualname -> Scope of interpreted functions
        self.opaque_repo = {}               # qualname -> reason
        self.notes = []
        self._glob = {}
        self._modframes = {}
        self.observer = None
        self.assumptions = []               # (formula, bool) installed in every path
        self.ext_unknown = set()
        self.frame_stack = []
        self.gen_depth = 0
        self.installed = set()
        self.cut_loops = set()
        self.yield_handlers = []
        self._isgen = {}
        self._classbody = {}
        self.class_frames = {}             # id(class scope) -> frame in which a nested class was defined

    # ---- bookkeeping
    def tick(self):
        self.steps += 1
        if self.steps > self.max_steps:
            raise Budget("step budget exhausted")

    def new_frame(self, vars_, parent, scope):
        self.fid += 1
        return Frame(vars_, parent, scope, self.fid)

    def new_obj(self, cls, label):
        self.oid += 1
        o = Obj(cls, self.oid, f"{label}#{self.oid}")
        self.st.heap[o.oid] = {}
        return o

    def new_list(self, items):
        self.stamp += 1
        return PyList(items, self.stamp)

    # ---- truth / decisions
    def truthf(self, v):
        if isinstance(v, Bv):
            return v.f
        if isinstance(v, bool):
            return ("c", v)
        if v is None:
            return F_FALSE
        if isinstance(v, Num):
            if self.is_const(v):
                return ("c", self.cval(v) != 0)
            return ("t", "nz:" + self.nkey(v))
        if isinstance(v, (str, tuple)):
            return ("c", len(v) > 0)
        if isinstance(v, PyList):
            return ("c", len(v.items) > 0)
        if isinstance(v, PyDict):
            return ("c", len(v.items) > 0)
        if isinstance(v, RangeV):
            raise EvalError("truth of symbolic range")
        return F_TRUE

    def decide(self, f):
        """truth value of a formula on this path; forks (through the decider) on undecided atoms"""
        t = self.st.facts.ev(f)
        if t is not None:
            return t
        k = f[0]
        if k == "not":
            return not self.decide(f[1])
        if k in ("and", "or"):
            for g in f[1]:
                v = self.decide(g)
                if k == "and" and not v:
                    return False
                if k == "or" and v:
                    return True
            return k == "and"
        v = self.dec.choose(fkey(f))
        self.st.facts.assume(f, v)
        return v

    def truth(self, v):
        return self.decide(self.truthf(v))

    # ---- names
    def module_frame(self, module):
        fr = self._modframes.get(module.name)
        if fr is None:
            fr = self._modframes[module.name] = Frame({}, None, module.scope, 0)
        return fr

    def lookup(self, name, frame):
        fr = frame
        while fr is not None:
            sc = fr.scope
            if sc.kind != "module":
                if name in sc.globals_:
                    break
                if name in fr.vars and name not in sc.nonlocals_:
                    v = fr.vars[name]
                    return self.unguard(v, name) if isinstance(v, Guarded) else v
            fr = fr.parent
        # module level
        module = frame.scope.module
        return self.module_global(name, module)

    def unguard(self, g, name):
        t = self.st.facts.ev(g.f)
        if t is True:
            return g.v
        if self.trial:
            raise _NoMerge(f"conditionally defined {name}")
        raise EvalError(f"{name} is defined only on some paths")

    def module_global(self, name, module, _seen=()):
        k = (module.name, name)
        if k in self._glob:
            return self._glob[k]
        if k in _seen:
            raise EvalError(f"cyclic global {name}")
        ms = module.scope
        bs = ms.bindings.get(name)
        src_mod = module
        if not bs:
            s2, bs = self.repo.star_lookup(name, module)
            if s2 is not None:
                src_mod = s2.module
                return self.module_global(name, src_mod, _seen + (k,))
            if hasattr(__import__("builtins"), name):
                v = Ext("builtins." + name)
                self._glob[k] = v
                return v
            raise EvalError(f"unbound name {name} in {module.name}")
        b = bs[-1]
        v = self._binding_value(name, b, module, _seen + (k,))
        self._glob[k] = v
        return v

    def _binding_value(self, name, b, module, _seen):
        if b.kind == "def":
            return self.decorated(Closure(b.extra, self.module_frame(module)), b.extra, self.module_frame(module))
        if b.kind == "class":
            return self.class_value(b.extra)
        if b.kind == "import":
            m = self.repo.modules.get(b.extra)
            return ModuleV(m) if m is not None else Ext(b.extra)
        if b.kind == "importfrom":
            modname, attr, level = b.extra
            if level:
                base = module.name.rsplit(".", level)[0]
                modname = base + ("." + modname if modname else "")
            full = f"{modname}.{attr}"
            if full in self.repo.modules:
                return ModuleV(self.repo.modules[full])
            m = self.repo.modules.get(modname)
            if m is not None:
                return self.module_global(attr, m, _seen)
            return Ext(full)
        if b.kind in ("assign", "walrus", "aug") and b.value is not None:
            saved = (self.st, self.dec)
            if self.st is None:
                self.st = State()
            dec0 = self.dec
            self.dec = NoFork()
            try:
                v = self.eval(b.value, self.module_frame(module))
            except _NeedFork:
                raise EvalError(f"module global {name} needs a decision")
            finally:
                self.st, self.dec = saved[0], dec0
            if b.index:
                for i in b.index:
                    v = self.getitem(v, self.const(i))
            return v
        raise EvalError(f"module binding {name} of kind {b.kind}")

    def decorated(self, clo, scope, frame):
        """apply the decorators of a module level / class level definition (property, staticmethod, classmethod and setters are
        handled where members are looked up)"""
        decos = getattr(scope.node, "decorator_list", [])
        if not decos:
            return clo
        v = clo
        saved = (self.st, self.dec)
        if self.st is None:
            self.st = State()
            self.dec = NoFork()
        try:
            for d in reversed(decos):
                nm = d.id if isinstance(d, ast.Name) else (d.attr if isinstance(d, ast.Attribute) else "")
                if nm in ("property", "staticmethod", "classmethod", "setter", "getter", "deleter", "abstractmethod"):
                    continue
                v = self.call(self.eval(d, frame), [v], {})
        finally:
            self.st, self.dec = saved
        return v

    def class_value(self, scope):
        # NamedTuple-style classes are record types
        for base in scope.node.bases:
            d = base.attr if isinstance(base, ast.Attribute) else (base.id if isinstance(base, ast.Name) else "")
            if d == "NamedTuple":
                fields, defaults = [], []
                for st in scope.node.body:
                    if isinstance(st, ast.AnnAssign) and isinstance(st.target, ast.Name):
                        fields.append(st.target.id)
                        if st.value is not None:
                            defaults.append(self.eval(st.value, self.module_frame(scope.module)))
                return NTClass(scope.name, fields, defaults)
        return ClassV(scope)

    def assign_name(self, name, v, frame):
        sc = frame.scope
        if name in sc.nonlocals_:
            fr = frame.parent
            while fr is not None and fr.scope.kind != "module":
                if name in fr.vars:
                    if self.snap_frames and fr.fid not in self.snap_frames[-1]:
                        raise _NoMerge("nonlocal write outside the snapshot")
                    fr.vars[name] = v
                    return
                fr = fr.parent
            raise EvalError(f"nonlocal {name} not found")
        if name in sc.globals_:
            raise EvalError("assignment to a global")
        frame.vars[name] = v

    # ---- expressions
    def eval(self, e, fr):
        self.tick()
        m = getattr(self, "e_" + type(e).__name__, None)
        if m is None:
            raise EvalError(f"expression {type(e).__name__}")
        return m(e, fr)

    def e_Constant(self, e, fr):
        v = e.value
        if isinstance(v, bool) or v is None or isinstance(v, str) or v is Ellipsis:
            return v
        if isinstance(v, (int, float)):
            if isinstance(v, float) and (v != v or v in (float("inf"), float("-inf"))):
                return self.sym(repr(v), "1")
            return self.const(v)
        raise EvalError(f"constant {v!r}")

    def e_Name(self, e, fr):
        return self.lookup(e.id, fr)

    def e_Tuple(self, e, fr):
        out = []
        for x in e.elts:
            if isinstance(x, ast.Starred):
                out.extend(self.iterate(self.eval(x.value, fr)))
            else:
                out.append(self.eval(x, fr))
        return tuple(out)

    def e_List(self, e, fr):
        return self.new_list(self.e_Tuple(e, fr))

    def e_Dict(self, e, fr):
        items = {}
        for k, v in zip(e.keys, e.values):
            if k is None:
                d = self.eval(v, fr)
                if not isinstance(d, PyDict):
                    raise EvalError("** of a non-dict")
                items.update(d.items)
            else:
                items[self.hashable(self.eval(k, fr))] = self.eval(v, fr)
        self.stamp += 1
        return PyDict(items, self.stamp)

    def hashable(self, k):
        if isinstance(k, Num) and self.is_const(k):
            c = self.cval(k)
            return int(c) if c.denominator == 1 else float(c)
        if isinstance(k, (str, bool, int)) or k is None:
            return k
        if isinstance(k, tuple):
            return tuple(self.hashable(x) for x in k)
        raise EvalError("symbolic dictionary key")

    def e_JoinedStr(self, e, fr):
        return "<fstring>"

    def e_Lambda(self, e, fr):
        return self.make_closure(e, fr)

    def make_closure(self, node, fr):
        sc = self.repo.scope_of(node)
        if sc is None:
            raise EvalError("scope of nested function not found")
        a = node.args
        defaults = [self.eval(d, fr) for d in a.defaults]
        kwd = {x.arg: self.eval(d, fr) for x, d in zip(a.kwonlyargs, a.kw_defaults) if d is not None}
        return Closure(sc, fr, defaults, kwd)

    def e_IfExp(self, e, fr):
        f = self.cond(e.test, fr)
        t = self.st.facts.ev(f)
        if t is None:
            snap = self.snapshot(fr)
            try:
                a = self._trial_expr(e.body, fr, f, True)
                self.restore(snap)
                b = self._trial_expr(e.orelse, fr, f, False)
                self.restore(snap)
                try:
                    return self.merge_val(f, a, b)
                except _NoMerge:
                    pass
            except (_NeedFork, _NoMerge):
                self.restore(snap)
            finally:
                self.drop_snapshot(snap)
            t = self.decide(f)
        return self.eval(e.body if t else e.orelse, fr)

    def _trial_expr(self, e, fr, f, val):
        saved = (self.dec, self.st.facts, self.st.guards)
        self.dec = NoFork()
        self.st.facts = self.st.facts.copy()
        self.st.facts.assume(f, val, log=False)
        self.st.guards = self.st.guards + ((f, val),)
        self.trial += 1
        try:
            return self.eval(e, fr)
        finally:
            self.trial -= 1
            self.dec, self.st.facts, self.st.guards = saved

    def e_UnaryOp(self, e, fr):
        if isinstance(e.op, ast.Not):
            return self.bool_value(f_not(self.cond(e.operand, fr)))
        v = self.eval(e.operand, fr)
        if isinstance(e.op, ast.USub):
            return self.neg(self.num(v))
        if isinstance(e.op, ast.UAdd):
            return self.num(v)
        if isinstance(e.op, ast.Invert):
            if isinstance(v, (Bv, bool)):
                return self.bool_value(f_not(self.truthf(v)))
            raise EvalError("~ on a number")
        raise EvalError("unary operator")

    def bool_value(self, f):
        # the formula is kept even when the path decides it: the same expression may be used as an element-wise mask
        return f[1] if f[0] == "c" else Bv(f)

    def cond(self, e, fr):
        """formula of an expression used as a condition (no fork)"""
        if isinstance(e, ast.BoolOp):
            fs = []
            isand = isinstance(e.op, ast.And)
            for i, x in enumerate(e.values):
                f = self.cond(x, fr)
                t = self.st.facts.ev(f)
                if t is None and i + 1 < len(e.values) and not all(self.pure_expr(y, fr) for y in e.values[i + 1:]):
                    # the remaining operands have effects: python's short circuit must be followed on this path
                    t = self.decide(f)
                if isand and t is False:
                    return f_and(*fs, F_FALSE)
                if not isand and t is True:
                    return f_or(*fs, F_TRUE)
                fs.append(f)
            return f_and(*fs) if isand else f_or(*fs)
        if isinstance(e, ast.UnaryOp) and isinstance(e.op, ast.Not):
            return f_not(self.cond(e.operand, fr))
        return self.truthf(self.eval(e, fr))

    def pure_expr(self, e, fr):
        """evaluating e has no effect on the state: no calls except of external (numpy-like) functions and methods of values"""
        for n in ast.walk(e):
            if isinstance(n, (ast.NamedExpr, ast.Lambda, ast.ListComp, ast.GeneratorExp, ast.Await, ast.Yield)):
                return False
            if isinstance(n, ast.Call):
                f = n.func
                g = f
                while isinstance(g, ast.Attribute):
                    g = g.value
                if not isinstance(g, ast.Name):
                    return False
                try:
                    v = self.eval(f, fr)
                except (EvalError, _NoMerge):
                    return False
                if not isinstance(v, (Ext, NumMethod)):
                    return False
                if isinstance(v, NumMethod) and isinstance(v.base, (PyList, PyDict)):
                    return False
        return True

    def e_BoolOp(self, e, fr):
        # value context: python semantics with decisions; in practice operands are conditions
        vals = []
        isand = isinstance(e.op, ast.And)
        for i, x in enumerate(e.values):
            v = self.eval(x, fr)
            if i == len(e.values) - 1:
                vals.append(v)
                break
            f = self.truthf(v)
            t = self.st.facts.ev(f)
            if t is None and all(self.pure_expr(y, fr) for y in e.values[i + 1:]):
                # all boolean-like: build a formula instead of forking
                rest = [self.eval(y, fr) for y in e.values[i + 1:]]
                allv = vals + [v] + rest
                if all(isinstance(z, (Bv, bool)) or (isinstance(z, Num)) for z in allv):
                    fs = [self.truthf(z) for z in allv]
                    return self.bool_value(f_and(*fs) if isand else f_or(*fs))
            if t is None:
                t = self.decide(f)
            if t != isand:
                return v
            vals.append(v)
        return vals[-1]

    def num(self, v):
        if isinstance(v, Num):
            return v
        if isinstance(v, bool):
            return self.const(1 if v else 0)
        if isinstance(v, Bv):
            t = self.st.facts.ev(v.f) if self.st is not None else None
            return self.const(1 if t else 0) if t is not None else self.mk_ind(v.f)
        if isinstance(v, (int, float, Fraction)):
            return self.const(v)
        raise EvalError(f"not a number: {type(v).__name__}")

    def e_BinOp(self, e, fr):
        a = self.eval(e.left, fr)
        b = self.eval(e.right, fr)
        return self.binop(e.op, a, b)

    def binop(self, op, a, b):
        if isinstance(op, (ast.BitAnd, ast.BitOr)) and isinstance(a, (Bv, bool)) and isinstance(b, (Bv, bool)):
            fa, fb = self.truthf(a), self.truthf(b)
            return self.bool_value(f_and(fa, fb) if isinstance(op, ast.BitAnd) else f_or(fa, fb))
        if isinstance(op, ast.Add):
            if isinstance(a, tuple) and isinstance(b, tuple):
                return a + b
            if isinstance(a, PyList) and isinstance(b, PyList):
                return self.new_list(a.items + b.items)
            if isinstance(a, str) and isinstance(b, str):
                return a + b
        if isinstance(a, str) or isinstance(b, str):
            if isinstance(op, (ast.Mod, ast.Mult)):
                return "<str>"
        if isinstance(op, ast.Mult):
            for x, y in ((a, b), (b, a)):
                if isinstance(x, (tuple, PyList)) and isinstance(y, Num) and self.is_const(y):
                    n = int(self.cval(y))
                    return x * n if isinstance(x, tuple) else self.new_list(x.items * n)
                if isinstance(x, (Bv,)) and isinstance(y, Num):
                    return self.mk_sel(x.f, y, self.const(0), self.st.facts)
        a, b = self.num(a), self.num(b)
        if isinstance(op, ast.Add):
            return self.add(a, b)
        if isinstance(op, ast.Sub):
            return self.sub(a, b)
        if isinstance(op, ast.Mult):
            return self.mul(a, b)
        if isinstance(op, ast.Div):
            return self.div(a, b)
        if isinstance(op, ast.Pow):
            return self.power(a, b)
        if isinstance(op, ast.MatMult):
            return self.dot(a, b)
        if isinstance(op, (ast.FloorDiv, ast.Mod)):
            if self.is_const(a) and self.is_const(b) and self.cval(b) != 0:
                x, y = self.cval(a), self.cval(b)
                return self.const(x // y if isinstance(op, ast.FloorDiv) else x % y)
            return self.app("op", "floordiv" if isinstance(op, ast.FloorDiv) else "mod", (a, b))
        raise EvalError(f"operator {type(op).__name__}")

    def power(self, a: Num, b: Num):
        if self.is_const(b):
            c = self.cval(b)
            if c.denominator == 1 and abs(c) <= 12:
                return self.powi(a, int(c))
            if c.denominator == 2 and abs(c.numerator) <= 12:
                s = self.mk_sqrt(a)
                return self.powi(s, int(c.numerator))
            if self.is_const(a) and self.cval(a) > 0:
                try:
                    return self.const(Fraction(float(self.cval(a)) ** float(c)).limit_denominator(10**12))
                except (OverflowError, ValueError):
                    pass
        return self.app("op", "pow", (a, b), dim=self.dim_of(a))

    def dot(self, a: Num, b: Num):
        if self.equal(a, b):
            return self.mk_n2(a)
        ka, kb = sorted((self.nkey(a), self.nkey(b)))
        return self.anum(self.atom("op", f"dot({ka};{kb})", ("dot", (a, b)), "1"))

    def e_Compare(self, e, fr):
        left = self.eval(e.left, fr)
        fs = []
        for op, c in zip(e.ops, e.comparators):
            right = self.eval(c, fr)
            fs.append(self.compare(op, left, right))
            left = right
        return self.bool_value(f_and(*fs))

    def compare(self, op, a, b):
        opn = type(op).__name__
        if opn in ("Is", "IsNot", "Eq", "NotEq"):
            eq = opn in ("Is", "Eq")
            for x, y in ((a, b), (b, a)):
                if x is None:
                    if y is None:
                        f = F_TRUE
                    elif isinstance(y, Num) and self.single_atom(y) is not None and not self.is_const(y):
                        f = ("t", "isnone:" + self.nkey(y))
                    else:
                        f = F_FALSE
                    return f if eq else f_not(f)
            for x, y in ((a, b), (b, a)):
                # flag == True / flag is False on a symbolic flag: its truth value
                if isinstance(x, bool) and isinstance(y, Num) and not self.is_const(y):
                    f = self.truthf(y)
                    return f if (x == eq) else f_not(f)
            if isinstance(a, (str, bool)) and isinstance(b, (str, bool)) and not (isinstance(a, Bv) or isinstance(b, Bv)):
                if isinstance(a, bool) != isinstance(b, bool):
                    pass
                else:
                    return ("c", (a == b) == eq)
            if isinstance(a, str) or isinstance(b, str):
                if isinstance(a, str) and isinstance(b, str):
                    return ("c", (a == b) == eq)
                return ("c", not eq)
            if isinstance(a, (Bv, bool)) and isinstance(b, (Bv, bool)):
                fa, fb = self.truthf(a), self.truthf(b)
                f = f_or(f_and(fa, fb), f_and(f_not(fa), f_not(fb)))
                return f if eq else f_not(f)
            if isinstance(a, (Num, bool, Bv)) and isinstance(b, (Num, bool, Bv)):
                return self.cmp_formula("Eq" if eq else "NotEq", self.num(a), self.num(b))
            if isinstance(a, tuple) and isinstance(b, tuple):
                if len(a) != len(b):
                    return ("c", not eq)
                f = f_and(*[self.compare(ast.Eq(), x, y) for x, y in zip(a, b)])
                return f if eq else f_not(f)
            ka, kb = self.key(a), self.key(b)
            return ("c", (ka == kb) == eq)
        if opn in ("In", "NotIn"):
            items = self.iterate(b)
            f = f_or(*[self.compare(ast.Eq(), a, x) for x in items])
            return f if opn == "In" else f_not(f)
        return self.cmp_formula(opn, self.num(a), self.num(b))

    def e_NamedExpr(self, e, fr):
        v = self.eval(e.value, fr)
        self.assign_name(e.target.id, v, fr)
        return v

    def e_Starred(self, e, fr):
        raise EvalError("starred expression")

    def e_Slice(self, e, fr):
        ev = lambda x: None if x is None else self.eval(x, fr)
        return SliceV(ev(e.lower), ev(e.upper), ev(e.step))

    def e_ListComp(self, e, fr):
        r = self._comp(e, fr)
        return r if isinstance(r, ElemWise) else self.new_list(r)

    def e_GeneratorExp(self, e, fr):
        r = self._comp(e, fr)
        return r if isinstance(r, ElemWise) else tuple(r)

    def e_SetComp(self, e, fr):
        r = self._comp(e, fr)
        return r if isinstance(r, ElemWise) else tuple(r)

    def e_Set(self, e, fr):
        return self.e_Tuple(e, fr)

    def e_DictComp(self, e, fr):
        sc = self.repo.scope_of(e)
        cf = self.new_frame({}, fr, sc) if sc is not None else fr
        out = {}

        def rec(i):
            if i == len(e.generators):
                out[self.hashable(self.eval(e.key, cf))] = self.eval(e.value, cf)
                return
            g = e.generators[i]
            for x in self.iterate(self.eval(g.iter, cf if i else fr)):
                self.assign(g.target, x, cf)
                if all(self.truth(self.eval(c, cf)) for c in g.ifs):
                    rec(i + 1)
        rec(0)
        self.stamp += 1
        return PyDict(out, self.stamp)

    def _comp(self, e, fr):
        sc = self.repo.scope_of(e)
        cf = self.new_frame({}, fr, sc if sc is not None else fr.scope)
        if sc is None:
            cf = fr
        out = []
        if len(e.generators) == 1 and not e.generators[0].ifs:
            src = self.eval(e.generators[0].iter, fr)
            if isinstance(src, (Num, Bv)) and not isinstance(src, bool):
                # over the entries of an array: the element expression for the generic entry
                self.assign(e.generators[0].target, src, cf)
                return ElemWise(self.eval(e.elt, cf))

        def rec(i):
            if i == len(e.generators):
                out.append(self.eval(e.elt, cf))
                return
            g = e.generators[i]
            for x in self.iterate(self.eval(g.iter, cf if i else fr)):
                self.assign(g.target, x, cf)
                if all(self.truth(self.eval(c, cf)) for c in g.ifs):
                    rec(i + 1)
        rec(0)
        return out

    def e_Subscript(self, e, fr):
        base = self.eval(e.value, fr)
        idx = self.eval(e.slice, fr)
        return self.getitem(base, idx)

    def const_int(self, v):
        if isinstance(v, Num) and self.is_const(v):
            c = self.cval(v)
            if c.denominator == 1:
                return int(c)
        if isinstance(v, bool):
            return int(v)
        return None

    def getitem(self, base, idx):
        if isinstance(base, AtProxy):
            return AtProxy(base.base, idx, True)
        if isinstance(base, PyList):
            base_seq = tuple(base.items)
        elif isinstance(base, Rec):
            base_seq = base.values
        else:
            base_seq = base if isinstance(base, tuple) else None
        if base_seq is not None:
            if isinstance(idx, SliceV):
                lo, hi, st_ = (None if x is None else self.const_int(x) for x in (idx.lo, idx.hi, idx.step))
                if any(x is not None and y is None for x, y in ((idx.lo, lo), (idx.hi, hi), (idx.step, st_))):
                    raise EvalError("symbolic slice of a python sequence")
                r = base_seq[slice(lo, hi, st_)]
                return self.new_list(r) if isinstance(base, PyList) else tuple(r)
            i = self.const_int(idx)
            if i is not None:
                try:
                    return base_seq[i]
                except IndexError:
                    raise EvalError("index out of range")
            if isinstance(idx, (Bv, bool)) and len(base_seq) == 2:
                return self.merge_or_pick(self.truthf(idx), base_seq[1], base_seq[0])
            if all(isinstance(x, Num) for x in base_seq) and isinstance(idx, Num):
                return self.mk_item(tuple(base_seq), idx)
            # symbolic index into a sequence of arbitrary values: an opaque element
            return self.mk_item(tuple(base_seq), idx) if isinstance(idx, Num) else self._bad("index")
        if isinstance(base, PyDict):
            if isinstance(idx, Bv):
                t = self.truth(idx)
                idx = t
            k = self.hashable(idx)
            if k in base.items:
                return base.items[k]
            if isinstance(k, bool) and int(k) in base.items:
                return base.items[int(k)]
            raise EvalError("missing dictionary key")
        if isinstance(base, str):
            return "<str>"
        if isinstance(base, (Bv, bool)):
            base = self.num(base)
        if isinstance(base, Num):
            if isinstance(idx, (Bv,)):
                return self.mk_gm(base, idx.f)
            if idx is Ellipsis or (isinstance(idx, SliceV) and idx.lo is None and idx.hi is None and idx.step is None):
                return base
            a = self.single_atom(base)
            if a is not None and a.kind == "hs" and isinstance(idx, SliceV):
                r = self.hs_slice(a, idx)
                if r is not None:
                    return r
                if idx.step is None and all(b is None or (isinstance(b, Num) and all(x.kind == "size" for x in self.atoms_of(b)))
                                            for b in (idx.lo, idx.hi)):
                    # bounds are known sizes that do not fall on the block boundaries: a definite, different piece of the stack
                    return self.anum(self.atom("hspart", f"hspart({self.nkey(base)};{self.key(idx)})", (base, idx), None))
            dim = None
            if isinstance(idx, SliceV) and idx.lo is None and idx.step is None and isinstance(idx.hi, Num):
                sa = self.single_atom(idx.hi)
                if sa is not None and sa.kind == "size" and isinstance(sa.parts[0], str):
                    dim = sa.parts[0]
            if isinstance(idx, Num) and self.dim_of(idx) is not None:
                dim = self.dim_of(idx)
            return self.mk_item(base, idx, dim)
        raise EvalError(f"subscript of {type(base).__name__}")

    def _bad(self, what):
        raise EvalError(what)

    def merge_or_pick(self, f, a, b):
        t = self.st.facts.ev(f)
        if t is not None:
            return a if t else b
        try:
            return self.merge_val(f, a, b)
        except _NoMerge:
            return a if self.decide(f) else b

    # ---- attributes
    def e_Attribute(self, e, fr):
        base = self.eval(e.value, fr)
        return self.getattr(base, e.attr)

    def class_mro(self, cls):
        if cls is None:
            return []
        try:
            return list(self.repo.class_mro(cls))
        except Exception:
            return [cls]

    @staticmethod
    def _deco_kind(scope):
        for d in scope.node.decorator_list:
            if isinstance(d, ast.Name) and d.id == "property":
                return "property"
            if isinstance(d, ast.Attribute) and d.attr in ("setter", "deleter", "getter"):
                return "property" if d.attr == "getter" else d.attr
        return None

    def find_member(self, cls, name, after=None, setter=False):
        mro = self.class_mro(cls)
        if after is not None:
            mro = mro[mro.index(after) + 1:] if after in mro else []
        for c in mro:
            hits = [ch for ch in c.children if ch.kind == "function" and ch.name == name]
            if hits:
                acc = [h for h in hits if self._deco_kind(h) == ("setter" if setter else "property")]
                if setter:
                    if acc:
                        return acc[-1]
                    continue
                plain = [h for h in hits if self._deco_kind(h) not in ("setter", "deleter")]
                return (acc or plain or hits)[-1]
            if setter:
                continue
            if name in c.bindings:
                for b in reversed(c.bindings[name]):
                    if b.kind in ("assign",) and b.value is not None:
                        return ("classattr", c, b)
        return None

    def def_frame(self, scope):
        """frame in which the methods of a class see their free variables"""
        c = scope.cls if scope.kind == "function" and scope.cls is not None else scope
        return self.class_frames.get(id(c)) or self.module_frame(scope.module)

    def class_body_frame(self, c):
        """frame for expressions of a class body (class-level assignments): sees the functions defined in the class body"""
        fr = self._classbody.get(id(c))
        if fr is None:
            fr = self.new_frame({}, self.def_frame(c), c)
            self._classbody[id(c)] = fr
            for ch in c.children:
                if ch.kind == "function":
                    fr.vars[ch.name] = Closure(ch, fr)
        return fr

    def member_value(self, recv, cls, name, after=None):
        if cls is None:
            return None
        m = self.find_member(cls, name, after)
        if m is None:
            return None
        if isinstance(m, tuple):
            _, c, b = m
            v = self.eval(b.value, self.class_body_frame(c))
            if isinstance(v, Closure):
                return Bound(recv, v)
            return v
        decos = [d.id if isinstance(d, ast.Name) else (d.attr if isinstance(d, ast.Attribute) else "") for d in m.node.decorator_list]
        clo = self.decorated(Closure(m, self.def_frame(m)), m, self.def_frame(m))
        if "staticmethod" in decos:
            return clo
        if "property" in decos:
            return self.call(clo, [recv], {})
        if "classmethod" in decos:
            return Bound(ClassV(cls), clo)
        return Bound(recv, clo)

    def getattr(self, base, name):
        if isinstance(base, Obj):
            h = self.st.heap.get(base.oid, {})
            if name in h:
                v = h[name]
                return self.unguard(v, name) if isinstance(v, Guarded) else v
            v = self.member_value(base, base.cls, name)
            if v is not None:
                return v
            if name == "__class__":
                return ClassV(base.cls)
            ga = self.member_value(base, base.cls, "__getattr__") if base.cls is not None and not name.startswith("__") else None
            if ga is not None:
                return self.call(ga, [name], {})
            raise EvalError(f"attribute {name} of {base.label} is not set")
        if isinstance(base, SuperV):
            v = self.member_value(base.obj, base.obj.cls, name, after=base.cls)
            if v is None:
                if name == "__init__":
                    return Ext("builtins.object.__init__")
                raise EvalError(f"super().{name} not found")
            return v
        if isinstance(base, Rec):
            if name in base.nt.fields:
                return base.get(name)
            if name == "_fields":
                return tuple(base.nt.fields)
            if name in ("_replace", "_asdict"):
                return NumMethod(base, name)
            raise EvalError(f"record field {name}")
        if isinstance(base, NTClass):
            if name == "_fields":
                return tuple(base.fields)
            if name == "_make":
                return NumMethod(base, name)
            raise EvalError(f"attribute {name} of a namedtuple class")
        if isinstance(base, ModuleV):
            sub = self.repo.modules.get(base.module.name + "." + name)
            if name in base.module.scope.bindings or sub is None:
                return self.module_global(name, base.module)
            return ModuleV(sub)
        if isinstance(base, Ext):
            if name in ("inf", "pi", "nan", "e", "euler_gamma") and base.name.split(".")[-1] in ("numpy", "np", "math", "onp"):
                if name == "pi":
                    return self.const(Fraction(math.pi).limit_denominator(10**15))
                v = self.sym("const:" + name, "1")
                if name in ("inf", "e", "euler_gamma"):
                    self.domain[self.single_atom(v).id] = "pos"
                return v
            return Ext(base.name + "." + name)
        if isinstance(base, ClassV):
            m = self.find_member(base.scope, name)
            if m is None:
                raise EvalError(f"class attribute {name}")
            if isinstance(m, tuple):
                return self.eval(m[2].value, self.module_frame(m[1].module))
            return Closure(m, self.module_frame(m.module))
        if isinstance(base, (Bv, bool)):
            if name in ("any", "all", "sum", "astype", "size", "shape"):
                return NumMethod(base, name) if name not in ("size", "shape") else self.getattr(self.num(base), name)
            raise EvalError(f"attribute {name} of a boolean")
        if isinstance(base, Num):
            if name == "size":
                return self.mk_size(base)
            if name == "shape":
                return (self.mk_size(base),)
            if name == "ndim":
                return self.mk_attr(base, name)
            if name in ("T", "real"):
                return base
            if name == "at":
                return AtProxy(base)
            a = self.single_atom(base)
            if a is not None and a.kind == "sel" and name not in _NUM_METHODS:
                # attribute of a merged value: merge of the attributes
                return self.merge_val(a.parts[0], self.getattr(a.parts[1], name), self.getattr(a.parts[2], name))
            if a is not None and a.kind in ("sym", "hav", "attr", "app", "item", "ext", "fb", "new"):
                # opaque object: attribute cell written by the interpreted code, else an opaque attribute
                h = self.st.heap.get(("a", a.id))
                if h is not None and name in h:
                    return h[name]
                if name not in _NUM_METHODS:
                    return self.mk_attr(base, name)
            return NumMethod(base, name)
        if isinstance(base, AtProxy):
            return NumMethod(base, name)
        if isinstance(base, (PyList, PyDict, str, tuple, Closure, PartialV, Bound, ExcV)):
            if isinstance(base, PartialV) and name in ("func", "args", "keywords"):
                return {"func": base.f, "args": tuple(base.args)}.get(name) if name != "keywords" else PyDict(base.kwargs, 0)
            return NumMethod(base, name)
        if base is None:
            raise EvalError(f"attribute {name} of None")
        raise EvalError(f"attribute {name} of {type(base).__name__}")

    # ---- calls
    def e_Call(self, e, fr):
        f = self.eval(e.func, fr)
        args, kwargs = [], {}
        for a in e.args:
            if isinstance(a, ast.Starred):
                args.extend(self.iterate(self.eval(a.value, fr)))
            else:
                args.append(self.eval(a, fr))
        for k in e.keywords:
            if k.arg is None:
                d = self.eval(k.value, fr)
                if isinstance(d, PyDict):
                    kwargs.update(d.items)
                elif isinstance(d, Rec):
                    kwargs.update(dict(zip(d.nt.fields, d.values)))
                else:
                    raise EvalError("** of a non-dict")
            else:
                kwargs[k.arg] = self.eval(k.value, fr)
        if isinstance(f, Ext) and f.name == "builtins.super" and not args:
            return self.make_super(fr)
        return self.call(f, args, kwargs, node=e)

    def make_super(self, fr):
        f = fr
        while f is not None and f.scope.kind != "module":
            if f.scope.cls is not None and f.scope.kind == "function":
                ps = f.scope.params()
                if ps and ps[0] in f.vars and isinstance(f.vars[ps[0]], Obj):
                    return SuperV(f.vars[ps[0]], f.scope.cls)
            f = f.parent
        raise EvalError("super() outside a method")

    def call(self, f, args, kwargs, node=None):
        self.tick()
        if isinstance(f, Closure):
            return self.call_closure(f, args, kwargs)
        if isinstance(f, Bound):
            return self.call(f.fn, [f.recv] + list(args), kwargs, node)
        if isinstance(f, PartialV):
            kw = dict(f.kwargs)
            kw.update(kwargs)
            return self.call(f.f, list(f.args) + list(args), kw, node)
        if isinstance(f, GradFn):
            return self.call_grad(f, args, kwargs)
        if isinstance(f, VMapFn):
            return self.call(f.f, args, kwargs, node)
        if isinstance(f, Obj):
            m = self.member_value(f, f.cls, "__call__")
            if m is None:
                raise EvalError(f"{f.label} is not callable")
            return self.call(m, args, kwargs, node)
        if isinstance(f, ClassV):
            return self.instantiate(f, args, kwargs)
        if isinstance(f, NTClass):
            return self.make_record(f, args, kwargs)
        if isinstance(f, Ext):
            return self.call_ext(f, args, kwargs)
        if isinstance(f, NumMethod):
            return self.call_method(f, args, kwargs)
        if isinstance(f, MethodCaller):
            if len(args) != 1:
                raise EvalError("operator callable applied to several objects")
            if f.kind == "methodcaller":
                return self.call(self.getattr(args[0], f.name), list(f.args), dict(f.kwargs), node)
            if f.kind == "attrgetter":
                v = args[0]
                for part in f.name.split("."):
                    v = self.getattr(v, part)
                return v
            return self.getitem(args[0], f.args[0])
        if isinstance(f, Num):
            a = self.single_atom(f)
            if a is None:
                raise EvalError("call of a numeric expression")
            return self.opaque_call("app", self.nkey(f), f, args, kwargs)
        raise EvalError(f"call of {type(f).__name__}")

    def callee_params(self, f):
        """parameter names of a callable as seen by the caller (bound leading parameters removed), or None"""
        skip = 0
        while True:
            if isinstance(f, Bound):
                skip += 1
                f = f.fn
            elif isinstance(f, PartialV):
                skip += len(f.args)
                f = f.f
            else:
                break
        if isinstance(f, Closure):
            return f.scope.params()[skip:]
        return None

    def opaque_call(self, kind, fname, f, args, kwargs, dim=None):
        """application of an uninterpreted function; the result depends on the state of the objects passed"""
        kws = tuple(sorted(kwargs.items()))
        r = self.app(kind, fname, tuple(args), kws, dim=dim, parts=(f, tuple(args), kws))
        self.st.events.append(Event("call", fn=f, fname=fname, args=tuple(args), kwargs=dict(kwargs), result=r, guards=self.st.guards,
                                    heap={o: dict(a) for o, a in self.st.heap.items() if not isinstance(o, tuple)}))
        if not self._declared_callable(kind, f):
            # not one of the inputs of the analysis (whose contract is stated by the rules): an object handed to it may be modified
            for a in list(args) + [v for _, v in kws]:
                if isinstance(a, Obj) and a.cls is not None:
                    h = self.st.heap.get(a.oid, {})
                    for n in list(h):
                        if isinstance(h[n], (Num, Bv)):
                            h[n] = self.app("fb", f"modified:{n}", (r,), dim=self.dim_of(h[n]))
        return r

    def _declared_callable(self, kind, f):
        if kind in ("new",) or isinstance(f, Closure):
            return True             # repository code: its effects come from the call-graph cone
        if isinstance(f, Ext):
            return False
        if isinstance(f, Num):
            a = self.single_atom(f)
            while a is not None and a.kind == "attr":
                a = self.single_atom(a.parts[0])
            return a is not None and a.kind in ("sym", "hav")
        return False

    def obj_key(self, o: Obj):
        h = self.st.heap.get(o.oid, {}) if self.st is not None else {}
        items = []
        for k in sorted(h):
            v = h[k]
            if isinstance(v, (Num, Bv)):
                items.append(f"{k}={self.key(v)}")
        return f"obj:{o.label}{{{','.join(items)}}}"

    def may_inline(self, scope):
        return scope.module.name in self.inline_modules

    def call_closure(self, c: Closure, args, kwargs):
        sc = c.scope
        if not self.may_inline(sc):
            return self.repo_opaque(c, args, kwargs, "policy")
        if self.depth >= self.max_depth:
            raise EvalError("call depth")
        self.visited[sc.qualname] = sc
        bound = self.bind(c, args, kwargs)
        if self.is_generator(sc):
            return GenV(c, bound)
        fr = self.new_frame(bound, c.frame, sc)
        self.depth += 1
        self.frame_stack.append(fr)
        try:
            if sc.kind == "lambda":
                return self.eval(sc.node.body, fr)
            try:
                self.exec_block(sc.node.body, fr)
            except _Return as r:
                return r.value
            return None
        finally:
            self.depth -= 1
            self.frame_stack.pop()

    def is_generator(self, sc):
        g = self._isgen.get(id(sc))
        if g is None:
            g = sc.kind == "function" and any(isinstance(n, (ast.Yield, ast.YieldFrom)) for n in walk_local(sc.node))
            self._isgen[id(sc)] = g
        return g

    def run_generator(self, g: GenV, handler):
        """run the body of a generator; every `yield v` calls handler(v) (the consumer's loop body) and then goes on"""
        c = g.closure
        fr = self.new_frame(dict(g.bound), c.frame, c.scope)
        if self.depth >= self.max_depth:
            raise EvalError("call depth")
        self.depth += 1
        self.frame_stack.append(fr)
        self.yield_handlers.append(handler)
        try:
            try:
                self.exec_block(c.scope.node.body, fr)
            except _Return:
                pass
        finally:
            self.yield_handlers.pop()
            self.frame_stack.pop()
            self.depth -= 1

    def e_Yield(self, e, fr):
        if not self.yield_handlers:
            raise EvalError("yield outside an iterated generator")
        v = self.eval(e.value, fr) if e.value is not None else None
        h = self.yield_handlers.pop()
        try:
            h(v)
        finally:
            self.yield_handlers.append(h)
        return None

    def e_YieldFrom(self, e, fr):
        src = self.eval(e.value, fr)
        h = self.yield_handlers.pop()
        try:
            if isinstance(src, GenV):
                self.run_generator(src, h)
            else:
                for x in self.iterate(src):
                    h(x)
        finally:
            self.yield_handlers.append(h)
        return None

    def repo_opaque(self, c: Closure, args, kwargs, why):
        sc = c.scope
        self.opaque_repo[sc.qualname] = why
        # normalise keyword arguments to parameter order where possible
        try:
            b = self.bind(c, args, kwargs)
            ps = sc.params() + sc.kwonly()
            nargs = [b[p] for p in ps if p in b]
            nk = {}
        except EvalError:
            nargs, nk = list(args), kwargs
        r = self.opaque_call("app" if why == "policy" else "fb", "repo:" + sc.qualname, c, nargs, nk)
        if self.effects is not None:
            written = self.effects(sc)
            if written:
                for oid, h in self.st.heap.items():
                    for attr in list(h):
                        if attr in written:
                            h[attr] = self.app("fb", f"havoc:{sc.qualname}.{attr}", (r,), dim=self.dim_of(h[attr]))
        return r

    def bind(self, c: Closure, args, kwargs):
        sc = c.scope
        a = sc.node.args
        pos = [x.arg for x in a.posonlyargs + a.args]
        out = {}
        args = list(args)
        if len(args) > len(pos):
            if a.vararg is None:
                raise EvalError(f"too many arguments for {sc.qualname}")
            out[a.vararg.arg] = tuple(args[len(pos):])
            args = args[:len(pos)]
        elif a.vararg is not None:
            out[a.vararg.arg] = ()
        for p, v in zip(pos, args):
            out[p] = v
        kw = dict(kwargs)
        for p in pos[len(args):] + [x.arg for x in a.kwonlyargs]:
            if p in kw:
                out[p] = kw.pop(p)
        if kw:
            if a.kwarg is None:
                raise EvalError(f"unexpected keyword {sorted(kw)} for {sc.qualname}")
            self.stamp += 1
            out[a.kwarg.arg] = PyDict(kw, self.stamp)
        elif a.kwarg is not None:
            self.stamp += 1
            out[a.kwarg.arg] = PyDict({}, self.stamp)
        # defaults
        defaults = c.defaults
        if defaults is None:
            defaults = c.defaults = [self.eval(d, c.frame if c.frame is not None else self.module_frame(sc.module)) for d in a.defaults]
            c.kwdefaults = {x.arg: self.eval(d, c.frame) for x, d in zip(a.kwonlyargs, a.kw_defaults) if d is not None}
        nd = len(defaults)
        for i, p in enumerate(pos):
            if p not in out:
                j = i - (len(pos) - nd)
                if j < 0:
                    raise EvalError(f"missing argument {p} of {sc.qualname}")
                out[p] = defaults[j]
        for x in a.kwonlyargs:
            if x.arg not in out:
                if x.arg not in (c.kwdefaults or {}):
                    raise EvalError(f"missing keyword argument {x.arg}")
                out[x.arg] = c.kwdefaults[x.arg]
        return out

    def call_grad(self, g: GradFn, args, kwargs):
        if kwargs:
            raise EvalError("keyword arguments to a differentiated function")
        an = g.argnums
        dim = None
        if isinstance(an, int) and an < len(args) and g.kind == "D":
            dim = self.dim_of(args[an])
        kind = "D" if g.kind == "VG" else g.kind
        if isinstance(an, int) and an < len(args) and kind == "D":
            dim = self.dim_of(args[an])
        k = f"{kind}[{self.key(g.f)};{an}](" + ",".join(self.key(a) for a in args) + ")"
        d = self.anum(self.atom("D", k, (GradFn(g.f, an, kind), tuple(args)), dim))
        if g.kind == "VG":
            return (self.call(g.f, args, {}), d)
        return d

    def instantiate(self, cv: ClassV, args, kwargs):
        cls = cv.scope
        if not self.may_inline(cls):
            r = self.opaque_call("new", "new:" + cls.qualname, cv, args, kwargs)
            return r
        o = self.new_obj(cls, cls.name)
        init = self.find_member(cls, "__init__")
        if init is None:
            # field-annotated class (dataclass style): positional / keyword arguments fill the annotated fields
            fields = []
            for c in reversed(self.class_mro(cls)):
                for st in c.node.body:
                    if isinstance(st, ast.AnnAssign) and isinstance(st.target, ast.Name):
                        if st.target.id not in [f for f, _ in fields]:
                            fields.append((st.target.id, st.value))
            if len(args) > len(fields) or any(k not in [f for f, _ in fields] for k in kwargs):
                raise EvalError(f"construction of {cls.qualname}")
            vals = dict(zip([f for f, _ in fields], args))
            vals.update(kwargs)
            for f, dflt in fields:
                if f not in vals:
                    if dflt is None:
                        raise EvalError(f"missing field {f} of {cls.qualname}")
                    vals[f] = self.eval(dflt, self.module_frame(cls.module))
                self.st.heap[o.oid][f] = vals[f]
            return o
        if init is not None and not isinstance(init, tuple):
            if not self.may_inline(init):
                raise EvalError(f"constructor of {cls.qualname} outside the interpreted modules")
            self.call(Bound(o, Closure(init, self.def_frame(init))), args, kwargs)
        return o

    def make_record(self, nt: NTClass, args, kwargs):
        vals = list(args)
        for f in nt.fields[len(vals):]:
            if f in kwargs:
                vals.append(kwargs[f])
            else:
                j = nt.fields.index(f) - (len(nt.fields) - len(nt.defaults))
                if j < 0:
                    raise EvalError(f"missing field {f} of {nt.name}")
                vals.append(nt.defaults[j])
        if len(vals) != len(nt.fields) or any(k not in nt.fields for k in kwargs):
            raise EvalError(f"bad construction of {nt.name}")
        return Rec(nt, vals)

    def iterate(self, v):
        if isinstance(v, tuple):
            return list(v)
        if isinstance(v, PyList):
            return list(v.items)
        if isinstance(v, Rec):
            return list(v.values)
        if isinstance(v, PyDict):
            return [self.const(k) if isinstance(k, (int, float)) and not isinstance(k, bool) else k for k in v.items]
        if isinstance(v, RangeV):
            if v.hi is None:
                raise EvalError("unbounded range")
            lo, hi, st_ = self.const_int(v.lo), self.const_int(v.hi), self.const_int(v.step)
            if None in (lo, hi, st_) or st_ == 0:
                raise EvalError("symbolic range")
            r = range(lo, hi, st_)
            if len(r) > 200:
                raise EvalError("long concrete range")
            return [self.const(i) for i in r]
        if isinstance(v, str):
            return list(v)
        if isinstance(v, GenV):
            out = []
            self.run_generator(v, out.append)
            return out
        raise EvalError(f"iteration over {type(v).__name__}")

    # ---- external functions
    def call_ext(self, f: Ext, args, kwargs):
        name = f.name
        last = name.split(".")[-1]
        builtin = name.startswith("builtins.")
        if builtin and last in _EXC:
            return ExcV(last, tuple(args))
        h = getattr(self, "x_" + last, None)
        if h is not None:
            r = h(name, list(args), dict(kwargs))
            if r is not NotImplemented:
                return r
        if last in _IDENT and args:
            return args[0].v if isinstance(args[0], ElemWise) else args[0]
        if last in _GRAD:
            an = kwargs.get("argnums", args[1] if len(args) > 1 else self.const(0))
            ai = self.const_int(an) if not isinstance(an, tuple) else tuple(self.const_int(x) for x in an)
            if ai is None:
                raise EvalError("symbolic argnums")
            return GradFn(args[0], ai, _GRAD[last])
        self.ext_unknown.add(name)
        return self.opaque_call("ext", name, f, args, kwargs)

    @staticmethod
    def _a(args, kwargs, i, name, default=None):
        if i < len(args):
            return args[i]
        return kwargs.get(name, default)

    def x_print(self, name, args, kw):
        return None

    def x_len(self, name, args, kw):
        v = args[0]
        if isinstance(v, (tuple, str)):
            return self.const(len(v))
        if isinstance(v, (PyList, PyDict)):
            return self.const(len(v.items))
        if isinstance(v, Rec):
            return self.const(len(v.values))
        if isinstance(v, (Num, Bv, bool)):
            return self.mk_size(self.num(v))
        raise EvalError("len")

    def x_size(self, name, args, kw):
        return self.mk_size(self.num(args[0]))

    def x_shape(self, name, args, kw):
        return (self.mk_size(self.num(args[0])),)

    def x_range(self, name, args, kw):
        a = [self.num(x) for x in args]
        if len(a) == 1:
            return RangeV(self.const(0), a[0], self.const(1))
        if len(a) == 2:
            return RangeV(a[0], a[1], self.const(1))
        return RangeV(a[0], a[1], a[2])

    def x_enumerate(self, name, args, kw):
        start = self.const_int(self._a(args, kw, 1, "start", self.const(0)))
        return tuple((self.const(i + start), x) for i, x in enumerate(self.iterate(args[0])))

    def x_zip(self, name, args, kw):
        lazy = [a for a in args if isinstance(a, LazySeq) or (isinstance(a, RangeV) and not self._concrete_range(a))]
        if lazy:
            fin = []
            for a in args:
                if a in lazy:
                    continue
                fin.append(len(self.iterate(a)))
            if fin:
                # a finite part decides the length: take that many entries of the lazy ones
                n = min(fin)
                cols = []
                for a in args:
                    if isinstance(a, LazySeq):
                        cols.append([(a.prefix[i] if i < len(a.prefix) else a.tail) for i in range(n)])
                    elif a in lazy:
                        raise EvalError("zip of a symbolic range with a finite sequence")
                    else:
                        cols.append(self.iterate(a)[:n])
                return tuple(zip(*cols))
            return ZipV(args)
        return tuple(zip(*[self.iterate(a) for a in args]))

    def _concrete_range(self, r: RangeV):
        return r.hi is not None and None not in (self.const_int(r.lo), self.const_int(r.hi), self.const_int(r.step))

    def x_reversed(self, name, args, kw):
        return tuple(reversed(self.iterate(args[0])))

    def x_tuple(self, name, args, kw):
        return tuple(self.iterate(args[0])) if args else ()

    def x_list(self, name, args, kw):
        return self.new_list(self.iterate(args[0]) if args else [])

    def x_dict(self, name, args, kw):
        self.stamp += 1
        d = PyDict({}, self.stamp)
        if args:
            if isinstance(args[0], PyDict):
                d.items.update(args[0].items)
            else:
                for k, v in self.iterate(args[0]):
                    d.items[self.hashable(k)] = v
        d.items.update(kw)
        return d

    def x_isinstance(self, name, args, kw):
        v, t = args
        ts = t if isinstance(t, tuple) else (t,)
        for t1 in ts:
            if isinstance(t1, Ext):
                n = t1.name.split(".")[-1]
                if n in ("tuple",) and isinstance(v, tuple):
                    return True
                if n in ("list",) and isinstance(v, PyList):
                    return True
                if n in ("dict",) and isinstance(v, PyDict):
                    return True
                if n in ("str",) and isinstance(v, str):
                    return True
                if n in ("bool",) and isinstance(v, bool):
                    return True
                if n in ("float", "int") and isinstance(v, Num) and self.is_const(v):
                    return True
            if isinstance(t1, ClassV) and isinstance(v, Obj):
                if t1.scope in self.class_mro(v.cls):
                    return True
            if isinstance(t1, NTClass) and isinstance(v, Rec) and v.nt is t1:
                return True
        if isinstance(v, (tuple, PyList, PyDict, str, Obj, Rec, bool)) or v is None or (isinstance(v, Num) and self.is_const(v)):
            return False
        return Bv(("t", f"isinstance:{self.key(v)}:{self.key(t)}"))

    def x_callable(self, name, args, kw):
        v = args[0]
        if isinstance(v, (Closure, Bound, PartialV, GradFn, VMapFn, Ext, ClassV)):
            return True
        if v is None:
            return False
        return Bv(("t", f"callable:{self.key(v)}"))

    def x_getattr(self, name, args, kw):
        if not isinstance(args[1], str):
            raise EvalError("getattr with a symbolic name")
        try:
            return self.getattr(args[0], args[1])
        except EvalError:
            if len(args) > 2:
                return args[2]
            raise

    def x_hasattr(self, name, args, kw):
        raise EvalError("hasattr")

    def x_bool(self, name, args, kw):
        return self.bool_value(self.truthf(args[0])) if args else False

    def x_float(self, name, args, kw):
        if args and isinstance(args[0], str):
            v = self.sym("const:" + args[0].strip("+-").lower(), "1")
            return self.neg(v) if args[0].startswith("-") else v
        return args[0] if args else self.const(0)

    def x_int(self, name, args, kw):
        v = self.num(args[0])
        if self.is_const(v):
            return self.const(int(self.cval(v)))
        return self.app("op", "int", (v,), dim=self.dim_of(v))

    # element-wise ufunc spellings of the operators
    def x_add(self, name, args, kw):
        return self.binop(ast.Add(), args[0], args[1]) if len(args) == 2 else NotImplemented

    def x_subtract(self, name, args, kw):
        return self.binop(ast.Sub(), args[0], args[1]) if len(args) == 2 else NotImplemented

    def x_multiply(self, name, args, kw):
        return self.binop(ast.Mult(), args[0], args[1]) if len(args) == 2 else NotImplemented

    def x_divide(self, name, args, kw):
        return self.binop(ast.Div(), args[0], args[1]) if len(args) == 2 else NotImplemented

    x_true_divide = x_divide

    def x_negative(self, name, args, kw):
        return self.neg(self.num(args[0]))

    def x_positive(self, name, args, kw):
        return self.num(args[0])

    def x_reciprocal(self, name, args, kw):
        return self.div(self.const(1), self.num(args[0]))

    def _cmp_ufunc(self, op, args):
        if len(args) != 2:
            return NotImplemented
        return self.bool_value(self.compare(op, args[0], args[1]))

    def x_greater(self, name, args, kw):
        return self._cmp_ufunc(ast.Gt(), args)

    def x_greater_equal(self, name, args, kw):
        return self._cmp_ufunc(ast.GtE(), args)

    def x_less(self, name, args, kw):
        return self._cmp_ufunc(ast.Lt(), args)

    def x_less_equal(self, name, args, kw):
        return self._cmp_ufunc(ast.LtE(), args)

    def x_equal(self, name, args, kw):
        return self._cmp_ufunc(ast.Eq(), args)

    def x_not_equal(self, name, args, kw):
        return self._cmp_ufunc(ast.NotEq(), args)

    def x_abs(self, name, args, kw):
        return self.mk_abs(self.num(args[0]))

    x_absolute = x_fabs = x_abs

    def x_sqrt(self, name, args, kw):
        return self.mk_sqrt(self.num(args[0]))

    def x_hypot(self, name, args, kw):
        a, b = self.num(args[0]), self.num(args[1])
        return self.mk_sqrt(self.add(self.mul(a, a), self.mul(b, b)))

    def x_square(self, name, args, kw):
        v = self.num(args[0])
        return self.mul(v, v)

    def x_exp(self, name, args, kw):
        v = self.num(args[0])
        r = self.app("op", "exp", (v,), dim=self.dim_of(v))
        self.domain[self.single_atom(r).id] = "pos"
        return r

    def x_power(self, name, args, kw):
        return self.power(self.num(args[0]), self.num(args[1]))

    def x_pow(self, name, args, kw):
        if len(args) != 2:
            return NotImplemented
        return self.power(self.num(args[0]), self.num(args[1]))

    def _reduce_or_pair(self, kind, name, args, kw):
        if name.startswith("builtins.") or (".lax." in name and len(args) == 2):
            vals = list(args) if len(args) > 1 else self.iterate(args[0])
            r = self.num(vals[0])
            for v in vals[1:]:
                r = self.mk_minmax(kind, r, self.num(v))
            return r
        v = self.num(args[0])
        return self.app("op", "reduce_" + kind, (v,), dim="1")

    def x_max(self, name, args, kw):
        return self._reduce_or_pair("max", name, args, kw)

    def x_min(self, name, args, kw):
        return self._reduce_or_pair("min", name, args, kw)

    x_amax = x_max
    x_amin = x_min

    def x_maximum(self, name, args, kw):
        return self.mk_minmax("max", self.num(args[0]), self.num(args[1]))

    def x_minimum(self, name, args, kw):
        return self.mk_minmax("min", self.num(args[0]), self.num(args[1]))

    x_fmax = x_maximum
    x_fmin = x_minimum

    def x_relu(self, name, args, kw):
        return self.mk_minmax("max", self.num(args[0]), self.const(0))

    def x_clip(self, name, args, kw):
        v = self.num(args[0])
        lo = self._a(args, kw, 1, "a_min", kw.get("min"))
        hi = self._a(args, kw, 2, "a_max", kw.get("max"))
        if lo is not None:
            v = self.mk_minmax("max", v, self.num(lo))
        if hi is not None:
            v = self.mk_minmax("min", v, self.num(hi))
        return v

    def x_where(self, name, args, kw):
        if len(args) != 3:
            return NotImplemented
        c, a, b = args
        f = self.truthf(c) if isinstance(c, (Bv, bool)) else self.truthf(self.num(c))
        return self.where(f, a, b)

    def x_select(self, name, args, kw):
        if len(args) == 3 and not isinstance(args[0], (tuple, PyList)):
            return self.x_where(name, args, kw)         # jax.lax.select(pred, on_true, on_false)
        # numpy.select(condlist, choicelist, default=0)
        conds = self.iterate(args[0])
        choices = self.iterate(self._a(args, kw, 1, "choicelist"))
        r = self.num(self._a(args, kw, 2, "default", self.const(0)))
        if len(conds) != len(choices):
            raise EvalError("np.select with lists of different length")
        for c, v in reversed(list(zip(conds, choices))):
            r = self.where(self.truthf(c), v, r)
        return r

    def where(self, f, a, b):
        if isinstance(a, (Bv, bool)) and isinstance(b, (Bv, bool)):
            return self.bool_value(f_ite(f, self.truthf(a), self.truthf(b)))
        return self.mk_sel(f, self.num(a), self.num(b), self.st.facts)

    def x_if_then_else(self, name, args, kw):
        return self.x_where(name, args, kw)

    def x_cond(self, name, args, kw):
        # jax.lax.cond(pred, true_fun, false_fun, *operands)
        if len(args) < 3:
            return NotImplemented
        f = self.truthf(args[0])
        ops = args[3:]
        t = self.st.facts.ev(f)
        if t is not None:
            return self.call(args[1] if t else args[2], ops, {})
        a = self.call(args[1], ops, {})
        b = self.call(args[2], ops, {})
        return self.merge_or_pick(f, a, b)

    def x_logical_and(self, name, args, kw):
        return self.bool_value(f_and(self.truthf(args[0]), self.truthf(args[1])))

    def x_logical_or(self, name, args, kw):
        return self.bool_value(f_or(self.truthf(args[0]), self.truthf(args[1])))

    def x_logical_not(self, name, args, kw):
        return self.bool_value(f_not(self.truthf(args[0])))

    def x_any(self, name, args, kw):
        v = args[0]
        if isinstance(v, ElemWise):
            v = v.v
        if isinstance(v, (tuple, PyList)):
            return self.bool_value(f_or(*[self.truthf(x) for x in self.iterate(v)]))
        f = self.truthf(v)
        if f[0] == "c":
            return f[1]
        if self._scalar_formula(f):
            return Bv(f)
        return Bv(("t", "any:" + fkey(f)))

    def x_all(self, name, args, kw):
        v = args[0]
        if isinstance(v, ElemWise):
            v = v.v
        if isinstance(v, (tuple, PyList)):
            return self.bool_value(f_and(*[self.truthf(x) for x in self.iterate(v)]))
        f = self.truthf(v)
        if f[0] == "c":
            return f[1]
        if self._scalar_formula(f):
            return Bv(f)
        return Bv(f_not(("t", "any:" + fkey(f_not(f)))))

    def _scalar_formula(self, f):
        for a in f_atoms(f):
            if a[0] in ("lt0", "le0", "eq0"):
                if self.dim_of(a[2]) != "1" and not self.is_const(a[2]):
                    return False
            else:
                return False
        return True

    def x_sum(self, name, args, kw):
        v = args[0]
        if isinstance(v, ElemWise):
            v = self.num(v.v)
        if isinstance(v, (tuple, PyList)):
            r = self.num(args[1]) if len(args) > 1 else self.const(0)
            for x in self.iterate(v):
                r = self.add(r, self.num(x))
            return r
        v = self.num(v)
        return self.mk_sum(v)

    def mk_sum(self, v: Num):
        if self.dim_of(v) == "1" or self.is_const(v) and self.cval(v) == 0:
            return v
        # sum of squares is the norm atom
        if v.r.d == ONE and len(v.r.n.t) == 1:
            (m, c), = v.r.n.t.items()
            if len(m) == 1 and m[0][1] == 2:
                return self.mul(self.const(c), self.mk_n2(self.anum(self.by_id[m[0][0]])))
        return self.anum(self.atom("sum", f"sum({self.nkey(v)})", (v,), "1"))

    def x_dot(self, name, args, kw):
        return self.dot(self.num(args[0]), self.num(args[1]))

    x_vdot = x_inner = x_matmul = x_dot

    def x_norm(self, name, args, kw):
        o = self._a(args, kw, 1, "ord")
        v = args[0]
        if isinstance(v, (Bv, bool)):
            return self.x_any(name, [v], {})
        if isinstance(v, (tuple, PyList)) and o is None and all(isinstance(x, Num) for x in self.iterate(v)):
            tot = self.const(0)
            for x in self.iterate(v):
                tot = self.add(tot, self.mul(x, x))
            return self.mk_sqrt(tot)
        if o is not None and not (self.const_int(o) == 2):
            return self.app("op", "norm_ord", (self.num(v), o), dim="1")
        return self.mk_norm(self.num(v))

    def x_hstack(self, name, args, kw):
        return self.mk_hs([self.num(x) for x in self.iterate(args[0])])

    def x_concatenate(self, name, args, kw):
        return self.x_hstack(name, args, kw)

    def x_append(self, name, args, kw):
        if len(args) != 2 or "axis" in kw:
            return NotImplemented
        return self.mk_hs([self.num(args[0]), self.num(args[1])])

    def x_broadcast_to(self, name, args, kw):
        return self.num(args[0])

    def x_empty_like(self, name, args, kw):
        return NotImplemented

    def x_ones(self, name, args, kw):
        return self.const(1)

    def x_zeros(self, name, args, kw):
        return self.const(0)

    x_ones_like = x_ones
    x_zeros_like = x_zeros

    def x_full(self, name, args, kw):
        return self.num(self._a(args, kw, 1, "fill_value"))

    x_full_like = x_full

    def x_isnan(self, name, args, kw):
        return Bv(("t", "isnan:" + self.key(self.num(args[0]))))

    def x_isfinite(self, name, args, kw):
        return Bv(("t", "isfinite:" + self.key(self.num(args[0]))))

    def x_partial(self, name, args, kw):
        return PartialV(args[0], args[1:], kw)

    def x_getitem(self, name, args, kw):
        return self.getitem(args[0], args[1])

    def x_iadd(self, name, args, kw):
        return self.x_add(name, args, kw)

    def x_isub(self, name, args, kw):
        return self.x_subtract(name, args, kw)

    def x_imul(self, name, args, kw):
        return self.x_multiply(name, args, kw)

    def x_itruediv(self, name, args, kw):
        return self.x_divide(name, args, kw)

    def x_methodcaller(self, name, args, kw):
        if not args or not isinstance(args[0], str):
            return NotImplemented
        return MethodCaller("methodcaller", args[0], args[1:], kw)

    def x_attrgetter(self, name, args, kw):
        if len(args) != 1 or not isinstance(args[0], str):
            return NotImplemented
        return MethodCaller("attrgetter", args[0])

    def x_itemgetter(self, name, args, kw):
        if len(args) != 1:
            return NotImplemented
        return MethodCaller("itemgetter", "", (args[0],))

    def x_reduce(self, name, args, kw):
        f, items = args[0], self.iterate(args[1])
        if len(args) > 2:
            acc = args[2]
        elif items:
            acc, items = items[0], items[1:]
        else:
            raise EvalError("reduce of an empty sequence")
        for x in items:
            acc = self.call(f, [acc, x], {})
        return acc

    def x_map(self, name, args, kw):
        seqs = [self.iterate(a) for a in args[1:]]
        return tuple(self.call(args[0], list(xs), {}) for xs in zip(*seqs))

    def x_filter(self, name, args, kw):
        return tuple(x for x in self.iterate(args[1]) if self.truth(self.call(args[0], [x], {}) if args[0] is not None else x))

    def x_repeat(self, name, args, kw):
        if "itertools" not in name:
            return NotImplemented
        if len(args) > 1:
            n = self.const_int(args[1])
            if n is None:
                raise EvalError("itertools.repeat with a symbolic count")
            return tuple([args[0]] * n)
        return LazySeq([], args[0])

    def x_chain(self, name, args, kw):
        prefix = []
        for i, a in enumerate(args):
            if isinstance(a, LazySeq):
                if i != len(args) - 1:
                    raise EvalError("infinite iterator inside chain")
                return LazySeq(prefix + a.prefix, a.tail)
            prefix.extend(self.iterate(a))
        return tuple(prefix)

    def x_count(self, name, args, kw):
        if "itertools" not in name:
            return NotImplemented
        start = self.num(args[0]) if args else self.const(0)
        return RangeV(start, None, self.num(args[1]) if len(args) > 1 else self.const(1))

    def x_wraps(self, name, args, kw):
        return Ext("builtins.__identity__")

    def x___identity__(self, name, args, kw):
        return args[0]

    def x_lru_cache(self, name, args, kw):
        if args and isinstance(args[0], (Closure, Bound, PartialV)):
            return args[0]
        return Ext("builtins.__identity__")

    x_cache = x_lru_cache

    def x_mul(self, name, args, kw):
        return self.x_multiply(name, args, kw)

    def x_sub(self, name, args, kw):
        return self.x_subtract(name, args, kw)

    def x_truediv(self, name, args, kw):
        return self.x_divide(name, args, kw)

    def x_neg(self, name, args, kw):
        return self.x_negative(name, args, kw)

    def x_lt(self, name, args, kw):
        return self._cmp_ufunc(ast.Lt(), args)

    def x_le(self, name, args, kw):
        return self._cmp_ufunc(ast.LtE(), args)

    def x_gt(self, name, args, kw):
        return self._cmp_ufunc(ast.Gt(), args)

    def x_ge(self, name, args, kw):
        return self._cmp_ufunc(ast.GtE(), args)

    def x_eq(self, name, args, kw):
        return self._cmp_ufunc(ast.Eq(), args)

    def x_ne(self, name, args, kw):
        return self._cmp_ufunc(ast.NotEq(), args)

    def x_not_(self, name, args, kw):
        return self.bool_value(f_not(self.truthf(args[0])))

    def x_and_(self, name, args, kw):
        return self.binop(ast.BitAnd(), args[0], args[1])

    def x_or_(self, name, args, kw):
        return self.binop(ast.BitOr(), args[0], args[1])

    def x_split(self, name, args, kw):
        v = self.num(args[0])
        a = self.single_atom(v)
        idx = self._a(args, kw, 1, "indices_or_sections")
        if a is None or a.kind != "hs" or not isinstance(idx, (tuple, PyList)) or kw.get("axis") is not None:
            return NotImplemented
        cuts = [None] + [self.num(i) for i in self.iterate(idx)] + [None]
        out = []
        for lo, hi in zip(cuts, cuts[1:]):
            out.append(self.getitem(v, SliceV(lo, hi, None)))
        return self.new_list(out)

    x_array_split = x_split

    def x_einsum(self, name, args, kw):
        spec = args[0].replace(" ", "") if args and isinstance(args[0], str) else None
        if spec in ("i,i", "i,i->", "j,j", "j,j->") and len(args) == 3:
            return self.dot(self.num(args[1]), self.num(args[2]))
        if spec in ("...->", "i->", "j->") and len(args) == 2:
            return self.mk_sum(self.num(args[1]))
        return NotImplemented

    def x_SimpleNamespace(self, name, args, kw):
        o = self.new_obj(None, "namespace")
        self.st.heap[o.oid].update(kw)
        return o

    def x_vmap(self, name, args, kw):
        return VMapFn(args[0])

    def x_namedtuple(self, name, args, kw):
        tname, fields = args[0], args[1]
        if isinstance(fields, str):
            fs = fields.replace(",", " ").split()
        else:
            fs = list(self.iterate(fields))
        d = kw.get("defaults")
        return NTClass(tname, fs, self.iterate(d) if d is not None else ())

    def x_jvp(self, name, args, kw):
        f, primals, tangents = args[0], tuple(self.iterate(args[1])), tuple(self.iterate(args[2]))
        out = self.call(f, list(primals), {})
        k = f"jvp[{self.key(f)}](" + ",".join(self.key(a) for a in primals) + ";" + ",".join(self.key(a) for a in tangents) + ")"
        return (out, self.anum(self.atom("D", k, (GradFn(f, "jvp", "jvp"), primals + tangents), self.dim_of(out))))

    def x_vjp(self, name, args, kw):
        f, primals = args[0], tuple(args[1:])
        out = self.call(f, list(primals), {})
        k = f"vjp[{self.key(f)}](" + ",".join(self.key(a) for a in primals) + ")"
        return (out, self.anum(self.atom("D", k, (GradFn(f, "vjp", "vjp"), primals), None)))

    def x_setattr(self, name, args, kw):
        if not isinstance(args[1], str):
            raise EvalError("setattr with a symbolic name")
        self.store_attr(args[0], args[1], args[2])
        return None

    def x_sign(self, name, args, kw):
        v = self.num(args[0])
        return self.app("op", "sign", (v,), dim=self.dim_of(v))

    # ---- methods of values
    def call_method(self, m: NumMethod, args, kwargs):
        base, name = m.base, m.name
        if isinstance(base, AtProxy):
            return self.at_update(base, name, args, kwargs)
        if isinstance(base, PyList):
            return self.list_method(base, name, args)
        if isinstance(base, PyDict):
            if name == "get":
                k = self.hashable(args[0])
                return base.items.get(k, args[1] if len(args) > 1 else None)
            if name == "items":
                return tuple((k if isinstance(k, str) else self.const(k), v) for k, v in base.items.items())
            if name == "keys":
                return tuple(base.items.keys())
            if name == "values":
                return tuple(base.items.values())
            raise EvalError(f"dict.{name}")
        if isinstance(base, Rec):
            if name == "_replace":
                vals = list(base.values)
                for k, v in kwargs.items():
                    if k not in base.nt.fields:
                        raise EvalError(f"_replace of unknown field {k}")
                    vals[base.nt.fields.index(k)] = v
                return Rec(base.nt, vals)
            if name == "_asdict":
                self.stamp += 1
                return PyDict(dict(zip(base.nt.fields, base.values)), self.stamp)
        if isinstance(base, NTClass) and name == "_make":
            return self.make_record(base, self.iterate(args[0]), {})
        if isinstance(base, str):
            return "<str>"
        if isinstance(base, (Bv, bool)):
            if name in ("any", "all"):
                return getattr(self, "x_" + name)("numpy." + name, [base], {})
            base = self.num(base)
        if isinstance(base, Num):
            if name in _NUM_METHODS:
                return self.call_ext(Ext("numpy." + name), [base] + list(args), kwargs)
            a = self.single_atom(base)
            if a is not None:
                recv = self.mk_attr(base, name)
                return self.opaque_call("app", self.nkey(recv), recv, args, kwargs)
            return self.opaque_call("ext", "method:" + name, Ext("method:" + name), [base] + list(args), kwargs)
        raise EvalError(f"method {name} of {type(base).__name__}")

    def list_method(self, lst: PyList, name, args):
        if name in ("append", "extend", "insert", "pop", "clear"):
            if self.trial and lst.stamp <= self.trial_stamp[-1]:
                raise _NoMerge("list mutated inside a merged branch")
            if name == "append":
                lst.items.append(args[0])
            elif name == "extend":
                lst.items.extend(self.iterate(args[0]))
            elif name == "insert":
                lst.items.insert(self.const_int(args[0]), args[1])
            elif name == "clear":
                lst.items.clear()
            else:
                return lst.items.pop(self.const_int(args[0]) if args else -1)
            return None
        if name == "copy":
            return self.new_list(lst.items)
        if name == "index":
            for i, x in enumerate(lst.items):
                if self.key(x) == self.key(args[0]):
                    return self.const(i)
        raise EvalError(f"list.{name}")

    def at_update(self, p: AtProxy, name, args, kwargs):
        if not p.has_idx:
            raise EvalError(".at without an index")
        base, idx = self.num(p.base), p.idx
        if idx is Ellipsis or (isinstance(idx, SliceV) and idx.lo is None and idx.hi is None and idx.step is None):
            idx = Bv(F_TRUE)            # every entry
        if name == "get":
            return self.getitem(base, idx)
        v = self.num(args[0]) if args else None
        if isinstance(idx, (Bv, bool)):
            f = self.truthf(idx)
            if v is not None and f[0] != "c":
                v = self.ungm(v, f)
                if v is None:
                    raise EvalError("masked update with values gathered by another mask")
            if name == "set":
                new = v
            elif name == "add":
                new = self.add(base, v)
            elif name == "multiply":
                new = self.mul(base, v)
            elif name == "divide":
                new = self.div(base, v)
            elif name in ("min", "max"):
                new = self.mk_minmax(name, base, v)
            else:
                raise EvalError(f".at[mask].{name}")
            return self.mk_sel(f, new, base, self.st.facts)
        if name in ("multiply", "divide") and v is not None:
            # base.at[idx].multiply(v) = base * (1 with v at idx);  (1 with 1/w at idx) = 1 / (1 with w at idx)
            if name == "divide":
                v = self.div(self.const(1), v)
            inv = v.r.n.is_const() and not v.r.d.is_const()
            w = self.div(self.const(1), v) if inv else v
            mm = self.anum(self.atom("mulmask", f"mulmask({self.key(idx)};{self.nkey(w)})", (idx, w), self.dim_of(base)))
            return self.div(base, mm) if inv else self.mul(base, mm)
        return self.anum(self.atom("scatter", f"scatter:{name}({self.nkey(base)};{self.key(idx)};{self.key(v)})",
                                   (name, base, idx, v), self.dim_of(base)))


_NUM_METHODS = {"copy", "sum", "dot", "any", "all", "astype", "ravel", "flatten", "squeeze", "reshape", "max", "min", "clip",
                "transpose", "block_until_ready", "conj", "item", "tolist", "mean", "diagonal", "todense", "toarray", "update", "apply"} \
    - {"diagonal", "todense", "toarray", "update", "apply", "item", "tolist", "mean", "conj"}


# ------------------------------------------------------------------------------------------------ statements, merging, loops

class Exec(Machine):
    def __init__(self, *a, **kw):
        super().__init__(*a, **kw)
        self.trial_stamp = []
        self._base = None

    # ---- snapshots (for merge trials)
    def snapshot(self, fr):
        frames = []
        f = fr
        while f is not None and f.scope.kind != "module":
            frames.append((f, dict(f.vars)))
            f = f.parent
        heap = {o: dict(a) for o, a in self.st.heap.items()}
        self.snap_frames.append({f.fid for f, _ in frames})
        self.trial_stamp.append(self.stamp)
        return (frames, heap, len(self.st.events))

    def restore(self, snap):
        frames, heap, nev = snap
        for f, vars_ in frames:
            f.vars.clear()
            f.vars.update(vars_)
        self.st.heap = {o: dict(a) for o, a in heap.items()}

    def drop_snapshot(self, snap):
        self.snap_frames.pop()
        self.trial_stamp.pop()

    def capture(self, snap):
        frames, _, nev = snap
        return ([(f, dict(f.vars)) for f, _ in frames], {o: dict(a) for o, a in self.st.heap.items()}, self.st.events[nev:])

    def merge_val(self, f, a, b):
        if a is b:
            return a
        if isinstance(a, Guarded) or isinstance(b, Guarded):
            if isinstance(a, Guarded) and isinstance(b, Guarded) and fkey(a.f) == fkey(b.f):
                return Guarded(a.f, self.merge_val(f, a.v, b.v))
            raise _NoMerge("conditionally defined value")
        if isinstance(a, (Num, Bv, bool)) and isinstance(b, (Num, Bv, bool)):
            if isinstance(a, (Bv, bool)) and isinstance(b, (Bv, bool)):
                return self.bool_value(f_ite(f, self.truthf(a), self.truthf(b)))
            if isinstance(a, Num) and isinstance(b, Num):
                return self.mk_sel(f, a, b)
            raise _NoMerge("bool/number")
        if a is None or b is None:
            raise _NoMerge("None")
        if isinstance(a, tuple) and isinstance(b, tuple) and len(a) == len(b):
            return tuple(self.merge_val(f, x, y) for x, y in zip(a, b))
        if isinstance(a, Rec) and isinstance(b, Rec) and a.nt is b.nt:
            return Rec(a.nt, [self.merge_val(f, x, y) for x, y in zip(a.values, b.values)])
        try:
            if type(a) is type(b) and self.key(a) == self.key(b):
                return a
        except EvalError:
            pass
        raise _NoMerge(f"{type(a).__name__}/{type(b).__name__}")

    def merge_states(self, f, snap, A, B):
        framesA, heapA, evA = A
        framesB, heapB, evB = B
        out_frames = []
        for (fa, va), (fb, vb) in zip(framesA, framesB):
            mv = {}
            for n in set(va) | set(vb):
                if n not in va or n not in vb:
                    mv[n] = Guarded(f, va[n]) if n in va else Guarded(f_not(f), vb[n])
                    if isinstance(mv[n].v, Guarded):
                        raise _NoMerge(f"{n} nested conditional definition")
                    continue
                mv[n] = self.merge_val(f, va[n], vb[n])
            out_frames.append((fa, mv))
        mh = {}
        for o in set(heapA) | set(heapB):
            ha, hb = heapA.get(o), heapB.get(o)
            if ha is None or hb is None:
                mh[o] = dict(ha if ha is not None else hb)     # object created in one branch only: unreachable from merged values
                continue
            d = {}
            for n in set(ha) | set(hb):
                if n not in ha or n not in hb:
                    d[n] = Guarded(f, ha[n]) if n in ha else Guarded(f_not(f), hb[n])
                    if isinstance(d[n].v, Guarded):
                        raise _NoMerge(f"{n} nested conditional definition")
                    continue
                d[n] = self.merge_val(f, ha[n], hb[n])
            mh[o] = d
        for fr_, mv in out_frames:
            fr_.vars.clear()
            fr_.vars.update(mv)
        self.st.heap = mh
        del self.st.events[snap[2]:]
        self.st.events.extend(evA)
        self.st.events.extend(evB)

    def trial_block(self, stmts, fr, f, val, snap):
        saved = (self.dec, self.st.facts, self.st.guards)
        self.dec = NoFork()
        self.st.facts = self.st.facts.copy()
        self.st.facts.assume(f, val, log=False)
        self.st.guards = self.st.guards + ((f, val),)
        self.trial += 1
        try:
            self.exec_block(stmts, fr)
            return self.capture(snap)
        except (_Return, _Break, _Continue, _Raise, _Cut, _EndPath, _Consumer):
            raise _NoMerge("abrupt completion")
        finally:
            self.trial -= 1
            self.dec, self.st.facts, self.st.guards = saved

    # ---- statements
    def exec_block(self, stmts, fr):
        for s in stmts:
            self.tick()
            m = getattr(self, "s_" + type(s).__name__, None)
            if m is None:
                raise EvalError(f"statement {type(s).__name__}")
            m(s, fr)

    def s_Expr(self, s, fr):
        if isinstance(s.value, ast.Constant):
            return
        self.eval(s.value, fr)

    def s_Pass(self, s, fr):
        pass

    def s_Assert(self, s, fr):
        pass

    def s_Global(self, s, fr):
        pass

    s_Nonlocal = s_Global

    def s_Import(self, s, fr):
        for al in s.names:
            m = self.repo.modules.get(al.name)
            fr.vars[al.asname or al.name.split(".")[0]] = ModuleV(m) if m is not None and al.asname else Ext(al.name if al.asname else al.name.split(".")[0])

    def s_ImportFrom(self, s, fr):
        for al in s.names:
            m = self.repo.modules.get(s.module or "")
            if m is not None:
                fr.vars[al.asname or al.name] = self.module_global(al.name, m)
            else:
                fr.vars[al.asname or al.name] = Ext(f"{s.module}.{al.name}")

    def s_Return(self, s, fr):
        raise _Return(self.eval(s.value, fr) if s.value is not None else None)

    def s_Break(self, s, fr):
        raise _Break()

    def s_Continue(self, s, fr):
        raise _Continue()

    def s_Raise(self, s, fr):
        v = None
        if s.exc is not None:
            try:
                v = self.eval(s.exc, fr)
            except EvalError:
                v = None
        raise _Raise(v)

    def s_Delete(self, s, fr):
        for t in s.targets:
            if isinstance(t, ast.Name):
                fr.vars.pop(t.id, None)
            else:
                raise EvalError("del of a non-name")

    def s_ClassDef(self, s, fr):
        sc = self.repo.scope_of(s)
        if sc is None or s.decorator_list:
            raise EvalError("nested class")
        self.class_frames[id(sc)] = fr
        self.assign_name(s.name, self.class_value(sc), fr)

    def s_FunctionDef(self, s, fr):
        c = self.make_closure(s, fr)
        v = c
        for d in reversed(s.decorator_list):
            dv = self.eval(d, fr)
            v = self.call(dv, [v], {})
        self.assign_name(s.name, v, fr)

    def s_Try(self, s, fr):
        self.notes.append("try statement: handlers not interpreted")
        self.exec_block(s.body, fr)
        self.exec_block(s.orelse, fr)
        self.exec_block(s.finalbody, fr)

    def s_With(self, s, fr):
        for item in s.items:
            v = self.eval(item.context_expr, fr)
            if item.optional_vars is not None:
                self.assign(item.optional_vars, v, fr)
        self.notes.append("with statement: context manager protocol not interpreted")
        self.exec_block(s.body, fr)

    def s_Assign(self, s, fr):
        v = self.eval(s.value, fr)
        for t in s.targets:
            self.assign(t, v, fr)

    def s_AnnAssign(self, s, fr):
        if s.value is not None:
            self.assign(s.target, self.eval(s.value, fr), fr)

    def s_AugAssign(self, s, fr):
        t = s.target
        if isinstance(t, ast.Name):
            cur = self.lookup(t.id, fr)
        elif isinstance(t, ast.Attribute):
            base = self.eval(t.value, fr)
            cur = self.getattr(base, t.attr)
        elif isinstance(t, ast.Subscript):
            base = self.eval(t.value, fr)
            idx = self.eval(t.slice, fr)
            cur = self.getitem(base, idx)
        else:
            raise EvalError("augmented assignment target")
        rhs = self.eval(s.value, fr)
        if isinstance(cur, PyList) and isinstance(s.op, ast.Add):
            self.list_method(cur, "extend", [rhs])
            return
        v = self.binop(s.op, cur, rhs)
        if isinstance(t, ast.Name):
            self.assign_name(t.id, v, fr)
        elif isinstance(t, ast.Attribute):
            self.store_attr(base, t.attr, v)
        else:
            self.store_item(base, idx, v, t, fr)

    def assign(self, t, v, fr):
        if isinstance(t, ast.Name):
            self.assign_name(t.id, v, fr)
        elif isinstance(t, (ast.Tuple, ast.List)):
            n = len(t.elts)
            if any(isinstance(x, ast.Starred) for x in t.elts):
                raise EvalError("starred unpacking")
            if isinstance(v, (tuple, PyList, Rec)):
                items = self.iterate(v)
                if len(items) != n:
                    raise EvalError("unpack width")
            elif isinstance(v, Num):
                items = [self.mk_item(v, self.const(i)) for i in range(n)]
            else:
                raise EvalError(f"unpacking of {type(v).__name__}")
            for x, y in zip(t.elts, items):
                self.assign(x, y, fr)
        elif isinstance(t, ast.Attribute):
            self.store_attr(self.eval(t.value, fr), t.attr, v)
        elif isinstance(t, ast.Subscript):
            base = self.eval(t.value, fr)
            idx = self.eval(t.slice, fr)
            self.store_item(base, idx, v, t, fr)
        else:
            raise EvalError("assignment target")

    def store_attr(self, base, name, v):
        if isinstance(base, Obj):
            m = self.find_member(base.cls, name, setter=True) if base.cls is not None else None
            if m is not None and not isinstance(m, tuple):
                self.call(Bound(base, Closure(m, self.def_frame(m))), [v], {})
                return
            self.st.heap.setdefault(base.oid, {})[name] = v
            return
        if isinstance(base, Num):
            a = self.single_atom(base)
            if a is not None:
                self.st.heap.setdefault(("a", a.id), {})[name] = v
                return
        raise EvalError(f"attribute store on {type(base).__name__}")

    def store_item(self, base, idx, v, t, fr):
        if isinstance(base, PyList):
            i = self.const_int(idx)
            if i is None:
                raise EvalError("symbolic list index store")
            if self.trial and base.stamp <= self.trial_stamp[-1]:
                raise _NoMerge("list mutated inside a merged branch")
            base.items[i] = v
            return
        if isinstance(base, PyDict):
            if self.trial and base.stamp <= self.trial_stamp[-1]:
                raise _NoMerge("dict mutated inside a merged branch")
            base.items[self.hashable(idx)] = v
            return
        if isinstance(base, Num):
            new = self.at_update(AtProxy(base, idx, True), "set", [v], {})
            self.assign(t.value, new, fr) if isinstance(t.value, (ast.Name, ast.Attribute)) else self._bad("in-place store target")
            return
        raise EvalError("item store")

    def s_If(self, s, fr):
        f = self.cond(s.test, fr)
        t = self.st.facts.ev(f)
        if t is None:
            snap = self.snapshot(fr)
            try:
                A = self.trial_block(s.body, fr, f, True, snap)
                self.restore(snap)
                B = self.trial_block(s.orelse, fr, f, False, snap)
                self.merge_states(f, snap, A, B)
                return
            except (_NeedFork, _NoMerge):
                self.restore(snap)
                del self.st.events[snap[2]:]
            finally:
                self.drop_snapshot(snap)
            if self.trial:
                raise _NeedFork("if")
            t = self.decide(f)
        self.exec_block(s.body if t else s.orelse, fr)

    # ---- loops
    def s_For(self, s, fr):
        it = self.eval(s.iter, fr)
        if isinstance(it, GenV):
            return self.for_generator(s, fr, it)
        concrete = None
        try:
            concrete = self.iterate(it)
        except EvalError:
            concrete = None
        if concrete is not None:
            if len(concrete) > 64:
                raise EvalError("long loop")
            broke = False
            for x in concrete:
                self.assign(s.target, x, fr)
                try:
                    self.exec_block(s.body, fr)
                except _Break:
                    broke = True
                    break
                except _Continue:
                    continue
            if not broke:
                self.exec_block(s.orelse, fr)
            return
        parts = it.parts if isinstance(it, ZipV) else [it]
        ranges = [p for p in parts if isinstance(p, RangeV)]
        if ranges and all(isinstance(p, (RangeV, LazySeq)) for p in parts):
            for r in ranges:
                if self.const_int(r.step) != 1:
                    raise EvalError("symbolic range with a step")
            bounded = [r for r in ranges if r.hi is not None]
            # the iteration number k >= 0; every bounded range lo + k < hi limits it
            enter = f_and(*[self.cmp_formula("Lt", r.lo, r.hi) for r in bounded]) if bounded else None

            def bind_target():
                k = self.sym(f"iter:{self.loop_key(s)}", "1", kind="hav")
                self.domain[self.single_atom(k).id] = "count"
                self.st.facts.assume(self.cmp_formula("GtE", k, self.const(0)), True, log=False)
                vals = []
                for p in parts:
                    if isinstance(p, RangeV):
                        v = self.add(p.lo, k)
                        if p.hi is not None:
                            self.st.facts.assume(self.cmp_formula("Lt", v, p.hi), True, log=False)
                        vals.append(v)
                    else:
                        # entry number k of prefix + constant tail
                        val = p.tail
                        chosen = False
                        for j, a in enumerate(p.prefix):
                            if self.decide(self.cmp_formula("Eq", k, self.const(j))):
                                val, chosen = a, True
                                break
                        vals.append(val)
                self.assign(s.target, tuple(vals) if isinstance(it, ZipV) else vals[0], fr)
        else:
            if not isinstance(it, Num):
                raise EvalError(f"loop over {type(it).__name__}")
            enter = ("t", "nonempty:" + self.key(it))

            def bind_target():
                self.assign(s.target, self.app("hav", "elem", (it,)), fr)
        self.general_loop(s, fr, enter, bind_target, None)

    def for_generator(self, s, fr, gen):
        """`for target in generator(...)`: the generator body is run; at every yield the loop body runs in the consumer's frame"""
        def handler(v):
            self.assign(s.target, v, fr)
            try:
                self.exec_block(s.body, fr)
            except _Continue:
                return
            except (_Break, _Return) as ex:
                raise _Consumer(ex)
        try:
            self.run_generator(gen, handler)
        except _Consumer as c:
            if isinstance(c.exc, _Break):
                return
            raise c.exc
        self.exec_block(s.orelse, fr)

    def s_While(self, s, fr):
        # a test that is decided by the known values is executed (unrolled); the first undecided test generalises the loop
        for _ in range(65):
            t = self.st.facts.ev(self.cond(s.test, fr))
            if t is None or (t is True and isinstance(s.test, ast.Constant)):
                return self.general_loop(s, fr, None, lambda: None, s.test)
            if t is False:
                self.exec_block(s.orelse, fr)
                return
            try:
                self.exec_block(s.body, fr)
            except _Break:
                return
            except _Continue:
                continue
        raise EvalError("long loop")

    def loop_key(self, s):
        return f"{getattr(s, 'lineno', 0)}:{getattr(s, 'col_offset', 0)}@{self.depth}"

    def cells(self, fr):
        """current values of all cells a loop body may change: variables of the lexical frame chain, attribute cells"""
        out = {}
        f, lvl = fr, 0
        seen = set()
        while f is not None and f.scope.kind != "module":
            seen.add(f.fid)
            for n, v in f.vars.items():
                out[("v", lvl, n)] = self._frozen(v)
            f, lvl = f.parent, lvl + 1
        # frames of the callers (a loop body can reach them only through closures, but the states joined at a cut differ there too)
        for i, f in enumerate(self.frame_stack):
            if f.fid in seen or f.scope.kind == "module":
                continue
            seen.add(f.fid)
            for n, v in f.vars.items():
                out[("w", i, n)] = self._frozen(v)
        for o, h in self.st.heap.items():
            for n, v in h.items():
                out[("h", o, n)] = self._frozen(v)
        return out

    @staticmethod
    def _frozen(v):
        """mutable python containers are compared / restored by content"""
        if isinstance(v, PyDict):
            return PyDict(dict(v.items), v.stamp)
        if isinstance(v, PyList):
            return PyList(list(v.items), v.stamp)
        return v

    def set_cell(self, fr, cell, v):
        if isinstance(v, PyDict):
            self.stamp += 1
            v = PyDict(dict(v.items), self.stamp)
        elif isinstance(v, PyList):
            v = self.new_list(v.items)
        if cell[0] == "v":
            f = fr
            for _ in range(cell[1]):
                f = f.parent
            f.vars[cell[2]] = v
        elif cell[0] == "w":
            if cell[1] < len(self.frame_stack):
                self.frame_stack[cell[1]].vars[cell[2]] = v
        else:
            self.st.heap.setdefault(cell[1], {})[cell[2]] = v

    def havoc_value(self, lid, cell, old):
        nm = f"{lid}:{cell[0]}:{cell[1]}:{cell[2]}"
        if isinstance(old, (Bv, bool)):
            return Bv(("t", "hav:" + nm))
        if isinstance(old, Num):
            return self.sym(nm, self.dim_of(old), kind="hav")
        if isinstance(old, tuple):
            return tuple(self.havoc_value(lid, (cell[0], cell[1], f"{cell[2]}[{i}]"), x) for i, x in enumerate(old))
        if old is None:
            return self.sym(nm, None, kind="hav")
        if isinstance(old, Rec):
            return Rec(old.nt, [self.havoc_value(lid, (cell[0], cell[1], f"{cell[2]}.{f}"), x) for f, x in zip(old.nt.fields, old.values)])
        if isinstance(old, PyDict):
            self.stamp += 1
            return PyDict({k: self.havoc_value(lid, (cell[0], cell[1], f"{cell[2]}[{k!r}]"), x) for k, x in old.items.items()}, self.stamp)
        if isinstance(old, PyList):
            return self.new_list([self.havoc_value(lid, (cell[0], cell[1], f"{cell[2]}[{i}]"), x) for i, x in enumerate(old.items)])
        if isinstance(old, (str, Closure, Bound, PartialV, Ext, ModuleV, ClassV, NTClass, GradFn, VMapFn)):
            raise EvalError(f"loop rebinds the {type(old).__name__} valued cell {cell[2]} to different values")
        raise EvalError(f"loop changes a {type(old).__name__} valued cell {cell[2]}")

    def same_value(self, a, b):
        if a is b:
            return True
        try:
            return type(a) is type(b) and self.key(a) == self.key(b)
        except EvalError:
            return False

    def general_loop(self, s, fr, enter, bind_target, test):
        if self.trial:
            raise _NeedFork("loop")
        lid = self.loop_key(s)
        info = self.loops.setdefault(lid, LoopInfo(lid))
        top = self.gen_depth == 0 and self.cuts is not None
        if enter is not None:
            if not self.decide(enter):
                self.exec_block(s.orelse, fr)
                return
        installs = self.phase["installs"] if self.phase is not None else {}
        if top and lid not in self.installed:
            if lid in installs:
                self.installed.add(lid)
                st0, facts0 = installs[lid]
                cur = self.cells(fr)
                for cell, v in st0.items():
                    c = cur.get(cell)
                    # keep the objects of this run (closures refer to this run's frames, objects to this run's heap)
                    if c is not None and ((isinstance(c, Obj) and isinstance(v, Obj) and c.oid == v.oid) or
                                          (not isinstance(v, (Num, Bv, bool)) and self.same_value(c, v))):
                        continue
                    self.set_cell(fr, cell, v)
                self.st.facts = facts0.copy()
            else:
                self.cut_loops.add(lid)
                self.cuts.setdefault(lid, []).append((self.cells(fr), self.st.facts.copy(), list(self.dec.trace)))
                raise _Cut(lid)
        head = self.cells(fr)
        hv = {}
        for cell in sorted(info.mod, key=repr):
            if cell in head:
                hv[cell] = self.havoc_value(lid, cell, head[cell])
                self.set_cell(fr, cell, hv[cell])
        head = self.cells(fr)
        if test is not None:
            if not self.truth(self.eval(test, fr)):
                self.exec_block(s.orelse, fr)
                return
        bind_target()
        self.st.events.append(Event("loophead", loop=lid, cells=dict(head), havoc=hv, guards=self.st.guards))
        broke = False
        self.gen_depth += 1
        try:
            self.exec_block(s.body, fr)
        except _Break:
            broke = True
        except _Continue:
            pass
        finally:
            self.gen_depth -= 1
        if broke:
            return
        cur = self.cells(fr)
        new = [c for c, v in cur.items() if c in head and c not in info.mod and not self.same_value(v, head[c])]
        if new:
            info.mod.update(new)
            raise _Restart(lid)
        self.st.events.append(Event("backedge", loop=lid, cells=cur, guards=self.st.guards))
        if self.observer is not None:
            self.observer.on_backedge(self, lid, fr)
        if test is not None:
            t = self.truthf(self.eval(test, fr))
            tv = self.st.facts.ev(t)
            if tv is True:
                raise _EndPath(lid)          # the loop goes on: nothing after it is reached from this iteration
            if tv is None:
                self.st.facts.assume(t, False, log=False)
        self.exec_block(s.orelse, fr)

    # ---- exploration
    def run_path(self, thunk, script):
        self.st = State()
        if self._base is None:
            self._base = (self.oid, self.fid, self.stamp)
        self.oid, self.fid, self.stamp = self._base
        for f, v in self.assumptions:
            self.st.facts.assume(f, v, log=False)
        self.dec = Decider(script)
        self.depth = 0
        self.trial = 0
        self.gen_depth = 0
        self.frame_stack = []
        self.installed = set()
        self.yield_handlers = []
        self.snap_frames = []
        self.trial_stamp = []
        try:
            v = thunk()
            kind = "return"
        except _Return as r:
            v, kind = r.value, "return"
        except _Raise as r:
            v, kind = r.value, "raise"
        except _Cut:
            return None
        except _EndPath:
            v, kind = None, "loop"
        obs = None
        if self.observer is not None:
            obs = self.observer.on_end(self, kind, v)
        return PathEnd(kind, v, self.st, list(self.dec.trace), obs)

    def explore(self, thunk):
        """all path ends of thunk(); generalised loops of the analysed function are analysed from the join of the states reaching them"""
        ends = []
        phases = [None]
        npaths = 0
        while phases:
            ph = phases.pop(0)
            floor = len(ph["prefix"]) if ph else 0
            while True:
                self.phase = ph
                self.cuts = {}
                local = []
                script = list(ph["prefix"]) if ph else []
                restart = False
                while script is not None:
                    npaths += 1
                    if npaths > self.max_paths:
                        raise Budget("path budget exhausted")
                    try:
                        e = self.run_path(thunk, script)
                    except _Restart:
                        restart = True
                        break
                    if e is not None:
                        local.append(e)
                    script = next_script(self.dec.trace, floor)
                if not restart:
                    break
            ends.extend(local)
            for lid, snaps in self.cuts.items():
                nph = self.join_cut(lid, snaps)
                nph["installs"] = dict(ph["installs"] if ph else {}, **{lid: nph["installs"]})
                phases.append(nph)
                if len(phases) > 12:
                    raise Budget("too many loop cuts")
        self.phase = None
        self.cuts = None
        return ends

    def join_cut(self, lid, snaps):
        cells0, facts0, trace0 = snaps[0]
        info = self.loops[lid]
        state = dict(cells0)
        for cells, _, _ in snaps[1:]:
            for c, v in cells.items():
                if c in state and not self.same_value(state[c], v):
                    info.mod.add(c)
            for c in list(state):
                if c not in cells:
                    del state[c]
        facts = facts0.copy()
        for _, f2, _ in snaps[1:]:
            facts.signs = {k: v for k, v in facts.signs.items() if f2.signs.get(k) == v}
            facts.truth = {k: v for k, v in facts.truth.items() if f2.truth.get(k) == v}
            keys2 = {(fkey(f), v) for f, v in f2.log}
            facts.log = [(f, v) for f, v in facts.log if (fkey(f), v) in keys2]
        return {"installs": (state, facts), "prefix": list(trace0)}


# ------------------------------------------------------------------------------------------------ witnesses by evaluation

class NoSample(Exception):
    """the value mentions an operation whose range is not modelled: no witness can be built"""


class Sampler:
    """evaluates values at points of the admissible domain: every uninterpreted application / input / loop-head unknown is an
    independent variable (drawn in its declared domain), structured atoms are computed from their parts"""

    def __init__(self, M: Terms, seed=0):
        self.M = M
        self.rng = random.Random(seed)
        self.env = {}
        self.tenv = {}

    def reset(self):
        self.env, self.tenv = {}, {}

    def draw(self, dom):
        r = self.rng
        if dom == "pos":
            return r.choice((0.25, 0.5, 1.0, 2.0, 3.0)) * r.choice((1.0, 1.5))
        if dom == "nonneg":
            return r.choice((0.0, 0.5, 1.0, 2.0))
        if dom == "count":
            return float(r.choice((0, 1, 2, 3, 4, 7, 12, 30, 100, 1000)))
        if isinstance(dom, tuple) and dom[0] == "ge":
            return float(dom[1]) + r.choice((0.0, 0.5, 1.0, 3.0))
        return r.choice((-3.0, -2.0, -1.0, -0.5, 0.0, 0.5, 1.0, 2.0, 3.0))

    def atom(self, a: Atom):
        if a.id in self.env:
            return self.env[a.id]
        v = self._atom(a)
        self.env[a.id] = v
        return v

    def free_ok(self, a: Atom, depth=0):
        k = a.kind
        if k == "app" and str(a.key).startswith("repo:"):
            # a repository function that was not interpreted (inline policy): its range is NOT arbitrary, so no witness may assign it a value
            return False
        if k in ("sym", "hav", "attr", "app", "new", "D", "n2", "size", "sum"):
            return True
        if k == "ext":
            nm = a.parts[0].name if isinstance(a.parts[0], Ext) else (a.parts[0] if isinstance(a.parts[0], str) else "")
            return nm.split(".")[-1] in FREE_RANGE_EXT
        if k == "item":
            b = a.parts[0]
            if isinstance(b, Num) and depth < 6:
                return all(self.free_ok(x, depth + 1) for x in self.M.atoms_of(b))
            return isinstance(b, tuple)
        return False

    def _atom(self, a: Atom):
        M, k = self.M, a.kind
        dom = M.domain.get(a.id)
        if k == "sel":
            return self.num(a.parts[1]) if self.formula(a.parts[0]) else self.num(a.parts[2])
        if k == "ind":
            return 1.0 if self.formula(a.parts[0]) else 0.0
        if k == "max":
            return max(self.num(x) for x in a.parts)
        if k == "min":
            return min(self.num(x) for x in a.parts)
        if k == "abs":
            return abs(self.num(a.parts[0]))
        if k == "sqrt":
            v = self.num(a.parts[0])
            if v < 0:
                raise NoSample("sqrt of a negative sample")
            return math.sqrt(v)
        if k == "gm":
            return self.atom(M.by_id[a.parts[0]])
        if k == "mulmask":
            return self.num(a.parts[1]) if self.rng.random() < 0.5 else 1.0
        if k == "n2":
            return self.draw("nonneg" if self.rng.random() < 0.3 else "pos")
        if k == "size":
            return float(self.rng.choice((1, 2, 3, 5)))
        if k == "sum":
            inner = a.parts[0]
            if isinstance(inner, Num) and M.nonneg(inner):
                return self.draw("nonneg")
            return self.draw(dom)
        if k == "op":
            fn, args = a.parts[0], a.parts[1]
            if fn == "pow":
                x, y = self.num(args[0]), self.num(args[1])
                try:
                    r = x ** y
                except (OverflowError, ZeroDivisionError, ValueError):
                    raise NoSample("pow")
                if isinstance(r, complex):
                    raise NoSample("pow")
                return r
            if fn == "exp":
                return math.exp(min(self.num(args[0]), 50.0))
            if fn == "sign":
                x = self.num(args[0])
                return (x > 0) - (x < 0)
            if fn == "norm_ord":
                return self.draw("nonneg")
            if fn in ("reduce_max", "reduce_min", "dot"):
                return self.draw(dom)
            raise NoSample(fn)
        if k == "shift":
            lb = M.domain[a.parts[0]][1]
            return self.atom(M.by_id[a.parts[0]]) - float(lb)
        if self.free_ok(a):
            return self.draw(dom)
        raise NoSample(a.kind + ":" + a.key[:60])

    def poly(self, p: Poly):
        tot = 0.0
        for m, c in p.t.items():
            v = float(c)
            for k, e in m:
                x = self.atom(self.M.by_id[k])
                if e < 0 and x == 0:
                    raise NoSample("division by zero")
                v *= x ** e
            tot += v
        return tot

    def num(self, v: Num):
        n = self.poly(v.r.n)
        if v.r.d == ONE:
            return n
        d = self.poly(v.r.d)
        if d == 0:
            raise NoSample("division by zero")
        return n / d

    def formula(self, f):
        k = f[0]
        if k == "c":
            return f[1]
        if k in ("lt0", "le0", "eq0"):
            v = self.num(f[2])
            return v < 0 if k == "lt0" else (v <= 0 if k == "le0" else v == 0)
        if k == "t":
            if f[1] not in self.tenv:
                self.tenv[f[1]] = self.rng.random() < 0.5
            return self.tenv[f[1]]
        if k == "not":
            return not self.formula(f[1])
        if k == "and":
            return all(self.formula(g) for g in f[1])
        return any(self.formula(g) for g in f[1])

    def witness(self, test, log=(), tries=300, strict=None):
        """a sample consistent with the logged decisions at which test(sampler) holds; None if none found;
        raises NoSample when the tested value cannot be evaluated (a logged decision that cannot be evaluated is an
        independent opaque predicate and is taken as satisfiable)"""
        for _ in range(tries):
            self.reset()
            try:
                ok = True
                for f, val in log:
                    if f[0] == "t":
                        self.tenv[f[1]] = val
                if not test(self):
                    continue
                for f, val in log:
                    try:
                        if self.formula(f) != val:
                            ok = False
                            break
                    except NoSample:
                        if strict is not None and strict(f):
                            raise           # a decision about the tested quantity itself must be understood
                        continue
                if ok:
                    return dict(self.env)
            except (OverflowError, ZeroDivisionError):
                continue
        return None
