"""C17 -- safeguarded scalar root finder: bracket contract and differentiability wiring (structure only).

  O1  the initial guess is clipped into the bracket before any other use; NaN seeding on a missing sign change
      comes next and *precedes* the end-point overrides (so an end point that is itself a root is returned), which
      precede the loop; each step reads the previous value of the guess;
  O2  end-point pairing: f(bracket[0]) == 0 selects bracket[0], f(bracket[1]) == 0 selects bracket[1];
  O3  orientation and bracket maintenance use one sign convention (the `low' end is where f < 0);
  O4  the bisection step is the midpoint of the current bracket; the Newton step is x - f/f';
      Newton is rejected when it leaves the bracket (product test on both ends);
  O5  the while-loop carry has one order in the initial tuple, both unpackings, the body's return and the result;
  O6  the result is masked by `converged` (NaN otherwise);
  O7  implicit differentiation: find_root hands the user function, the clipped solver and the tangent solve
      y / g(1) to jax.lax.custom_root.
Not decided: that the returned value meets the tolerance and lies in the bracket for every function (trajectory).
"""
from __future__ import annotations

import ast

from optilint.cfg import cfg_of
from optilint.model import dotted, FuncVal
from optilint.core import Incomplete
from optilint.expr import Algebra, NotPolynomial
from .common import src, same, calls_in, const_value, expand

LEVEL = "other"
RULE_TEXT = ("obligations = (situation of the bracket / guess x value of the initial carry) + (situation of one loop step x value of the returned carry) + "
             "(use of the loop result) + custom_root wiring + settings wiring")
EXPLANATION = ("rtsafe_ is interpreted symbolically (opaque user function f@x / df@x, comparisons decided at one rational sample per situation): the initial carry in "
               "10 situations of bracket signs and guess position, one loop step in 9 situations (Newton admissible / leaves the bracket / too slow, decreasing "
               "function, tolerances, stagnation) with exact comparison of the new iterate, step, bracket, residual slot, counter and flag, the loop guard, and the "
               "masking of the result by the flag; find_root's custom_root wiring; named-field wiring of get_settings. That the iteration reaches the tolerance for "
               "every function is trajectory dependent and not decided.")

SR = "optimism.ScalarRootFind"


def run(ctx):
    ctx.need_module(SR)
    rt = ctx.need(f"{SR}:rtsafe_")
    ctx.guard(semantic, ctx, rt)
    ctx.guard(o7, ctx)
    from .common import settings_wiring
    ctx.guard(settings_wiring, ctx, "O4/T5-settings-wiring", SR)
    ctx.trust("jax.lax.custom_root(f, x0, solve, tangent_solve) differentiates the root implicitly with tangent_solve(g, y) = y / g(1) for scalar g")


# ------------------------------------------------------------------ semantic model of rtsafe_ (symbolic interpretation, region sampling)

class _Model:
    """rtsafe_ interpreted by optilint.tensoreval on symbolic data.  The user function is opaque: f(x) is the atom `f@<x>`, its derivative
    `df@<x>`.  Comparisons are decided at a rational sample of the region under study, values stay symbolic.  jax.lax.while_loop is replaced
    either by the identity (to look at the initial carry) or by a tuple of fresh symbols (to look at what is done with the result)."""

    def __init__(self, ctx):
        from optilint.tensoreval import Interp, Dual, Arr, PyFunc, _A
        self.ctx = ctx
        self.mod = ctx.need_module(SR)
        self.T = (Interp, Dual, Arr, PyFunc, _A)

    def interp(self, env):
        Interp, Dual, Arr, PyFunc, _A = self.T
        from optilint.expr import simplify
        from fractions import Fraction as F
        I = Interp(self.ctx.repo)

        def val(d):
            e = dict(env)
            for a in d.atoms():
                if a not in e:
                    if a.startswith("f@"):
                        e[a] = env.get("f@*", F(1, 3))
                    elif a.startswith("df@"):
                        e[a] = env.get("df@*", F(2))
                    else:
                        return None
            try:
                return _A.eval(d, e)
            except Exception:
                return None
        I.policy = val

        def key(x):
            from optilint.tensoreval import Ext
            if isinstance(x, Ext):
                return "nan"
            return repr(simplify(I.num(x).a))
        f = PyFunc("f", lambda it, a, k: Dual(_A.atom("f@" + key(a[0]))), grad=lambda it, a, k: Dual(_A.atom("df@" + key(a[0]))))
        return I, f

    def run(self, env, loop_mode, x0=None):
        Interp, Dual, Arr, PyFunc, _A = self.T
        I, f = self.interp(env)
        rec = {}

        def wl(it, args, kw):
            rec["cond"], rec["body"], rec["init"] = args
            if loop_mode == "init":
                return args[2]
            return tuple(Dual(_A.atom(f"L{i}")) for i in range(len(args[2])))
        I.ext_special["jax.lax.while_loop"] = wl
        st = I.call(I.module_value(self.mod, "Settings"), [50, Dual(_A.atom("xtol")), Dual(_A.atom("rtol"))], {})
        br = Arr([Dual(_A.atom("b0")), Dual(_A.atom("b1"))], (2,))
        out = I.call(I.module_value(self.mod, "rtsafe_"), [f, Dual(_A.atom("x0")) if x0 is None else x0, br, st], {})
        return out, rec, I


def _isnan(v):
    from optilint.tensoreval import Ext, Dual
    return (isinstance(v, Ext) and v.name.split(".")[-1].lower() == "nan") or (isinstance(v, Dual) and "@nan" in v.a.atoms())


def _eqv(I, a, b):
    from optilint.tensoreval import _A
    try:
        return _A.equal(I.num(a).a, I.num(b).a)
    except Exception:
        return False


def semantic(ctx, rt):
    from fractions import Fraction as F
    from optilint.tensoreval import Dual, Arr, EvalError, Raised, _A, Record
    M = _Model(ctx)
    base = {"b0": F(0), "b1": F(2), "x0": F(1), "f@b0": F(-1), "f@b1": F(1), "xtol": F(1, 10 ** 9), "rtol": F(1, 10 ** 9)}
    A = lambda n: Dual(_A.atom(n))
    # ---- roles of the carry slots, read off the initial carry in the standard situation (sign change, guess inside, f(b0) < 0)
    try:
        out, rec, I = M.run(base, "init")
    except (EvalError, Raised, KeyError, TypeError, AttributeError, IndexError) as ex:
        raise Incomplete(f"rtsafe_ cannot be interpreted: {ex}")
    init = list(rec.get("init", ()))
    role = {}
    for k, v in enumerate(init):
        if isinstance(v, bool):
            role.setdefault("conv", k)
        elif isinstance(v, int) and v == 0:
            role.setdefault("iter", k)
        elif _eqv(I, v, A("x0")):
            role.setdefault("root", k)
        elif _eqv(I, v, A("f@x0")):
            role.setdefault("F", k)
        elif _eqv(I, v, A("df@x0")):
            role.setdefault("DF", k)
        elif _eqv(I, v, A("b0")):
            role.setdefault("xl", k)
        elif _eqv(I, v, A("b1")):
            role.setdefault("xh", k)
        elif _eqv(I, v, A("b1") - A("b0")):
            role.setdefault("dx" if "dx" not in role else "dxOld", k)
    need = ("root", "F", "DF", "xl", "xh", "conv", "iter", "dx", "dxOld")
    ctx.decide("O5/T5-loop-carry-slots", all(r in role for r in need) and len(init) == len(need), rt, None, construct="carry-initial-and-result",
               detail=f"initial carry = (guess, |b1-b0| twice, f and f' at the guess, oriented bracket, False, 0): roles {role}",
               bad_detail=f"the initial while-loop carry {[repr(v)[:24] for v in init]} is not (guess, two copies of the bracket length, f(guess), f'(guess), "
                          f"end with f<0, end with f>0, not-converged, 0): roles found {role}")
    if not all(r in role for r in need):
        return
    # dx vs dxOld are told apart by the body (below); slot order of the two equal initial values is arbitrary here
    # ---- O6 / result: what is returned from the loop result
    try:
        env = dict(base)
        env.update({f"L{k}": F(k + 2) for k in range(len(init))})
        out, _, I2 = M.run(env, "sym")
        root_out, info = out[0], out[1]
        ok_x = _eqv(I2, root_out, A(f"L{role['root']}"))
        conv_field = info.get("converged") if isinstance(info, Record) else None
        ok_c = conv_field is not None and _eqv(I2, conv_field, A(f"L{role['conv']}"))
        env[f"L{role['conv']}"] = F(0)
        out0, _, _ = M.run(env, "sym")
        ok_m = _isnan(out0[0])
        ctx.decide("O6/T1-result-masked", ok_x and ok_c and ok_m, rt, None, construct="nan-unless-converged",
                   detail="returns the loop's iterate when the loop's flag is set, NaN otherwise; SolutionInfo.converged is that flag",
                   bad_detail=f"after the loop: returned root is the iterate slot when converged: {ok_x}; SolutionInfo.converged is the flag slot: {ok_c}; "
                              f"NaN when the flag is not set: {ok_m} (an unconverged iterate could be returned as a root)")
    except (EvalError, Raised, KeyError, TypeError, AttributeError, IndexError) as ex:
        ctx.undecided("O6/T1-result-masked", rt, None, construct="nan-unless-converged", detail=f"cannot interpret the code after the loop: {ex}")
    # ---- O1/O2/O3: preparation of the guess and orientation, by region
    regions = [
        # label, overrides, expected root, expected (xl, xh), expected converged
        ("sign-change,f(b0)<0,guess-inside", {}, "x0", ("b0", "b1"), False),
        ("sign-change,f(b0)>0,guess-inside", {"f@b0": F(1), "f@b1": F(-1)}, "x0", ("b1", "b0"), False),
        ("guess-below-bracket", {"x0": F(-3)}, "b0", ("b0", "b1"), False),
        ("guess-above-bracket", {"x0": F(7)}, "b1", ("b0", "b1"), False),
        ("no-sign-change,both-positive", {"f@b0": F(2), "f@b1": F(1)}, "nan", None, False),
        ("no-sign-change,both-negative", {"f@b0": F(-2), "f@b1": F(-1)}, "nan", None, False),
        ("left-end-is-root", {"f@b0": F(0), "f@b1": F(1)}, "b0", None, True),
        ("left-end-is-root,other-end-negative", {"f@b0": F(0), "f@b1": F(-1)}, "b0", None, True),
        ("right-end-is-root", {"f@b0": F(-1), "f@b1": F(0)}, "b1", None, True),
        ("right-end-is-root,guess-outside", {"f@b0": F(1), "f@b1": F(0), "x0": F(9)}, "b1", None, True),
    ]
    for lab, ov, eroot, ebr, econv in regions:
        env = dict(base)
        env.update(ov)
        try:
            _, rec, I3 = M.run(env, "init")
            ini = rec["init"]
        except (EvalError, Raised, KeyError, TypeError, AttributeError, IndexError) as ex:
            ctx.undecided("O1-O2/T2-guess-preparation-order", rt, None, construct=f"initial-iterate[{lab}]", detail=str(ex))
            continue
        r0 = ini[role["root"]]
        okr = _isnan(r0) if eroot == "nan" else _eqv(I3, r0, A(eroot))
        okc = ini[role["conv"]] is econv
        rule = "O1-O2/T5-endpoint-pairing" if "is-root" in lab else "O1-O2/T2-guess-preparation-order"
        what = {"x0": "the guess", "b0": "bracket[0]", "b1": "bracket[1]", "nan": "NaN"}[eroot]
        ctx.decide(rule, okr and okc, rt, None, construct=f"initial-iterate[{lab}]",
                   detail=f"iteration starts from {what}, converged = {econv}",
                   bad_detail=f"in the situation [{lab}] the iteration starts from `{repr(r0)[:50]}` with converged = {ini[role['conv']]}; the contract requires {what} "
                              f"with converged = {econv} (clip the guess into the bracket, NaN without a sign change, an end point that is a root wins)")
        if ebr is not None:
            okb = _eqv(I3, ini[role["xl"]], A(ebr[0])) and _eqv(I3, ini[role["xh"]], A(ebr[1]))
            ctx.decide("O3/T6-sign-convention", okb, rt, None, construct=f"orientation[{lab}]", detail=f"(end with f<0, end with f>0) = ({ebr[0]}, {ebr[1]})",
                       bad_detail=f"in the situation [{lab}] the bracket is oriented as ({repr(ini[role['xl']])[:20]}, {repr(ini[role['xh']])[:20]}); the first must be the end where f < 0")
    # ---- O3/O4/O5: one iteration of the loop body on a symbolic carry
    body = rec.get("body")
    names = {"root": "Cx", "dx": "Cd", "dxOld": "Co", "F": "CF", "DF": "CD", "xl": "Cl", "xh": "Ch", "iter": "Ci"}
    samples = [
        # label, numeric carry, f at the new point, tolerances
        ("newton-accepted,f(new)<0", dict(Cx=F(1), Cd=F(1), Co=F(1), CF=F(1, 10), CD=F(1), Cl=F(0), Ch=F(2), Ci=F(3)), F(-1, 7), {}),
        ("newton-accepted,f(new)>0", dict(Cx=F(1), Cd=F(1), Co=F(1), CF=F(1, 10), CD=F(1), Cl=F(0), Ch=F(2), Ci=F(3)), F(1, 7), {}),
        ("newton-leaves-bracket", dict(Cx=F(1), Cd=F(1), Co=F(1), CF=F(5), CD=F(1), Cl=F(0), Ch=F(2), Ci=F(3)), F(1, 7), {}),
        ("newton-too-slow", dict(Cx=F(1), Cd=F(1, 10), Co=F(1, 10), CF=F(1, 10), CD=F(1), Cl=F(0), Ch=F(2), Ci=F(3)), F(-1, 7), {}),
        ("decreasing-function,bisection", dict(Cx=F(1), Cd=F(1), Co=F(1), CF=F(5), CD=F(-1), Cl=F(2), Ch=F(0), Ci=F(0)), F(1, 7), {}),
        ("residual-below-tolerance", dict(Cx=F(1), Cd=F(1), Co=F(1), CF=F(1, 10), CD=F(1), Cl=F(0), Ch=F(2), Ci=F(3)), F(1, 10 ** 12), {}),
        ("step-below-tolerance", dict(Cx=F(1), Cd=F(1), Co=F(1), CF=F(1, 10 ** 12), CD=F(1), Cl=F(0), Ch=F(2), Ci=F(3)), F(1, 7), {}),
        ("bisection-stagnates,zero-tolerances", dict(Cx=F(1), Cd=F(1), Co=F(1), CF=F(5), CD=F(1), Cl=F(1), Ch=F(1), Ci=F(3)), F(1, 7), {"xtol": F(0), "rtol": F(0)}),
        ("newton-stagnates,zero-tolerances", dict(Cx=F(1), Cd=F(1), Co=F(1), CF=F(0), CD=F(1), Cl=F(0), Ch=F(2), Ci=F(3)), F(1, 7), {"xtol": F(0), "rtol": F(0)}),
    ]
    if body is None:
        ctx.undecided("O4/T7-steps", rt, None, construct="loop-body", detail="loop body not captured")
        return
    for lab, num, fnew, tols in samples:
        for conv_in in (False,):
            env = dict(base)
            env.update(num)
            env.update(tols)
            env["f@*"] = fnew
            try:
                I4, f4 = M.interp(env)
                # the body is a closure of rtsafe_: rebuild it in an interpreter that decides comparisons at this sample
                _, rec4, I4 = M.run(env, "init")
                body4 = rec4["body"]
                I4.policy = M.interp(env)[0].policy
                carry = [None] * len(init)
                for r_, nm in names.items():
                    carry[role[r_]] = A(nm)
                carry[role["conv"]] = conv_in
                out = I4.call(body4, [tuple(carry)], {})
            except (EvalError, Raised, KeyError, TypeError, AttributeError, IndexError) as ex:
                ctx.undecided("O4/T7-steps", rt, None, construct=f"step[{lab}]", detail=str(ex))
                continue
            g = lambda r_: out[role[r_]]
            Cx, Cd, Co, CF, CD, Cl, Ch = (A(names[k]) for k in ("root", "dx", "dxOld", "F", "DF", "xl", "xh"))
            v = num
            oor = ((v["Cx"] - v["Ch"]) * v["CD"] - v["CF"]) * ((v["Cx"] - v["Cl"]) * v["CD"] - v["CF"]) > 0
            slow = abs(2 * v["CF"]) > abs(v["Co"] * v["CD"])
            if oor or slow:
                want_x, want_dx, kind = Cl + (Ch - Cl) * Dual(F(1, 2)), (Ch - Cl) * Dual(F(1, 2)), "bisection"
            else:
                want_x, want_dx, kind = Cx - CF / CD, Dual(0) - CF / CD, "Newton"
            ok_x = _eqv(I4, g("root"), want_x)
            ok_dx = _eqv(I4, g("dx"), want_dx) or _eqv(I4, g("dxOld"), want_dx)
            if conv_in is False:
                ctx.decide("O4/T7-steps", ok_x and ok_dx, rt, None, construct=f"step[{lab}]",
                           detail=f"{kind} step: new iterate {repr(I4.num(want_x).a)[:60]}",
                           bad_detail=f"in the situation [{lab}] ({'Newton leaves the bracket' if oor else 'Newton converges too slowly' if slow else 'Newton is admissible'}) the "
                                      f"new iterate is `{repr(g('root'))[:70]}` with step `{repr(g('dx'))[:40]}`; expected the {kind} step {repr(I4.num(want_x).a)[:60]}")
                # bracket maintenance
                if ok_x:
                    neg = fnew < 0
                    okb = (_eqv(I4, g("xl"), want_x) and _eqv(I4, g("xh"), Ch)) if neg else (_eqv(I4, g("xl"), Cl) and _eqv(I4, g("xh"), want_x))
                    ctx.decide("O3/T6-sign-convention", okb, rt, None, construct=f"bracket-maintenance[{lab}]",
                               detail=f"f(new) {'<' if neg else '>='} 0 replaces the end where f is {'negative' if neg else 'positive'}",
                               bad_detail=f"in the situation [{lab}] with f(new) {'<' if neg else '>='} 0 the bracket becomes ({repr(g('xl'))[:30]}, {repr(g('xh'))[:30]}): the end "
                                          f"with the same sign as f(new) must be replaced (sign conventions of orientation and maintenance disagree)")
                    # carried values
                    okc = _eqv(I4, g("F"), A("f@" + repr(__import__("optilint.expr", fromlist=["simplify"]).simplify(I4.num(want_x).a)))) and \
                        _eqv(I4, g("iter"), A("Ci") + Dual(1))
                    shift = _eqv(I4, g("dxOld"), Cd) or _eqv(I4, g("dx"), want_dx)
                    ctx.decide("O5/T5-loop-carry-slots", okc and shift, rt, None, construct=f"carry-order[{lab}]",
                               detail="residual slot = f(new iterate), counter + 1, previous step kept",
                               bad_detail=f"in the situation [{lab}] the carry is returned out of order: residual slot {repr(g('F'))[:40]}, counter {repr(g('iter'))[:20]}, "
                                          f"step-before-last {repr(g('dxOld'))[:30]}")
            # convergence flag
            step_v = ((v["Ch"] - v["Cl"]) / 2) if (oor or slow) else (-v["CF"] / v["CD"])
            start_v = v["Cl"] if (oor or slow) else v["Cx"]
            stag = (start_v + step_v == start_v)       # the step no longer changes the iterate: the step functions report convergence
            want_conv = conv_in or stag or abs(fnew) < env["rtol"] or abs(step_v) < env["xtol"]
            got_conv = g("conv")
            if isinstance(got_conv, bool):
                ctx.decide("O6/T1-result-masked", got_conv == bool(want_conv), rt, None, construct=f"convergence-test[{lab},flag-in={conv_in}]",
                           detail=f"flag = {bool(want_conv)}: stagnation of the step or |step| < x_tol or |f(new)| < r_tol",
                           bad_detail=f"in the situation [{lab}] with the flag {'already set' if conv_in else 'not yet set'} the body returns converged = {got_conv}; "
                                      f"expected {bool(want_conv)} (stagnation reported by the step function | (|dx| < x_tol) | (|F| < r_tol))")
            else:
                ctx.undecided("O6/T1-result-masked", rt, None, construct=f"convergence-test[{lab},flag-in={conv_in}]", detail=f"flag is not boolean: {got_conv!r}")
    # loop guard: continues while not converged and the counter is below max_iters
    cond = rec.get("cond")
    try:
        res = []
        for conv_in, it_ in ((False, F(3)), (True, F(3)), (False, F(50)), (False, F(51))):
            env = dict(base)
            env.update({"Ci": it_})
            _, rec5, I5 = M.run(env, "init")
            I5.policy = M.interp(env)[0].policy
            carry = [A(f"C{k}") for k in range(len(init))]
            carry[role["conv"]] = conv_in
            carry[role["iter"]] = A("Ci")
            res.append(I5.truth(I5.call(rec5["cond"], [tuple(carry)], {})))
        ctx.decide("O5/T5-loop-carry-slots", res == [True, False, False, False], rt, None, construct="loop-guard",
                   detail="continues iff not converged and fewer than max_iters iterations",
                   bad_detail=f"loop guard evaluates to {res} for (not converged, i=3), (converged, i=3), (not converged, i=max), (not converged, i>max); expected [True, False, False, False]")
    except (EvalError, Raised, KeyError, TypeError, AttributeError, IndexError) as ex:
        ctx.undecided("O5/T5-loop-carry-slots", rt, None, construct="loop-guard", detail=str(ex))


def o7(ctx):
    rule = "O7/T5-custom-root-wiring"
    fr = ctx.need(f"{SR}:find_root")
    f, x0, br, st = fr.params()
    r = fr.returns()
    ok = False
    shown = src(r[0]) if r else "?"
    if r and isinstance(r[0], ast.Call) and (dotted(r[0].func) or "").endswith("custom_root") and len(r[0].args) >= 4:
        from .common import defs_to_lambdas, normalize
        a = [defs_to_lambdas(x, fr) for x in r[0].args]
        solve, tsolve = a[2], a[3]
        if isinstance(solve, ast.Lambda):
            solve = ast.Lambda(args=solve.args, body=normalize(solve.body, fr, depth=0))
        ok_f = same(a[0], f) and same(a[1], x0)
        ok_s = isinstance(solve, ast.Lambda) and len(solve.args.args) == 2 and \
            same(solve.body, f"rtsafe_({solve.args.args[0].arg}, {solve.args.args[1].arg}, {br}, {st})")
        ok_t = isinstance(tsolve, ast.Lambda) and len(tsolve.args.args) == 2
        if ok_t:
            g, y = tsolve.args.args[0].arg, tsolve.args.args[1].arg
            A = Algebra()
            try:
                ok_t = A.equal(A.lower(tsolve.body), A.lower(ast.parse(f"{y}/{g}(1.0)", mode="eval").body))
            except NotPolynomial:
                ok_t = False
        aux = any(k.arg == "has_aux" and isinstance(k.value, ast.Constant) and k.value.value is True for k in r[0].keywords)
        ok = ok_f and ok_s and ok_t and aux
        shown = f"f/x0 ok={ok_f}, solver ok={ok_s}, tangent solve y/g(1) ok={ok_t}, has_aux={aux}"
    ctx.decide(rule, ok, fr, r[0] if r else None, construct="custom_root(f, x0, rtsafe_, y/g(1))", detail=shown,
               bad_detail=f"find_root is not custom_root(f, x0, lambda F, X0: rtsafe_(F, X0, bracket, settings), lambda g, y: y/g(1.0), has_aux=True): {shown}")


def variants(repo):
    from optilint.selftest import Variant, sub, sub_in_func, alpha_rename, reformat
    S = "optimism/ScalarRootFind.py"
    return [
        Variant("settings tolerances swapped", "optimism/ScalarRootFind.py", sub("    return Settings(max_iters, x_tol, r_tol)", "    return Settings(max_iters, r_tol, x_tol)"), "O4/T5-settings-wiring"),
        Variant("NaN seeding after overrides", S,
                lambda s: None if s.count("    x0 = np.where(fl*fh < 0.0,\n                  x0,\n                  np.nan)\n") != 1 else
                s.replace("    x0 = np.where(fl*fh < 0.0,\n                  x0,\n                  np.nan)\n", "")
                 .replace("    # ORIENT THE SEARCH SO THAT F(XL) < 0.", "    x0 = np.where(fl*fh < 0.0,\n                  x0,\n                  np.nan)\n    # ORIENT THE SEARCH SO THAT F(XL) < 0."),
                "O1-O2/T5-endpoint-pairing"),
        Variant("no clip", S, sub("    x0 = np.clip(x0, bracket[0], bracket[1])\n", ""), "O1-O2/T2-guess-preparation-order"),
        Variant("endpoint pairing swapped", S, sub("    x0 = np.where(leftBracketIsSolution, bracket[0], x0)", "    x0 = np.where(leftBracketIsSolution, bracket[1], x0)"), "O1-O2/T5-endpoint-pairing"),
        Variant("maintenance flipped", S, sub("lambda rt, lo, hi: (rt, hi),\n                             lambda rt, lo, hi: (lo, rt),", "lambda rt, lo, hi: (lo, rt),\n                             lambda rt, lo, hi: (rt, hi),"), "O3/T6-sign-convention"),
        Variant("orientation flipped", S, sub("    xl, xh = jax.lax.cond(fl < 0,", "    xl, xh = jax.lax.cond(fl > 0,"), "O3/T6-sign-convention"),
        Variant("bisection not midpoint", S, sub_in_func("bisection_step", "    dx = 0.5*(xh - xl)", "    dx = 0.25*(xh - xl)"), "O4/T7-steps"),
        Variant("newton sign", S, sub_in_func("newton_step", "    dx = -f/df", "    dx = f/df"), "O4/T7-steps"),
        Variant("carry order", S, sub_in_func("rtsafe_", "        return root, dx, dxOld, F, DF, xl, xh, converged, i", "        return root, dxOld, dx, F, DF, xl, xh, converged, i"), "O5/T5-loop-carry-slots"),
        Variant("unmasked result", S, sub("    x = np.where(converged, x, np.nan)\n", ""), "O6/T1-result-masked"),
        Variant("tangent solve", S, sub("lambda g, y: y/g(1.0)", "lambda g, y: y*g(1.0)"), "O7/T5-custom-root-wiring"),
        Variant("solver ignores clipped bracket", S, sub("lambda F, X0: rtsafe_(F, X0, bracket, settings)", "lambda F, X0: rtsafe_(F, x0, bracket, settings)"), "O7/T5-custom-root-wiring"),
        Variant("reformat", S, reformat(), None),
    ]
