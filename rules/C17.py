"""C17 -- safeguarded scalar root finder: bracket contract and differentiability wiring.

Everything is decided on a symbolic *interpretation* of the public entry point (rules/C17_sym.py): find_root is run with an opaque
user function; `custom_root` and `while_loop` are recorders; the solver that custom_root is handed, the loop body, the loop guard and
the code after the loop are then called by the analysis on symbolic data.  The loop carry may be any pytree; which leaf plays which
role (iterate, last step, step before last, residual, slope, end with f<0, end with f>0, flag, counter) is found from the values of
the initial carry and confirmed by the behaviour of the loop body -- never from a name, a position or a statement shape.

  O1  the iteration starts from the guess clipped into the bracket; NaN without a sign change; an end point that is itself a root
      wins over both (10 situations of bracket signs / guess position); an end point whose residual is tiny but not zero and above
      r_tol is NOT a root (18 more situations, residuals 1e-9 / 1e-17 / 1e-310 at either end, with and without a sign change);
  O2  end-point pairing: f(bracket[0]) == 0 selects bracket[0], f(bracket[1]) == 0 selects bracket[1];
  O3  orientation and bracket maintenance use one sign convention (the `low' end is where f < 0);
  O4  the bisection step is the midpoint of the current bracket; the Newton step is x - f/f'; Newton is rejected when it leaves
      the bracket or converges too slowly (judged by the step *before last*); x_tol / r_tol / max_iters given to get_settings
      reach the step test, the residual test and the loop guard;
  O5  the carry keeps its meaning across an iteration (residual and slope at the new iterate, counter + 1, last step shifted to
      step-before-last) and the loop guard is `not converged and counter < max_iters`;
  O6  the convergence flag is stagnation | |step| < x_tol | |f| < r_tol, and the result is masked by it (NaN otherwise);
  O7  implicit differentiation: find_root hands the user function, the guess, a solver that depends only on what custom_root passes
      in, and the tangent solve y / g(1) (both signs of the slope) to jax.lax.custom_root with has_aux.  `The user function' is
      extensional: called on t + eps (dual number) for t strictly inside the bracket and t = either end point -- every point a
      returned root can be -- the handed function must have value f(t) and slope f'(t) (minimum / maximum / clip / clamp /
      stop_gradient carry JAX's tangent rules, ties included).
Not decided: that the returned value meets the tolerance and lies in the bracket for every function (trajectory).
"""
from __future__ import annotations

import itertools
from fractions import Fraction as F

from optilint.core import Incomplete
from optilint.tensoreval import Dual, PyFunc, Record, _A
from .C17_sym import RootModel, flatten, is_nan, const_of, EVAL_ERRORS, EvalError

LEVEL = "other"
RULE_TEXT = ("obligations = (situation of the bracket / guess x value of the initial carry) + (situation of one loop step x value of the returned carry) + "
             "(use of the loop result) + custom_root wiring + settings wiring")
EXPLANATION = ("find_root is interpreted symbolically (opaque user function f@x / df@x, comparisons decided at one rational sample per situation; custom_root "
               "and while_loop are recorders, the carry is any pytree, roles of its leaves are derived from values and behaviour): the initial carry in "
               "10 situations of bracket signs and guess position plus 18 with a tiny non-zero end-point residual above r_tol (not a root), one loop step in 11 situations (Newton admissible / leaves the bracket / too slow, decreasing "
               "function, each tolerance alone, stagnation) with exact comparison of the new iterate, step, bracket, residual and slope slots, counter and flag, "
               "the loop guard, and the masking of the result by the flag; what find_root hands to custom_root (residual with the user function's value and slope on the closed bracket, solver called on fresh arguments, tangent solve "
               "for both signs of the slope); get_settings' parameters reaching the tests they are named after. That the iteration reaches the tolerance for "
               "every function is trajectory dependent and not decided.")

SR = "optimism.ScalarRootFind"
A = lambda n: Dual(_A.atom(n))
ROLES = ("root", "dx", "dxOld", "F", "DF", "xl", "xh", "conv", "iter")
ROLE_TEXT = {"root": "iterate", "dx": "last step", "dxOld": "step before last", "F": "residual", "DF": "slope", "xl": "bracket end with f<0",
             "xh": "bracket end with f>0", "conv": "convergence flag", "iter": "iteration counter"}


def run(ctx):
    ctx.need_module(SR)
    fr = ctx.need(f"{SR}:find_root")
    ctx.need(f"{SR}:get_settings")
    ctx.guard(analyse, ctx, fr)
    ctx.trust("jax.lax.custom_root(f, x0, solve, tangent_solve) differentiates the root implicitly with tangent_solve(g, y) = y / g(1) for scalar g")
    ctx.trust("jax differentiates minimum / maximum (and jax.numpy.clip, which is minimum(maximum(x, lo), hi)) by the tangent of the selected operand and "
              "by the mean of both tangents where the operands are equal; lax.clamp and lax.stop_gradient pass no tangent at a bound / at all")
    ctx.trust("jax.lax.while_loop(cond, body, init) iterates body on a pytree carry while cond holds; lax.cond / lax.switch / np.where select by the predicate")


def _eqv(I, a, b):
    try:
        return _A.equal(I.num(a).a, I.num(b).a)
    except Exception:
        return False


def _show(v, n=60):
    return repr(v)[:n]


BASE = {"b0": F(0), "b1": F(2), "x0": F(1), "f@b0": F(-1), "f@b1": F(1), "xtol": F(1, 10 ** 9), "rtol": F(1, 10 ** 9)}

REGIONS = [
    # label, overrides of the sample, expected start of the iteration, expected (end with f<0, end with f>0), expected flag
    ("sign-change,f(b0)<0,guess-inside", {}, "x0", ("b0", "b1"), False),
    ("sign-change,f(b0)>0,guess-inside", {"f@b0": F(1), "f@b1": F(-1)}, "x0", ("b1", "b0"), False),
    ("guess-below-bracket", {"x0": F(-3)}, "b0", ("b0", "b1"), False),
    ("guess-above-bracket", {"x0": F(7)}, "b1", ("b0", "b1"), False),
    ("no-sign-change,both-positive", {"f@b0": F(2), "f@b1": F(1)}, "nan", None, False),
    ("no-sign-change,both-negative", {"f@b0": F(-2), "f@b1": F(-1)}, "nan", None, False),
    ("left-end-is-root", {"f@b0": F(0), "f@b1": F(1)}, "b0", None, True),
    ("left-end-is-root,other-end-negative", {"f@b0": F(0), "f@b1": F(-1)}, "b0", None, True),
    ("right-end-is-root", {"f@b0": F(-1), "f@b1": F(0)}, "b1", None, True),
    ("right-end-is-root,guess-outside", {"f@b0": F(1), "f@b1": F(0), "x0": F(9)}, "b1", None, True),
]

# an end point whose residual is small but not zero -- and larger than the r_tol that was asked for -- is not a root: the solver must iterate
# (or answer NaN when there is no sign change).  The magnitudes lie below the absolute thresholds a floating-point `is it zero' test could
# use (isclose's 1e-8, machine epsilon, the smallest normal number); r_tol is three decades smaller still.
def _near_zero_regions():
    out = []
    for k in (9, 17, 310):
        tiny, tol = F(1, 10 ** k), {"rtol": F(1, 10 ** (k + 3)), "xtol": F(1, 10 ** (k + 3))}
        out += [
            (f"left-end-residual=-1e-{k},not-a-root,sign-change", dict(tol, **{"f@b0": -tiny, "f@b1": F(1)}), "x0", ("b0", "b1"), False),
            (f"left-end-residual=+1e-{k},not-a-root,sign-change", dict(tol, **{"f@b0": tiny, "f@b1": F(-1)}), "x0", ("b1", "b0"), False),
            (f"right-end-residual=+1e-{k},not-a-root,sign-change", dict(tol, **{"f@b0": F(-1), "f@b1": tiny}), "x0", ("b0", "b1"), False),
            (f"right-end-residual=-1e-{k},not-a-root,sign-change,guess-outside", dict(tol, **{"f@b0": F(1), "f@b1": -tiny, "x0": F(9)}), "b1", ("b1", "b0"), False),
            (f"left-end-residual=+1e-{k},not-a-root,no-sign-change", dict(tol, **{"f@b0": tiny, "f@b1": F(1)}), "nan", None, False),
            (f"right-end-residual=-1e-{k},not-a-root,no-sign-change", dict(tol, **{"f@b0": F(-1), "f@b1": -tiny}), "nan", None, False),
        ]
    return out


REGIONS += _near_zero_regions()
_END_RULE = lambda lab: "is-root" in lab or "not-a-root" in lab

_STD = dict(Cx=F(1), Cd=F(1, 10), Co=F(1), CF=F(1, 10), CD=F(1), Cl=F(0), Ch=F(2), Ci=F(3))
_T = lambda x, r: {"xtol": x, "rtol": r}
SAMPLES = [
    # label, numeric carry (the last step Cd and the step before last Co differ so that reading the wrong one changes the decision),
    # f at the new point, tolerances
    ("newton-accepted,f(new)<0", _STD, F(-1, 7), {}),
    ("newton-accepted,f(new)>0", _STD, F(1, 7), {}),
    ("newton-leaves-bracket", dict(_STD, CF=F(5), Co=F(20)), F(1, 7), {}),      # not `too slow': only the bracket test rejects Newton
    ("newton-too-slow", dict(_STD, Cd=F(1), Co=F(1, 10)), F(-1, 7), {}),
    ("decreasing-function,bisection", dict(_STD, CF=F(5), CD=F(-1), Cl=F(2), Ch=F(0), Ci=F(0)), F(1, 7), {}),
    ("residual-below-tolerance", _STD, F(1, 10 ** 7), _T(F(1, 10 ** 12), F(1, 10 ** 5))),
    ("residual-below-x_tol-only", _STD, F(1, 10 ** 7), _T(F(1, 10 ** 5), F(1, 10 ** 12))),
    ("step-below-tolerance", dict(_STD, CF=F(1, 10 ** 7)), F(1, 7), _T(F(1, 10 ** 5), F(1, 10 ** 12))),
    ("step-below-r_tol-only", dict(_STD, CF=F(1, 10 ** 7)), F(1, 7), _T(F(1, 10 ** 12), F(1, 10 ** 5))),
    ("bisection-stagnates,zero-tolerances", dict(_STD, CF=F(5), Cl=F(1), Ch=F(1)), F(1, 7), _T(F(0), F(0))),
    ("newton-stagnates,zero-tolerances", dict(_STD, CF=F(0)), F(1, 7), _T(F(0), F(0))),
]
_NAMES = {"root": "Cx", "dx": "Cd", "dxOld": "Co", "F": "CF", "DF": "CD", "xl": "Cl", "xh": "Ch", "iter": "Ci"}


class _Analysis:
    """All symbolic executions, cached; `evaluate(role)` judges one reading of the carry (role -> leaf index)."""

    def __init__(self, ctx, M):
        self.ctx, self.M = ctx, M
        self.cache = {}

    def solver_run(self, tag, env, loop_optional=False):
        if tag not in self.cache:
            r = self.M.run(env, "init")
            if len(r.loops) != 1 and not (loop_optional and not r.loops):
                raise Incomplete(f"the solver reaches jax.lax.while_loop {len(r.loops)} times in the situation [{tag}]: the iteration is not recognised")
            self.cache[tag] = r
        return self.cache[tag]

    # ---------------------------------------------------------------- readings of the carry
    def readings(self, base_run):
        I = base_run.I
        leaves, paths, _ = flatten(base_run.loop[2])
        self.paths = paths
        spec = {"root": A("x0"), "F": A("f@x0"), "DF": A("df@x0"), "xl": A("b0"), "xh": A("b1"), "dx": A("b1") - A("b0"), "dxOld": A("b1") - A("b0")}
        cand = {}
        for r in ROLES:
            if r == "conv":
                cand[r] = [k for k, v in enumerate(leaves) if v is False]
            elif r == "iter":
                cand[r] = [k for k, v in enumerate(leaves) if const_of(v) == 0]
            else:
                cand[r] = [k for k, v in enumerate(leaves) if not isinstance(v, bool) and _eqv(I, v, spec[r])]
        missing = [r for r in ROLES if not cand[r]]
        if missing:
            # the initial value does not identify these roles: every leaf of the right kind is tried (leaves that no other role claims first),
            # the loop body decides (see analyse)
            claimed = {k for r in ROLES for k in cand[r]}
            behaviour = self.probe(leaves)
            for r in missing:
                fit = [k for k, v in enumerate(leaves) if isinstance(v, bool) == (r == "conv")]
                if behaviour.get(r):
                    fit = [k for k in fit if k in behaviour[r]]
                cand[r] = [k for k in fit if k not in claimed] + [k for k in fit if k in claimed]
        out = []
        self.truncated = False
        for n, combo in enumerate(itertools.product(*[cand[r] for r in ROLES])):
            if n >= 20000 or len(out) >= 24:
                self.truncated = True       # not every reading is looked at: a failure of all those tried proves nothing
                break
            if len(set(combo)) == len(combo):
                out.append(dict(zip(ROLES, combo)))
        return out, missing, cand, leaves

    def probe(self, leaves):
        """Roles by def-use: one call of the loop body on a carry of pairwise different symbols K0, K1, ...  The leaf that comes back as
        f(.) is the residual, as f'(.) the slope, as the point where f was evaluated the iterate, as itself + 1 the counter, as a plain
        copy of another leaf the step before last (and that other leaf the last step), as itself or the new iterate a bracket end."""
        try:
            env = dict(BASE)
            env.update({f"K{k}": F(k + 2) for k in range(len(leaves))})
            r = self.solver_run("probe", env)
            I = r.I
            ls, _, rb = flatten(r.loop[2])
            carry = [(False if isinstance(v, bool) else A(f"K{k}")) for k, v in enumerate(ls)]
            out, _, _ = flatten(I.call(r.loop[1], [rb(carry)], {}))
            if len(out) != len(leaves):
                return {}
        except EVAL_ERRORS + (Incomplete,):
            return {}
        M = self.M
        num = [k for k, v in enumerate(out) if not isinstance(v, bool)]
        beh = {"F": [k for k in num if M.applied_at(I, out[k], "f") is not None], "DF": [k for k in num if M.applied_at(I, out[k], "df") is not None],
               "iter": [k for k in num if _eqv(I, out[k], A(f"K{k}") + Dual(1))]}
        at = [M.applied_at(I, out[k], "f") for k in beh["F"]]
        beh["root"] = [k for k in num if any(_eqv(I, out[k], a) for a in at)]
        copies = {k: j for k in num for j in num if j != k and _eqv(I, out[k], A(f"K{j}"))}
        beh["dxOld"], beh["dx"] = sorted(copies), sorted(set(copies.values()))
        ends = [k for k in num if k not in beh["root"] and (_eqv(I, out[k], A(f"K{k}")) or any(_eqv(I, out[k], out[j]) for j in beh["root"]))]
        beh["xl"] = beh["xh"] = ends
        return beh

    # ---------------------------------------------------------------- one reading
    def evaluate(self, role, base_run):
        obs = []          # (rule, ok, construct, detail, bad_detail, kind)
        add = lambda rule, ok, construct, detail, bad=None, kind="": obs.append((rule, ok, construct, detail, bad or detail, kind))
        M = self.M
        nleaves = len(self.paths)
        where = lambda r: f"{ROLE_TEXT[r]} = carry{self.paths[role[r]]}"
        # ---- O5: initial values of the carry in the standard situation
        I = base_run.I
        leaves0, _, rebuild0 = flatten(base_run.loop[2])
        spec = {"root": A("x0"), "F": A("f@x0"), "DF": A("df@x0"), "xl": A("b0"), "xh": A("b1"), "dx": A("b1") - A("b0"), "dxOld": A("b1") - A("b0")}
        wrong = [r for r in spec if not _eqv(I, leaves0[role[r]], spec[r])]
        if leaves0[role["conv"]] is not False:
            wrong.append("conv")
        if const_of(leaves0[role["iter"]]) != 0:
            wrong.append("iter")
        add("O5/T5-loop-carry-slots", not wrong, "carry-initial-and-result",
            "initial carry holds the guess, |b1-b0| twice, f and f' at the guess, the oriented bracket, False, 0: " + ", ".join(where(r) for r in ROLES),
            "with a sign change, the guess inside and f(bracket[0]) < 0 the loop starts from " +
            "; ".join(f"{where(r)} = `{_show(leaves0[role[r]], 30)}`" for r in wrong) +
            " -- expected (guess, |b1-b0| for both steps, f(guess), f'(guess), end with f<0, end with f>0, not converged, 0)", kind="init")
        # ---- O6: what is returned from the loop result
        try:
            res = {}
            for flag in (True, False):
                env = dict(BASE)
                env.update({f"L{k}": F(k + 2) for k in range(nleaves)})

                def loop_result(init, flag=flag):
                    ls, _, rb = flatten(init)
                    new = [(False if isinstance(v, bool) else A(f"L{k}")) for k, v in enumerate(ls)]
                    new[role["conv"]] = flag
                    return rb(new)
                r = M.run(env, "result", loop_result=loop_result)
                x, info = self.split_result(r.out)
                cf = info.get("converged") if isinstance(info, Record) and "converged" in info.fields else None
                res[flag] = (r.I, x, cf)
            I2, xT, cT = res[True]
            _, xF, cF = res[False]
            ok_x = _eqv(I2, xT, A(f"L{role['root']}"))
            ok_m = is_nan(xF)
            ok_c = None if (cT is None or cF is None) else (cT is True and cF is False)
            ok = None if (ok_c is None and ok_x and ok_m) else bool(ok_x and ok_m and ok_c)
            add("O6/T1-result-masked", ok, "nan-unless-converged",
                "returns the loop's iterate when the loop's flag is set, NaN otherwise; SolutionInfo.converged is that flag",
                f"after the loop: the returned root is `{_show(xT, 40)}` when the flag is set (the loop's iterate: {ok_x}) and `{_show(xF, 40)}` when it is not "
                f"(NaN: {ok_m}); SolutionInfo.converged follows the flag: {ok_c} (an unconverged iterate could be returned as a root)", kind="result")
        except EVAL_ERRORS as ex:
            add("O6/T1-result-masked", None, "nan-unless-converged", f"cannot interpret the code after the loop: {ex}", kind="result")
        # ---- O1/O2/O3: preparation of the guess and orientation, by situation
        for lab, ov, eroot, ebr, econv in REGIONS:
            rule = "O1-O2/T5-endpoint-pairing" if _END_RULE(lab) else "O1-O2/T2-guess-preparation-order"
            env = dict(BASE)
            env.update(ov)
            try:
                r = self.solver_run("region:" + lab, env, loop_optional=True)
                if r.loop is None:
                    # the solver answers this situation without iterating (e.g. an end point is a root): what it returns is judged instead
                    x_, info_ = self.split_result(r.out)
                    if not (isinstance(info_, Record) and "converged" in info_.fields):
                        raise Incomplete("the solver returns without iterating and without a SolutionInfo")
                    ini = [None] * nleaves
                    ini[role["root"]], ini[role["conv"]] = x_, info_.get("converged")
                    if ebr is not None:
                        raise Incomplete("the solver does not iterate although the root is bracketed by a sign change")
                else:
                    ini, _, _ = flatten(r.loop[2])
                if len(ini) != nleaves:
                    raise Incomplete("the carry changes its structure between situations")
            except EVAL_ERRORS + (Incomplete,) as ex:
                add(rule, None, f"initial-iterate[{lab}]", str(ex), kind="region")
                continue
            I3 = r.I
            r0, c0 = ini[role["root"]], ini[role["conv"]]
            okr = is_nan(r0) if eroot == "nan" else (not is_nan(r0) and _eqv(I3, r0, A(eroot)))
            okc = c0 is econv
            what = {"x0": "the guess", "b0": "bracket[0]", "b1": "bracket[1]", "nan": "NaN"}[eroot]
            add(rule, (okr and okc) if isinstance(c0, bool) else None, f"initial-iterate[{lab}]", f"iteration starts from {what}, converged = {econv}",
                f"in the situation [{lab}] the iteration starts from `{_show(r0, 50)}` with converged = {c0}; the contract requires {what} "
                f"with converged = {econv} (clip the guess into the bracket, NaN without a sign change, an end point that is a root wins)" +
                (f"; the residual at that end point is not zero and exceeds r_tol = {env['rtol']}: an end point that is not a root is treated as one "
                 f"(the test for `this end is a root' is not exact), so a point that does not meet the requested tolerance is returned as converged"
                 if "not-a-root" in lab else ""), kind="region")
            if ebr is not None:
                okb = _eqv(I3, ini[role["xl"]], A(ebr[0])) and _eqv(I3, ini[role["xh"]], A(ebr[1]))
                add("O3/T6-sign-convention", okb, f"orientation[{lab}]", f"(end with f<0, end with f>0) = ({ebr[0]}, {ebr[1]})",
                    f"in the situation [{lab}] the bracket is oriented as ({_show(ini[role['xl']], 20)}, {_show(ini[role['xh']], 20)}); the first must be the end where f < 0",
                    kind="region")
        # ---- O3/O4/O5/O6: one iteration of the loop body on a symbolic carry
        flags = {}
        for lab, num, fnew, tols in SAMPLES:
            env = dict(BASE)
            env.update(num)
            env.update(tols)
            env["f@*"] = fnew
            env.update({f"E{k}": F(1) for k in range(nleaves)})
            try:
                r = self.solver_run("step:" + lab, env)
                I4 = r.I
                ls, _, rb = flatten(r.loop[2])
                carry = [(False if isinstance(v, bool) else A(f"E{k}")) for k, v in enumerate(ls)]
                for r_, nm in _NAMES.items():
                    carry[role[r_]] = A(nm)
                carry[role["conv"]] = False
                out, _, _ = flatten(I4.call(r.loop[1], [rb(carry)], {}))
                if len(out) != nleaves:
                    raise Incomplete(f"the loop body returns {len(out)} leaves for a carry of {nleaves}")
            except EVAL_ERRORS + (Incomplete,) as ex:
                add("O4/T7-steps", None, f"step[{lab}]", str(ex), kind="step")
                continue
            g = lambda r_: out[role[r_]]
            Cx, Cd, Co, CF, CD, Cl, Ch = (A(_NAMES[k]) for k in ("root", "dx", "dxOld", "F", "DF", "xl", "xh"))
            v = num
            oor = ((v["Cx"] - v["Ch"]) * v["CD"] - v["CF"]) * ((v["Cx"] - v["Cl"]) * v["CD"] - v["CF"]) > 0
            slow = abs(2 * v["CF"]) > abs(v["Co"] * v["CD"])
            if oor or slow:
                want_x, want_dx, kind = Cl + (Ch - Cl) * Dual(F(1, 2)), (Ch - Cl) * Dual(F(1, 2)), "bisection"
            else:
                want_x, want_dx, kind = Cx - CF / CD, Dual(0) - CF / CD, "Newton"
            ok_x = _eqv(I4, g("root"), want_x)
            # only the magnitude of the stored step is ever used (tolerance test, slow-convergence test, correction_norm): either sign convention is the same algorithm
            ok_dx = _eqv(I4, g("dx"), want_dx) or _eqv(I4, g("dx"), Dual(0) - want_dx)
            why = "Newton leaves the bracket" if oor else "Newton converges too slowly (2|f| > |step before last * f'|)" if slow else "Newton is admissible"
            add("O4/T7-steps", ok_x and ok_dx, f"step[{lab}]", f"{kind} step: new iterate {_show(I4.num(want_x).a)}",
                f"in the situation [{lab}] ({why}) the new iterate is `{_show(g('root'), 70)}` with step `{_show(g('dx'), 40)}`; "
                f"expected the {kind} step {_show(I4.num(want_x).a)} with step {_show(I4.num(want_dx).a, 40)}", kind="step")
            if ok_x:
                neg = fnew < 0
                okb = (_eqv(I4, g("xl"), want_x) and _eqv(I4, g("xh"), Ch)) if neg else (_eqv(I4, g("xl"), Cl) and _eqv(I4, g("xh"), want_x))
                add("O3/T6-sign-convention", okb, f"bracket-maintenance[{lab}]",
                    f"f(new) {'<' if neg else '>='} 0 replaces the end where f is {'negative' if neg else 'positive'}",
                    f"in the situation [{lab}] with f(new) {'<' if neg else '>='} 0 the bracket becomes ({_show(g('xl'), 30)}, {_show(g('xh'), 30)}): the end "
                    f"with the same sign as f(new) must be replaced (sign conventions of orientation and maintenance disagree)", kind="step")
                atF, atDF = M.applied_at(I4, g("F"), "f"), M.applied_at(I4, g("DF"), "df")
                okF = atF is not None and atDF is not None and _eqv(I4, atF, want_x) and _eqv(I4, atDF, want_x)
                okI = _eqv(I4, g("iter"), A("Ci") + Dual(1))
                okS = _eqv(I4, g("dxOld"), Cd)
                add("O5/T5-loop-carry-slots", okF and okI and okS, f"carry-order[{lab}]",
                    "residual and slope slots = f, f' at the new iterate, counter + 1, last step becomes the step before last",
                    f"in the situation [{lab}] the carry loses its meaning: residual slot `{_show(g('F'), 40)}`, slope slot `{_show(g('DF'), 40)}` "
                    f"(expected f and f' at the new iterate), counter `{_show(g('iter'), 20)}` (expected Ci + 1), "
                    f"step before last `{_show(g('dxOld'), 30)}` (expected the incoming last step Cd)", kind="step")
            # convergence flag
            step_v = ((v["Ch"] - v["Cl"]) / 2) if (oor or slow) else (-v["CF"] / v["CD"])
            stag = (step_v == 0)       # the step no longer changes the iterate: the step functions report convergence
            want_conv = bool(stag or abs(fnew) < env["rtol"] or abs(step_v) < env["xtol"])
            got = g("conv")
            flags[lab] = got if isinstance(got, bool) else None
            add("O6/T1-result-masked", (got == want_conv) if isinstance(got, bool) else None, f"convergence-test[{lab},flag-in=False]",
                f"flag = {want_conv}: stagnation of the step or |step| < x_tol or |f(new)| < r_tol",
                f"in the situation [{lab}] (|step| = {abs(step_v)}, |f(new)| = {abs(fnew)}, x_tol = {env['xtol']}, r_tol = {env['rtol']}) the body returns converged = {got}; "
                f"expected {want_conv} (stagnation reported by the step | (|step| < x_tol) | (|f(new)| < r_tol))", kind="step")
        # ---- O5: loop guard
        try:
            res = []
            cases = ((False, F(3)), (True, F(3)), (False, F(M.MAX_ITERS - 1)), (False, F(M.MAX_ITERS)), (False, F(M.MAX_ITERS + 1)))
            for conv_in, it_ in cases:
                env = dict(BASE)
                env.update({"Ci": it_})
                env.update({f"E{k}": F(1) for k in range(nleaves)})
                r = self.solver_run(f"guard:{it_}", env)
                ls, _, rb = flatten(r.loop[2])
                carry = [(False if isinstance(v, bool) else A(f"E{k}")) for k, v in enumerate(ls)]
                carry[role["conv"]] = conv_in
                carry[role["iter"]] = A("Ci")
                res.append(r.I.truth(r.I.call(r.loop[0], [rb(carry)], {})))
            want = [True, False, True, False, False]
            add("O5/T5-loop-carry-slots", res == want, "loop-guard", "continues iff not converged and fewer than max_iters iterations",
                f"the loop guard evaluates to {res} for (not converged, i=3), (converged, i=3), (not converged, i=max_iters-1), (not converged, i=max_iters), "
                f"(not converged, i>max_iters) with max_iters = {M.MAX_ITERS} given to get_settings; expected {want}", kind="guard")
            guard_ok = res == want
        except EVAL_ERRORS + (Incomplete,) as ex:
            add("O5/T5-loop-carry-slots", None, "loop-guard", str(ex), kind="guard")
            guard_ok = None
        # ---- O4: the tolerances given to get_settings by name reach the tests they are named after
        a, b, c, d = (flags.get(k) for k in ("step-below-tolerance", "step-below-r_tol-only", "residual-below-tolerance", "residual-below-x_tol-only"))
        if None in (a, b, c, d):
            ok = None
        elif (a, b, c, d) == (True, False, True, False):
            ok = True
        elif (a, b, c, d) == (False, True, False, True):
            ok = False
        else:
            ok = None if (a, c) != (True, True) else True      # a convergence test is wrong for another reason (reported by O6)
        add("O4/T5-settings-wiring", ok, "get_settings(x_tol, r_tol)->step-test,residual-test",
            "x_tol bounds |step| and r_tol bounds |f| in the loop's convergence test",
            f"the value passed to get_settings as x_tol is compared with the residual and r_tol with the step: a step below x_tol alone stops the loop: {a}, "
            f"a step below r_tol alone: {b}, a residual below r_tol alone: {c}, a residual below x_tol alone: {d} (expected True, False, True, False)", kind="settings")
        return obs

    @staticmethod
    def split_result(out):
        if isinstance(out, (tuple, list)) and len(out) == 2:
            return out[0], out[1]
        if isinstance(out, Record) and len(out.values) == 2:
            return out.values[0], out.values[1]
        raise Incomplete(f"the solver does not return (root, info): {out!r}")


def analyse(ctx, fr):
    try:
        return _analyse(ctx, fr)
    except EVAL_ERRORS as ex:
        raise Incomplete(f"find_root cannot be interpreted: {type(ex).__name__}: {ex}")


def _analyse(ctx, fr):
    M = RootModel(ctx, SR)
    An = _Analysis(ctx, M)
    base_run = An.solver_run("base", dict(BASE))
    rt = _report_scope(ctx, base_run, fr)
    wiring(ctx, M, fr, base_run)
    settings_fields(ctx, M, base_run)
    readings, missing, cand, leaves = An.readings(base_run)
    if not readings:
        ctx.undecided("O5/T5-loop-carry-slots", rt, None, construct="carry-initial-and-result",
                      detail=f"the while-loop carry {[_show(v, 24) for v in leaves]} has no leaf that can play the role(s) "
                             f"{[ROLE_TEXT[r] for r in ROLES if not cand[r]]}: this design of the iteration is not recognised")
        return
    best = None
    for role in readings:
        obs = An.evaluate(role, base_run)
        nbad = sum(1 for o in obs if o[1] is False)
        nund = sum(1 for o in obs if o[1] is None)
        if best is None or (nbad, nund) < best[0]:
            best = ((nbad, nund), role, obs)
        if nbad == 0 and nund == 0:
            break
    (nbad, nund), role, obs = best
    if An.truncated and nbad:
        ctx.undecided("O5/T5-loop-carry-slots", rt, None, construct="carry-initial-and-result",
                      detail=f"the while-loop carry {[_show(v, 24) for v in leaves]} can be read in too many ways; none of the {len(readings)} readings tried satisfies the contract")
        return
    if missing:
        # roles that the initial values did not identify were guessed: only a loop body that behaves exactly as specified under the
        # guessed reading confirms it (then the wrong initial value is a derived fact); otherwise the layout is not understood
        body_ok = all(o[1] is True for o in obs if o[5] in ("step", "guard"))
        if not body_ok:
            ctx.undecided("O5/T5-loop-carry-slots", rt, None, construct="carry-initial-and-result",
                          detail=f"the initial while-loop carry {[_show(v, 24) for v in leaves]} does not identify the {[ROLE_TEXT[r] for r in missing]} "
                                 f"and no reading of the carry is confirmed by the loop body: this design of the iteration is not recognised")
            return
    for rule, ok, construct, detail, bad, kind in obs:
        ctx.decide(rule, ok, rt, None, construct=construct, detail=detail, bad_detail=bad)
    # every repo function the interpretation went through counts as analysed (the thorough tier alpha-renames each of them)
    for r in An.cache.values():
        for q in sorted(r.I.visited):
            sc = ctx.repo.find(q)
            if sc is not None and "<" not in q:
                ctx.touch(sc)


def o7(ctx):
    """The custom_root wiring obligation alone (shared with C10, which reports it under its own rule prefix)."""
    ctx.need_module(SR)
    fr = ctx.need(f"{SR}:find_root")
    try:
        M = RootModel(ctx, SR)
        An = _Analysis(ctx, M)
        base_run = An.solver_run("base", dict(BASE))
        wiring(ctx, M, fr, base_run)
    except EVAL_ERRORS as ex:
        raise Incomplete(f"find_root cannot be interpreted: {type(ex).__name__}: {ex}")


def _report_scope(ctx, run, fr):
    """Obligations are reported at the function that owns the iteration (the one find_root's solver ends up in); every repo function
    the interpretation went through counts as analysed (the thorough tier alpha-renames each of them)."""
    rt = None
    for q in sorted(run.I.visited):
        s = ctx.repo.find(q)
        if s is not None and "<" not in q:
            ctx.touch(s)
    for cl in run.loop[:2]:
        sc = getattr(cl, "scope", None)
        while sc is not None and sc.kind != "module":
            if sc.kind == "function" and sc.parent is not None and sc.parent.kind == "module":
                rt = rt or sc
            sc = sc.parent
    named = ctx.repo.find(f"{SR}:rtsafe_")
    if named is not None and named.qualname in run.I.visited:
        rt = named
    if rt is not None:
        ctx.touch(rt)
    return rt or fr


# ------------------------------------------------------------------ O7: what find_root hands to custom_root

def wiring(ctx, M, fr, run):
    rule = "O7/T5-custom-root-wiring"
    construct = "custom_root(f, x0, rtsafe_, y/g(1))"
    cr, I = run.custom_root, run.I
    facts = []
    try:
        ok_f, why_f = handed_residual(M, cr)
        if ok_f is None:
            ctx.undecided(rule, fr, None, construct=construct, detail=f"cannot interpret the residual find_root hands to custom_root: {why_f}")
            return
        facts.append(f"the residual handed over has the value and the slope of the user function at every point of the closed bracket: {ok_f}" +
                     (f" ({why_f})" if why_f else ""))
        ok_x = _eqv(I, cr["initial_guess"], A("x0o"))
        facts.append(f"the initial guess is find_root's x0: {ok_x}")
        aux = cr["has_aux"] is True
        pair = isinstance(run.out, (tuple, list, Record)) and len(run.out.values if isinstance(run.out, Record) else run.out) == 2
        facts.append(f"has_aux={cr['has_aux']} and the solver returns (root, info): {pair}")
        # the solver must work on the function and the guess custom_root passes in (custom_root re-linearises with them)
        seen = set()
        for v in flatten(run.loop[2])[0] + flatten(run.out)[0]:
            if isinstance(v, Dual):
                seen |= set(v.a.atoms())
        foreign = sorted(a for a in seen if a == "x0o" or a.startswith(("fo@", "dfo@")))
        ok_s = not foreign
        facts.append("the solver depends only on its own arguments" if ok_s else
                     f"the solver called on (F, X0) iterates on find_root's own {'guess' if 'x0o' in foreign else 'function'} ({', '.join(foreign)[:60]})")
    except EVAL_ERRORS as ex:
        ctx.undecided(rule, fr, None, construct=construct, detail=f"cannot interpret what find_root hands to custom_root: {ex}")
        return
    # tangent solve: y / g(1) for a linear g of either sign
    ok_t, shown = True, ""
    try:
        for slope in (F(2), F(-3)):
            It = M.interp({"G": slope, "y": F(5)})
            g = PyFunc("g", lambda it, a, k: it.num(a[0]) * A("G"))
            res = It.call(cr["tangent_solve"], [g, A("y")], {})
            if not _eqv(It, res, A("y") / A("G")):
                ok_t = False
                shown = f"for a linearised residual g(t) = G*t with G = {slope} the tangent solve returns `{_show(res, 50)}` instead of y/G"
                break
        facts.append(f"tangent solve is y/g(1) for both signs of the slope: {ok_t}" + (f" ({shown})" if shown else ""))
    except EVAL_ERRORS as ex:
        ctx.undecided(rule, fr, None, construct=construct, detail=f"cannot interpret the tangent solve: {ex}")
        return
    ok = ok_f and ok_x and aux and pair and ok_s and ok_t
    ctx.decide(rule, bool(ok), fr, None, construct=construct, detail="; ".join(facts),
               bad_detail="find_root does not hand (user function, guess, solver of its own arguments, y/g(1), has_aux=True) to custom_root: " + "; ".join(facts))
    returned_root(ctx, M, fr)


def returned_root(ctx, M, fr):
    """Whatever find_root does to the value custom_root returns is differentiated by JAX in the ordinary way.  The derivative of the returned
    root is the implicit-function-theorem value only if the returned root IS that value with derivative 1 -- at an interior root and at a root
    that sits on a bracket end (both admissible)."""
    rule = "O7/T5-custom-root-wiring"
    construct = "returned-root-is-the-custom_root-result"
    vs = []
    for label, atom, env in (("a root strictly inside the bracket", "ROOTi", dict(BASE, ROOTi=F(3, 4))),
                             ("a root on the bracket end bracket[0]", "b0", dict(BASE)),
                             ("a root on the bracket end bracket[1]", "b1", dict(BASE)),
                             ("a root on the upper end of a reversed bracket", "b0", dict(BASE, b0=F(2), b1=F(0)))):
        try:
            r = M.outer_probe(env, atom)
        except EVAL_ERRORS as ex:
            vs.append((None, f"{label}: what find_root does to the result of custom_root cannot be interpreted ({ex})"))
            continue
        if not isinstance(r, Dual):
            vs.append((None, f"{label}: find_root does not return a scalar root"))
            continue
        same_v = _A.equal(r.a, _A.atom(atom))
        same_t = _A.equal(r.b, _A.atom("dROOT"))
        if same_v and same_t:
            vs.append((True, f"{label}: returned unchanged"))
        elif same_v:
            vs.append((False, f"for {label} find_root returns the root found, but with tangent `{_show(Dual(r.b), 60)}` instead of dROOT (post-processing outside custom_root, e.g. a clip / min / max that ties "
                              f"with the bound, halves the derivative), so derivatives of the returned root are not the implicit-function-theorem values"))
        else:
            I0 = M.interp(env)
            neq = not _eqv(I0, Dual(r.a), Dual(_A.atom(atom)))
            vs.append((False if neq else None, f"for {label} find_root returns `{_show(Dual(r.a), 60)}` instead of the root custom_root found"))
    bad = [d for ok, d in vs if ok is False]
    und = [d for ok, d in vs if ok is None]
    if bad:
        ctx.refuted(rule, fr, None, construct=construct, detail=bad[0])
    elif und:
        ctx.undecided(rule, fr, None, construct=construct, detail=und[0])
    else:
        ctx.proved(rule, fr, None, construct=construct, detail="; ".join(d for ok, d in vs))


def handed_residual(M, cr):
    """custom_root linearises the function it is handed at the returned root, and the returned root is a point of the *closed* bracket
    (interior, or an end point that is itself a root).  So at every such point t the handed function must have the user function's
    value fo(t) and slope fo'(t): it is called on t + eps (dual number; t strictly inside, t = bracket[0], t = bracket[1]) and both
    parts are compared.  Outside the bracket the solver never evaluates it: a difference there is noted, it does not decide.
    -> (True, note) | (False, what differs) | (None, why it cannot be interpreted)"""
    from optilint.tensoreval import ONE
    points = [("a point t strictly inside the bracket", A("t"), {"t": F(1)}, True), ("t = bracket[0]", A("b0"), {}, True), ("t = bracket[1]", A("b1"), {}, True),
              ("a point t below the bracket", A("t"), {"t": F(-3)}, False), ("a point t above the bracket", A("t"), {"t": F(7)}, False)]
    bad, notes = [], []
    for where, t, ov, decides in points:
        env = dict(BASE)
        env.update(ov)
        It = M.interp(env)
        try:
            got = It.num(It.call(cr["f"], [Dual(t.a, ONE)], {}))
            if not isinstance(got, Dual):
                raise EvalError("not a scalar")
        except EVAL_ERRORS as ex:
            if decides:
                return None, f"at {where}: {ex}"
            continue
        key = M.key(It, t)
        same_v = _A.equal(got.a, _A.atom(f"fo@{key}"))
        same_d = _A.equal(got.b, _A.atom(f"dfo@{key}"))
        if same_v and same_d:
            continue
        what = (f"at {where} the handed function has " +
                (f"the value `{_show(Dual(got.a), 40)}` instead of f(t)" if not same_v else f"the slope `{_show(Dual(got.b), 40)}` instead of f'(t) = dfo@{key}"))
        if decides:
            bad.append(what + (": the implicit derivative of a root found there is y / (that slope), not the implicit-function-theorem value" if same_v else
                               ": custom_root differentiates a different equation than the one the user posed"))
        else:
            notes.append(what + " (never evaluated there: harmless)")
    if bad:
        return False, "; ".join(bad)
    return True, "; ".join(notes)


# ------------------------------------------------------------------ O4: settings factory

def settings_fields(ctx, M, run):
    """get_settings(max_iters=, x_tol=, r_tol=): every parameter that has a field of the same name in the returned record must be in it
    (the fields are read by name by every user of the settings)."""
    rule = "O4/T5-settings-wiring"
    gs = ctx.need(f"{SR}:get_settings")
    st = run.settings
    given = {"max_iters": F(M.MAX_ITERS), "x_tol": A("xtol"), "r_tol": A("rtol")}
    if not isinstance(st, Record):
        return      # not a record: only the end-to-end obligation (tolerances reach their tests) applies
    bad, n = [], 0
    for p, v in given.items():
        if p in st.fields:
            n += 1
            got = st.get(p)
            if not (got is not None and not isinstance(got, bool) and _eqv(run.I, got, v)):
                src = [q for q, w in given.items() if got is not None and not isinstance(got, bool) and _eqv(run.I, got, w)]
                bad.append(f"field `{p}` holds " + (f"parameter `{src[0]}`" if src else f"`{_show(got, 30)}`"))
    if n:
        ctx.decide(rule, not bad, gs, None, construct=f"get_settings->{st.tname}:parameters-to-same-named-fields",
                   detail=f"{n} parameters reach the field of the same name",
                   bad_detail=f"ScalarRootFind.get_settings builds {st.tname} with " + ", ".join(bad) + ": settings are exchanged silently (all readers use the field names)")


# ------------------------------------------------------------------ self-test corpus

_NT_CARRY = '''
    def cond(state):
        return (~state.done) & (state.k < max_iters)

    def loop_body(state):
        outOfRange = ((state.x - state.hi)*state.slope - state.res) * ((state.x - state.lo)*state.slope - state.res) > 0
        tooSlow = np.abs(2.*state.res) > np.abs(state.prev*state.slope)
        x, step, done = jax.lax.cond(outOfRange | tooSlow, bisection_step, newton_step,
                                     state.x, state.lo, state.hi, state.slope, state.res)
        res, slope = f_and_fprime(x)
        lo = np.where(res < 0, x, state.lo)
        hi = np.where(res < 0, state.hi, x)
        done = done | (np.abs(step) < x_tol) | (np.abs(res) < r_tol)
        return state._replace(x=x, last=step, prev=state.last, res=res, slope=slope, lo=lo, hi=hi, done=done, k=state.k + 1)

    _State = namedtuple('_State', ['k', 'done', 'lo', 'hi', 'x', 'res', 'slope', 'prev', 'last'])
    final = jax.lax.while_loop(cond, loop_body, _State(k=0, done=converged, lo=xl, hi=xh, x=x0, res=F, slope=DF, prev=dxOld, last=dx))
    x, dx, F, converged, iters = final.x, final.last, final.res, final.done, final.k
'''


def _vectorised_preparation(src):
    a, b = src.find("    fl = f(bracket[0])\n"), src.find("    # ORIENT THE SEARCH")
    if a < 0 or b < a or src.count("    converged = False\n\n") != 1:
        return None
    new = ("    ends = np.asarray(bracket)\n    fEnds = jax.vmap(f)(ends)\n    fl, fh = fEnds\n    functionCalls = 2\n"
           "    jax.debug.print('bracket values {}', fEnds)\n    with jax.named_scope('prepare_guess'):\n        endIsRoot = fEnds == 0.0\n"
           "        x0 = np.select([endIsRoot[1], endIsRoot[0], np.prod(fEnds) < 0.0],\n"
           "                       [ends[1], ends[0], np.clip(x0, ends[0], ends[1])], np.nan)\n        converged = np.any(endIsRoot)\n\n")
    return (src[:a] + new + src[b:]).replace("    converged = False\n\n", "")


def _replace_loop(new_block):
    """swap the nested cond / loop_body / while_loop call of rtsafe_ for `new_block` (a test input, not a rule)"""
    def f(src):
        a = src.find("    def cond(carry):")
        b = src.find("    x = np.where(converged, x, np.nan)")
        if a < 0 or b < 0 or b < a:
            return None
        return src[:a] + new_block.lstrip("\n") + "\n" + src[b:]
    return f


_CR = "    return jax.lax.custom_root(f, x0, lambda F, X0: rtsafe_(F, X0, bracket, settings),"


def variants(repo):
    from optilint.selftest import Variant, sub, sub_in_func, reformat
    S = "optimism/ScalarRootFind.py"
    RET = "        return root, dx, dxOld, F, DF, xl, xh, converged, i"
    chain = lambda *fs: (lambda s: _chain(s, fs))
    return [
        # ---- breaking
        Variant("returned root clipped to the bracket outside custom_root", S,
                sub("    return jax.lax.custom_root(f, x0, lambda F, X0: rtsafe_(F, X0, bracket, settings),\n                               lambda g, y: y/g(1.0), has_aux=True)\n", "    x, info = jax.lax.custom_root(f, x0, lambda F, X0: rtsafe_(F, X0, bracket, settings),\n                               lambda g, y: y/g(1.0), has_aux=True)\n    return np.clip(x, np.minimum(bracket[0], bracket[1]), np.maximum(bracket[0], bracket[1])), info\n"),
                "O7/T5-custom-root-wiring"),
        Variant("returned root rescaled outside custom_root", S,
                sub("    return jax.lax.custom_root(f, x0, lambda F, X0: rtsafe_(F, X0, bracket, settings),\n                               lambda g, y: y/g(1.0), has_aux=True)\n", "    x, info = jax.lax.custom_root(f, x0, lambda F, X0: rtsafe_(F, X0, bracket, settings),\n                               lambda g, y: y/g(1.0), has_aux=True)\n    return 1.0000001*x, info\n"),
                "O7/T5-custom-root-wiring"),
        Variant("custom_root result unpacked and returned as it is", S,
                sub("    return jax.lax.custom_root(f, x0, lambda F, X0: rtsafe_(F, X0, bracket, settings),\n                               lambda g, y: y/g(1.0), has_aux=True)\n", "    x, info = jax.lax.custom_root(f, x0, lambda F, X0: rtsafe_(F, X0, bracket, settings),\n                               lambda g, y: y/g(1.0), has_aux=True)\n    return x, info\n"),
                None),
        Variant("settings tolerances swapped", S, sub("    return Settings(max_iters, x_tol, r_tol)", "    return Settings(max_iters, r_tol, x_tol)"), "O4/T5-settings-wiring"),
        Variant("settings fields reordered, positional factory", S, sub("['max_iters', 'x_tol', 'r_tol']", "['max_iters', 'r_tol', 'x_tol']"), "O4/T5-settings-wiring"),
        Variant("tolerances read from the wrong field", S, chain(sub("    x_tol = settings.x_tol\n", "    x_tol = settings.r_tol\n"), sub("    r_tol = settings.r_tol\n", "    r_tol = settings.x_tol\n")),
                "O4/T5-settings-wiring"),
        Variant("NaN seeding after overrides", S,
                lambda s: None if s.count("    x0 = np.where(fl*fh < 0.0,\n                  x0,\n                  np.nan)\n") != 1 else
                s.replace("    x0 = np.where(fl*fh < 0.0,\n                  x0,\n                  np.nan)\n", "")
                 .replace("    # ORIENT THE SEARCH SO THAT F(XL) < 0.", "    x0 = np.where(fl*fh < 0.0,\n                  x0,\n                  np.nan)\n    # ORIENT THE SEARCH SO THAT F(XL) < 0."),
                "O1-O2/T5-endpoint-pairing"),
        Variant("no clip", S, sub("    x0 = np.clip(x0, bracket[0], bracket[1])\n", ""), "O1-O2/T2-guess-preparation-order"),
        Variant("clip to the wrong end", S, sub("    x0 = np.clip(x0, bracket[0], bracket[1])\n", "    x0 = np.clip(x0, bracket[0], bracket[0])\n"),
                "O1-O2/T2-guess-preparation-order"),
        Variant("sign-change test inverted", S, sub("    x0 = np.where(fl*fh < 0.0,", "    x0 = np.where(fl*fh > 0.0,"), "O1-O2/T2-guess-preparation-order"),
        Variant("endpoint pairing swapped", S, sub("    x0 = np.where(leftBracketIsSolution, bracket[0], x0)", "    x0 = np.where(leftBracketIsSolution, bracket[1], x0)"), "O1-O2/T5-endpoint-pairing"),
        Variant("end-point root not flagged converged", S, sub("    converged = np.where(rightBracketIsSolution, True, converged)\n", ""), "O1-O2/T5-endpoint-pairing"),
        Variant("maintenance flipped", S, sub("lambda rt, lo, hi: (rt, hi),\n                             lambda rt, lo, hi: (lo, rt),", "lambda rt, lo, hi: (lo, rt),\n                             lambda rt, lo, hi: (rt, hi),"), "O3/T6-sign-convention"),
        Variant("orientation flipped", S, sub("    xl, xh = jax.lax.cond(fl < 0,", "    xl, xh = jax.lax.cond(fl > 0,"), "O3/T6-sign-convention"),
        Variant("bisection not midpoint", S, sub_in_func("bisection_step", "    dx = 0.5*(xh - xl)", "    dx = 0.25*(xh - xl)"), "O4/T7-steps"),
        Variant("bisection from the wrong end", S, sub_in_func("bisection_step", "    x = xl + dx", "    x = xh + dx"), "O4/T7-steps"),
        Variant("bisection half width by magnitude", S, sub_in_func("bisection_step", "    dx = 0.5*(xh - xl)", "    dx = 0.5*np.abs(xh - xl)"), "O4/T7-steps"),
        Variant("newton sign", S, sub_in_func("newton_step", "    dx = -f/df", "    dx = f/df"), "O4/T7-steps"),
        Variant("branches of the step choice swapped", S, sub("                                           bisection_step,\n                                           newton_step,",
                                                            "                                           newton_step,\n                                           bisection_step,"), "O4/T7-steps"),
        Variant("slow-convergence test reads the last step", S, sub("np.abs(dxOld*DF)", "np.abs(dx*DF)"), "O4/T7-steps"),
        Variant("out-of-range test dropped", S, sub("jax.lax.cond(newtonOutOfRange | newtonDecreasingSlowly,", "jax.lax.cond(newtonDecreasingSlowly,"), "O4/T7-steps"),
        Variant("carry order", S, sub_in_func("rtsafe_", RET, "        return root, dxOld, dx, F, DF, xl, xh, converged, i"), "O5/T5-loop-carry-slots"),
        Variant("step before last never updated", S, sub("        dxOld = dx\n", ""), "O5/T5-loop-carry-slots"),
        Variant("residual and slope slots exchanged", S, sub_in_func("rtsafe_", RET, "        return root, dx, dxOld, DF, F, xl, xh, converged, i"), "O5/T5-loop-carry-slots"),
        Variant("initial residual at the wrong point", S, sub("    F, DF = f_and_fprime(x0)\n", "    F, DF = f_and_fprime(bracket[0])\n"), "O5/T5-loop-carry-slots"),
        Variant("loop guard off by one", S, sub("(i < max_iters)", "(i <= max_iters)"), "O5/T5-loop-carry-slots"),
        Variant("loop guard ignores the flag", S, sub("        keepLooping = (~converged) & (i < max_iters)", "        keepLooping = (i < max_iters)"), "O5/T5-loop-carry-slots"),
        Variant("unmasked result", S, sub("    x = np.where(converged, x, np.nan)\n", ""), "O6/T1-result-masked"),
        Variant("mask inverted", S, sub("    x = np.where(converged, x, np.nan)\n", "    x = np.where(converged, np.nan, x)\n"), "O6/T1-result-masked"),
        Variant("stagnation flag dropped", S, sub("        converged = converged | (np.abs(dx) < x_tol) | (np.abs(F) < r_tol)", "        converged = (np.abs(dx) < x_tol) | (np.abs(F) < r_tol)"),
                "O6/T1-result-masked"),
        Variant("residual test dropped", S, sub("        converged = converged | (np.abs(dx) < x_tol) | (np.abs(F) < r_tol)", "        converged = converged | (np.abs(dx) < x_tol)"), "O6/T1-result-masked"),
        Variant("convergence needs both tolerances", S, sub("(np.abs(dx) < x_tol) | (np.abs(F) < r_tol)", "(np.abs(dx) < x_tol) & (np.abs(F) < r_tol)"), "O6/T1-result-masked"),
        Variant("tangent solve", S, sub("lambda g, y: y/g(1.0)", "lambda g, y: y*g(1.0)"), "O7/T5-custom-root-wiring"),
        Variant("tangent solve clamps the slope", S, sub("lambda g, y: y/g(1.0)", "lambda g, y: y/np.maximum(g(1.0), np.finfo(float).eps)"), "O7/T5-custom-root-wiring"),
        Variant("tangent solve by magnitude", S, sub("lambda g, y: y/g(1.0)", "lambda g, y: y/np.abs(g(1.0))"), "O7/T5-custom-root-wiring"),
        Variant("solver ignores clipped bracket", S, sub("lambda F, X0: rtsafe_(F, X0, bracket, settings)", "lambda F, X0: rtsafe_(F, x0, bracket, settings)"), "O7/T5-custom-root-wiring"),
        Variant("solver iterates on the outer function", S, sub("lambda F, X0: rtsafe_(F, X0, bracket, settings)", "lambda F, X0: rtsafe_(f, X0, bracket, settings)"), "O7/T5-custom-root-wiring"),
        Variant("aux output dropped", S, sub(", has_aux=True)", ", has_aux=False)"), "O7/T5-custom-root-wiring"),
        # the function custom_root linearises is not the user's function at a root that sits on an end point / anywhere
        Variant("residual clipped to the bracket before it is handed to custom_root", S,
                sub(_CR, "    lo, hi = bracket[0], bracket[1]\n    f_in_bracket = lambda x: f(np.clip(x, lo, hi))\n" + _CR.replace("(f, x0,", "(f_in_bracket, x0,")), "O7/T5-custom-root-wiring"),
        Variant("residual guarded by maximum with the lower end only", S,
                sub(_CR, "    def guarded(x):\n        return f(np.maximum(bracket[0], x))\n" + _CR.replace("(f, x0,", "(guarded, x0,")), "O7/T5-custom-root-wiring"),
        Variant("residual clamped by lax.clamp", S,
                sub(_CR, _CR.replace("(f, x0,", "(lambda x: f(jax.lax.clamp(bracket[0], x, bracket[1])), x0,")), "O7/T5-custom-root-wiring"),
        Variant("residual evaluated at a stop_gradient of its argument", S,
                sub(_CR, _CR.replace("(f, x0,", "(lambda x: f(jax.lax.stop_gradient(x)), x0,")), "O7/T5-custom-root-wiring"),
        # an end point that is not a root is taken for one
        Variant("end-point root tests by np.isclose", S, chain(sub("    leftBracketIsSolution = (fl == 0.0)", "    leftBracketIsSolution = np.isclose(fl, 0.0)"),
                                                              sub("    rightBracketIsSolution = (fh == 0.0)", "    rightBracketIsSolution = np.isclose(fh, 0.0)")), "O1-O2/T5-endpoint-pairing"),
        Variant("left end-point root test against machine epsilon", S,
                sub("    leftBracketIsSolution = (fl == 0.0)", "    leftBracketIsSolution = np.abs(fl) < np.finfo(float).eps"), "O1-O2/T5-endpoint-pairing"),
        Variant("right end-point root test with a fixed absolute tolerance", S,
                sub("    rightBracketIsSolution = (fh == 0.0)", "    rightBracketIsSolution = np.abs(fh) <= 1e-12"), "O1-O2/T5-endpoint-pairing"),
        Variant("right end-point root test against x_tol", S,
                sub("    rightBracketIsSolution = (fh == 0.0)", "    rightBracketIsSolution = np.abs(fh) <= 1e3*x_tol"), "O1-O2/T5-endpoint-pairing"),
        # ---- preserving
        Variant("reformat", S, reformat(), None),
        Variant("carry as a reordered namedtuple with _replace, np.where maintenance", S, _replace_loop(_NT_CARRY), None),
        Variant("carry as a dict", S, _replace_loop(_DICT_CARRY), None),
        Variant("nested carry, lambdas, switch, extra slot", S, _replace_loop(_NESTED_CARRY), None),
        Variant("bracket carried as an array updated with .at[].set", S, _replace_loop(_ARRAY_BRACKET_CARRY), None),
        Variant("vectorised end-point checks (vmap, select, prod, any, named_scope, debug print)", S, _vectorised_preparation, None),
        Variant("partial + keyword custom_root + tangent helper with linearity", S,
                chain(sub("import jax\nimport jax.numpy as np", "import functools\nimport jax\nimport jax.numpy as np"),
                      sub("    return jax.lax.custom_root(f, x0, lambda F, X0: rtsafe_(F, X0, bracket, settings),\n                               lambda g, y: y/g(1.0), has_aux=True)",
                          "    solver = functools.partial(rtsafe_, settings=settings, bracket=bracket)\n"
                          "    return jax.lax.custom_root(f=f, initial_guess=x0, solve=solver, tangent_solve=lambda g, y: 2.0*y/g(2.0), has_aux=True)")), None),
        Variant("midpoint as average, newton by multiplication with the reciprocal, settings unpacked", S,
                chain(sub_in_func("bisection_step", "    x = xl + dx", "    x = 0.5*(xl + xh)"),
                      sub_in_func("newton_step", "    dx = -f/df", "    dx = -(1.0/df)*f"),
                      sub("    max_iters = settings.max_iters\n    x_tol = settings.x_tol\n    r_tol = settings.r_tol\n", "    max_iters, x_tol, r_tol = settings\n")), None),
        Variant("preparation by nested where, sign test by signs, orientation by sorting on the sign", S,
                chain(sub("    x0 = np.where(fl*fh < 0.0,\n                  x0,\n                  np.nan)\n", "    x0 = np.where(np.sign(fl)*np.sign(fh) >= 0.0, np.nan, x0)\n"),
                      sub("    xl, xh = jax.lax.cond(fl < 0,\n                          lambda b: (b[0], b[1]),\n                          lambda b: (b[1], b[0]),\n                          bracket)\n",
                          "    xLeft, xRight = bracket\n    leftIsPositive = ~(fl < 0)\n    xl = jax.lax.select(leftIsPositive, xRight, xLeft)\n    xh = jax.lax.select(leftIsPositive, xLeft, xRight)\n")), None),
        Variant("settings factory through a local and keywords", S, sub("    return Settings(max_iters, x_tol, r_tol)", "    s = Settings(r_tol=r_tol, max_iters=max_iters, x_tol=x_tol)\n    return s"), None),
        Variant("residual guarded outside the bracket by where (identity with slope 1 on the closed bracket)", S,
                sub(_CR, "    lo, hi = bracket[0], bracket[1]\n    guarded = lambda x: f(np.where(x < lo, lo, np.where(x > hi, hi, x)))\n" + _CR.replace("(f, x0,", "(guarded, x0,")), None),
        Variant("residual handed over through a pass-through wrapper", S,
                sub(_CR, "    def residual(x, *unused):\n        y = f(1.0*x + 0.0)\n        return y\n" + _CR.replace("(f, x0,", "(residual, x0,")), None),
        Variant("end-point root tests by np.equal and |.| <= 0", S, chain(sub("    leftBracketIsSolution = (fl == 0.0)", "    leftBracketIsSolution = np.equal(fl, 0.0)"),
                                                                        sub("    rightBracketIsSolution = (fh == 0.0)", "    rightBracketIsSolution = np.abs(fh) <= 0.0")), None),
        Variant("value and slope evaluated separately", S, sub("    f_and_fprime = jax.value_and_grad(f)\n", "    fprime = jax.grad(f)\n    f_and_fprime = lambda t: (f(t), fprime(t))\n"), None),
    ] + _corpus_variants(S)


def _corpus_variants(S):
    """whole-module restructurings (rules/C17_corpus.py): each must be silent, each listed one-line break of them must be refuted"""
    from optilint.selftest import Variant
    from . import C17_corpus as K
    applicable = lambda new: (lambda src: new if "def find_root(f, x0, bracket, settings)" in src else None)
    out = [Variant("restyled module: " + name, S, applicable(text), None) for name, text in K.MODULES.items()]
    for text, name, old, new, rule in K.MUTATIONS:
        if text.count(old) == 1:
            out.append(Variant(name, S, applicable(text.replace(old, new)), rule))
    return out


def _chain(s, fs):
    for f in fs:
        s = f(s)
        if s is None:
            return None
    return s


_DICT_CARRY = '''
    def cond(c):
        return np.logical_and(np.logical_not(c['converged']), c['i'] < max_iters)

    def loop_body(c):
        root, F, DF, xl, xh = c['root'], c['F'], c['DF'], c['bracket'][0], c['bracket'][1]
        newtonOutOfRange = ((root - xh)*DF - F) * ((root - xl)*DF - F) > 0
        newtonDecreasingSlowly = np.abs(2.*F) > np.abs(c['steps'][1]*DF)
        root, dx, converged = jax.lax.cond(newtonOutOfRange | newtonDecreasingSlowly, bisection_step, newton_step, root, xl, xh, DF, F)
        F, DF = f_and_fprime(root)
        bracketNew = jax.lax.cond(F < 0, lambda: (root, xh), lambda: (xl, root))
        converged = converged | (np.abs(dx) < x_tol) | (np.abs(F) < r_tol)
        return {**c, 'root': root, 'steps': (dx, c['steps'][0]), 'F': F, 'DF': DF, 'bracket': bracketNew, 'converged': converged, 'i': c['i'] + 1}

    out = jax.lax.while_loop(cond, loop_body, dict(root=x0, steps=(dx, dxOld), F=F, DF=DF, bracket=(xl, xh), converged=converged, i=0))
    x, dx, F, converged, iters = out['root'], out['steps'][0], out['F'], out['converged'], out['i']
'''

_ARRAY_BRACKET_CARRY = '''
    def cond(carry):
        _, _, (done, n) = carry
        return ~done & (n < max_iters)

    def loop_body(carry):
        (root, dx, dxOld, F, DF), ends, (converged, i) = carry
        xl, xh = ends[0], ends[1]
        newtonOutOfRange = ((root - xh)*DF - F) * ((root - xl)*DF - F) > 0
        newtonDecreasingSlowly = np.abs(2.*F) > np.abs(dxOld*DF)
        root, dxNew, converged = jax.lax.cond(newtonOutOfRange | newtonDecreasingSlowly, bisection_step, newton_step, root, xl, xh, DF, F)
        F, DF = f_and_fprime(root)
        ends = np.where(F < 0, ends.at[0].set(root), ends.at[1].set(root))
        converged = converged | (np.abs(dxNew) < x_tol) | (np.abs(F) < r_tol)
        return (root, dxNew, dx, F, DF), ends, (converged, i + 1)

    (x, dx, _, F, _), _, (converged, iters) = jax.lax.while_loop(cond, loop_body, ((x0, dx, dxOld, F, DF), np.array([xl, xh]), (converged, 0)))
'''

_NESTED_CARRY = '''
    steps = (newton_step, bisection_step)

    def loop_body(carry):
        (root, F, DF), (dx, dxOld), (xl, xh), converged, i, nBisections = carry
        useBisection = (((root - xh)*DF - F) * ((root - xl)*DF - F) > 0) | (np.abs(2.*F) > np.abs(dxOld*DF))
        root, dxNew, converged = jax.lax.switch(useBisection.astype(int), steps, root, xl, xh, DF, F)
        F, DF = f_and_fprime(root)
        xl, xh = jax.lax.cond(F >= 0, lambda: (xl, root), lambda: (root, xh))
        converged = np.logical_or(converged, np.logical_or(np.abs(dxNew) < x_tol, np.abs(F) < r_tol))
        return (root, F, DF), (dxNew, dx), (xl, xh), converged, i + 1, nBisections + np.where(useBisection, 1, 0)

    (x, F, _), (dx, _), _, converged, iters, _ = jax.lax.while_loop(lambda c: ~c[3] & (c[4] < max_iters), loop_body,
                                                                   ((x0, F, DF), (dx, dxOld), (xl, xh), converged, 0, 0))
'''
