"""C17 -- safeguarded scalar root finder: bracket contract and differentiability wiring (structure only).

  O1  the initial guess is clipped into the bracket before any other use; NaN seeding on a missing sign change
      comes next and *precedes* the end-point overrides (so an end point that is itself a root is returned), which
      precede the loop; each step reads the previous value of the guess;
  O2  end-point pairing: f(bracket[0]) == 0 selects bracket[0], f(bracket[1]) == 0 selects bracket[1];
  O3  orientation and bracket maintenance use one sign convention (the `low' end is where f < 0);
  O4  the bisection step is the midpoint of the current bracket; the Newton step is x - f/f';
      Newton is rejected when it leaves the bracket (product test on both ends);
  O5  the while-loop carry has one order in the initial tuple, both unpackings, the body's return and the result;
  O6  the result is masked by `converged` (NaN otherwise);
  O7  implicit differentiation: find_root hands the user function, the clipped solver and the tangent solve
      y / g(1) to jax.lax.custom_root.
Not decided: that the returned value meets the tolerance and lies in the bracket for every function (trajectory).
"""
from __future__ import annotations

import ast

from optilint.cfg import cfg_of
from optilint.model import dotted, FuncVal
from optilint.core import Incomplete
from optilint.expr import Algebra, NotPolynomial
from .common import src, same, calls_in, const_value, expand

LEVEL = "other"
RULE_TEXT = "obligations = (statement role in rtsafe_/find_root x required order/pairing/sign convention)"
EXPLANATION = ("Ordering (dominators, reaching definitions), pairing and sign-convention rules on ScalarRootFind.rtsafe_ and find_root, "
               "slot-table agreement of the while-loop carry, algebraic identity of the bisection midpoint, custom_root wiring. The "
               "numerical contract (tolerance met, result in bracket) depends on the iteration trajectory and is not decided.")

SR = "optimism.ScalarRootFind"


def run(ctx):
    ctx.need_module(SR)
    rt = ctx.need(f"{SR}:rtsafe_")
    ctx.guard(o1_o2, ctx, rt)
    ctx.guard(o3_o4, ctx, rt)
    ctx.guard(o5_o6, ctx, rt)
    ctx.guard(o7, ctx)
    from .common import settings_wiring
    ctx.guard(settings_wiring, ctx, "O4/T5-settings-wiring", SR)
    ctx.trust("jax.lax.custom_root(f, x0, solve, tangent_solve) differentiates the root implicitly with tangent_solve(g, y) = y / g(1) for scalar g")


def _x0_chain(rt):
    cfg = cfg_of(rt)
    x0 = rt.params()[1]
    defs = [n for n in cfg.nodes if n.kind == "stmt" and isinstance(n.ast, ast.Assign) and isinstance(n.ast.targets[0], ast.Name)
            and n.ast.targets[0].id == x0]
    return cfg, x0, defs


def o1_o2(ctx, rt):
    rule = "O1-O2/T2-guess-preparation-order"
    cfg, x0, defs = _x0_chain(rt)
    f, _, br, _ = rt.params()
    kinds = []
    for n in defs:
        v = n.ast.value
        d = (dotted(v.func) or "").split(".")[-1] if isinstance(v, ast.Call) else ""
        if d == "clip":
            kinds.append(("clip", n))
        elif d == "where" and len(v.args) == 3:
            cond = expand(cfg, n, v.args[0])
            a, b = v.args[1], v.args[2]
            if any(isinstance(x, ast.Attribute) and x.attr == "nan" for x in (a, b)):
                kinds.append(("nan-seed", n))
            else:
                kinds.append(("override", n))
        else:
            kinds.append(("other", n))
    names = [k for k, _ in kinds]
    ok_order = names[:2] == ["clip", "nan-seed"] and names.count("override") == 2 and names[2:4] == ["override", "override"] and len(names) == 4
    ctx.decide(rule, ok_order, rt, defs[0].ast if defs else None, construct="order:clip,nan-seed,endpoint-overrides",
               detail=f"definitions of the guess in order: {names}",
               bad_detail=f"the initial guess is prepared in the order {names}; required: clip into the bracket, then NaN when there is no sign change, then the "
                          f"end-point overrides (otherwise an end point that is a root is turned into NaN, or an out-of-bracket guess is used)")
    # each step reads the previous value, and nothing uses x0 before the clip
    for i, (k, n) in enumerate(kinds):
        uses_prev = x0 in {w.id for w in ast.walk(n.ast.value) if isinstance(w, ast.Name)}
        ctx.decide(rule, uses_prev, rt, n.ast, construct=f"{k}#{i}:reads-previous-guess", detail=src(n.ast)[:80],
                   bad_detail=f"`{src(n.ast)[:90]}` discards the previously prepared guess")
    if kinds and kinds[0][0] == "clip":
        cn = kinds[0][1]
        early = [n for n in cfg.nodes if n.kind in ("stmt", "cond") and n.ast is not None and n is not cn and cfg.paths_between(n, cn) and
                 x0 in {w.id for w in ast.walk(n.ast) if isinstance(w, ast.Name) and isinstance(w.ctx, ast.Load)}]
        ctx.decide(rule, not early, rt, cn.ast, construct="clip-before-any-use", detail="the guess is clipped before it is read anywhere",
                   bad_detail=f"the unclipped guess is used by `{src(early[0].ast)[:80]}` before the clip" if early else "")
        v = cn.ast.value
        okc = len(v.args) == 3 and same(v.args[0], x0) and same(v.args[1], f"{br}[0]") and same(v.args[2], f"{br}[1]")
        ctx.decide(rule, okc, rt, cn.ast, construct="clip-to-bracket-ends", detail=src(v), bad_detail=f"`{src(v)}` does not clip the guess to [{br}[0], {br}[1]]")
    # NaN seed: where(fl*fh < 0, x0, nan)
    for k, n in kinds:
        v = n.ast.value
        if k == "nan-seed":
            c = expand(cfg, n, v.args[0])
            okn = isinstance(c, ast.Compare) and isinstance(c.ops[0], ast.Lt) and const_value(c.comparators[0]) == 0 and \
                same(c.left, f"{f}({br}[0]) * {f}({br}[1])") and same(v.args[1], x0)
            ctx.decide(rule, okn, rt, n.ast, construct="nan-seed:sign-change-test", detail=f"keep the guess iff {src(c)}",
                       bad_detail=f"NaN seeding `{src(n.ast)[:100]}` does not keep the guess exactly when f(bracket[0])*f(bracket[1]) < 0")
        if k == "override":
            c = expand(cfg, n, v.args[0])
            val = v.args[1]
            pair = None
            if isinstance(c, ast.Compare) and isinstance(c.ops[0], ast.Eq) and const_value(c.comparators[0]) == 0:
                for e in (0, 1):
                    if same(c.left, f"{f}({br}[{e}])"):
                        pair = e
            okp = pair is not None and same(val, f"{br}[{pair}]") and same(v.args[2], x0)
            ctx.decide("O1-O2/T5-endpoint-pairing", okp, rt, n.ast, construct=f"endpoint-{pair}", detail=f"f(bracket[{pair}]) == 0 -> bracket[{pair}]",
                       bad_detail=f"`{src(n.ast)[:100]}`: the end point tested ({src(c)}) and the end point returned ({src(val)}) do not match")
    # converged flags set with the same conditions
    conv = [n for n in cfg.nodes if n.kind == "stmt" and isinstance(n.ast, ast.Assign) and isinstance(n.ast.targets[0], ast.Name)
            and n.ast.targets[0].id == _loop_roles(rt)[0].get("converged", "converged") and isinstance(n.ast.value, ast.Call) and (dotted(n.ast.value.func) or "").endswith("where")]
    ovr = [n for k, n in kinds if k == "override"]
    ok = len(conv) == len(ovr) and all(src(a.ast.value.args[0]) == src(b.ast.value.args[0]) for a, b in zip(conv, ovr))
    ctx.decide("O1-O2/T5-endpoint-pairing", ok, rt, conv[0].ast if conv else None, construct="endpoint-sets-converged",
               detail="each end-point override also sets the converged flag under the same test",
               bad_detail="an end-point override does not set `converged` under the same test: the loop would move away from an exact end-point root")


def _loop_roles(rt):
    """Roles of the loop-carried locals of rtsafe_, by derivation: (xl, xh) are the targets of the orientation step, (F, DF) the
    targets of the value-and-derivative evaluation, `converged` is what SolutionInfo(converged=...) reports, the iterate is the argument of that
    evaluation.  Returns (outer role->name, body role->name) using the positions in the while_loop initial tuple."""
    outer = {}
    vg = None
    for st in rt.node.body:
        if isinstance(st, ast.Assign) and isinstance(st.value, ast.Call) and (dotted(st.value.func) or "").endswith("value_and_grad") and isinstance(st.targets[0], ast.Name):
            vg = st.targets[0].id
    for st in rt.node.body:
        if isinstance(st, ast.Assign) and isinstance(st.targets[0], ast.Tuple) and len(st.targets[0].elts) == 2 and isinstance(st.value, ast.Call):
            names = [t.id for t in st.targets[0].elts if isinstance(t, ast.Name)]
            if len(names) != 2:
                continue
            if (dotted(st.value.func) or "") == "jax.lax.cond":
                outer["xl"], outer["xh"] = names
            elif isinstance(st.value.func, ast.Name) and st.value.func.id == vg:
                outer["F"], outer["DF"] = names
                if st.value.args and isinstance(st.value.args[0], ast.Name):
                    outer["root"] = st.value.args[0].id
    for r in rt.returns():
        for c in ast.walk(r):
            if isinstance(c, ast.Call):
                for k in c.keywords:
                    if k.arg == "converged" and isinstance(k.value, ast.Name):
                        outer["converged"] = k.value.id
    wl = [c for c in ast.walk(rt.node) if isinstance(c, ast.Call) and (dotted(c.func) or "").endswith("while_loop") and len(c.args) == 3 and isinstance(c.args[2], ast.Tuple)]
    body = {}
    if wl:
        init = [src(x) for x in wl[0].args[2].elts]
        lb = [c for c in rt.children if c.kind == "function" and isinstance(wl[0].args[1], ast.Name) and c.name == wl[0].args[1].id]
        if lb:
            for st in lb[0].node.body:
                if isinstance(st, ast.Assign) and isinstance(st.targets[0], ast.Tuple) and isinstance(st.value, ast.Name) and st.value.id == lb[0].params()[0] \
                        and len(st.targets[0].elts) == len(init):
                    names = [t.id if isinstance(t, ast.Name) else None for t in st.targets[0].elts]
                    for role, on in outer.items():
                        if on in init:
                            body[role] = names[init.index(on)]
    return outer, body


def o3_o4(ctx, rt):
    rule = "O3/T6-sign-convention"
    cfg = cfg_of(rt)
    f, _, br, _ = rt.params()
    conds = [c for c in ast.walk(rt.node) if isinstance(c, ast.Call) and (dotted(c.func) or "") == "jax.lax.cond" and len(c.args) >= 3
             and isinstance(c.args[1], ast.Lambda) and isinstance(c.args[2], ast.Lambda)]
    orient = maint = None
    for c in conds:
        t = c.args[0]
        if isinstance(t, ast.Compare) and isinstance(t.ops[0], ast.Lt) and const_value(t.comparators[0]) == 0:
            if len(c.args[1].args.args) == 1:
                orient = c
            elif len(c.args[1].args.args) == 3:
                maint = c
    ok_o = False
    if orient is not None:
        b = orient.args[1].args.args[0].arg
        tr_, fa_ = orient.args[1].body, orient.args[2].body
        # test on f(bracket[0]); true arm (lo,hi)=(b0,b1), false arm (b1,b0)
        node = [n for n in cfg.nodes if n.ast is not None and any(x is orient for x in ast.walk(n.ast))][0]
        tl = expand(cfg, node, orient.args[0].left)
        ok_o = same(tl, f"{f}({br}[0])") and same(tr_, f"({b}[0], {b}[1])") and same(fa_, f"({b}[1], {b}[0])") and same(orient.args[3], br)
    ctx.decide(rule, ok_o, rt, orient, construct="orientation", detail="xl is the end with f < 0",
               bad_detail="the orientation step does not make xl the bracket end where f < 0")
    ok_m = False
    if maint is not None:
        a = [x.arg for x in maint.args[1].args.args]
        tr_, fa_ = maint.args[1].body, maint.args[2].body
        _, br_ = _loop_roles(rt)
        ok_m = all(k in br_ for k in ("root", "xl", "xh", "F")) and same(tr_, f"({a[0]}, {a[2]})") and same(fa_, f"({a[1]}, {a[0]})") \
            and [src(x) for x in maint.args[3:6]] == [br_.get("root"), br_.get("xl"), br_.get("xh")] and src(maint.args[0].left) == br_.get("F")
        # targets (xl, xh)
        for n in ast.walk(rt.node):
            if isinstance(n, ast.Assign) and n.value is maint:
                ok_m = ok_m and [src(t) for t in n.targets[0].elts] == [br_.get("xl"), br_.get("xh")]
    ctx.decide(rule, ok_m, rt, maint, construct="bracket-maintenance", detail="F < 0 replaces the low end, otherwise the high end",
               bad_detail="bracket maintenance does not replace the low end (where f < 0) when the new residual is negative: the two sign conventions disagree")
    # steps
    A = Algebra()
    bs = ctx.need(f"{SR}:bisection_step")
    ns = ctx.need(f"{SR}:newton_step")
    for sc, want, nm in ((bs, "(xl + xh)/2", "bisection"), (ns, "x - f/df", "newton")):
        cfg2 = cfg_of(sc)
        r = cfg2.returns()
        ok = False
        shown = "?"
        if r and isinstance(r[0].ast.value, ast.Tuple):
            e = expand(cfg2, r[0], r[0].ast.value.elts[0])
            shown = src(e)
            try:
                ok = A.equal(A.lower(e), A.lower(ast.parse(want.replace("x -", "x__in -") if nm == "newton" else want, mode="eval").body))
            except NotPolynomial:
                ok = None
        ctx.decide("O4/T7-steps", ok, sc, r[0].ast if r else None, construct=f"{nm}-step", detail=f"new point = {want}",
                   bad_detail=f"{nm} step returns `{shown}`, not {want}")
    # newton rejection test
    lb = [c for c in rt.children if c.kind == "function" and c.name == "loop_body"]
    ok = False
    if lb:
        for st in ast.walk(lb[0].node):
            if isinstance(st, ast.Assign) and isinstance(st.value, ast.Compare) and isinstance(st.value.ops[0], ast.Gt) and const_value(st.value.comparators[0]) == 0 \
                    and isinstance(st.value.left, ast.BinOp) and isinstance(st.value.left.op, ast.Mult):
                try:
                    got = A.lower(st.value.left)
                    _, br_ = _loop_roles(rt)
                    want = A.lower(ast.parse("((root - xh)*DF - F) * ((root - xl)*DF - F)".replace("root", br_.get("root", "root")).replace("xh", br_.get("xh", "xh"))
                                             .replace("xl", br_.get("xl", "xl")).replace("DF", "@D").replace("F", br_.get("F", "F")).replace("@D", br_.get("DF", "DF")),
                                             mode="eval").body)
                    ok = A.equal(got, want)
                except NotPolynomial:
                    ok = None
    ctx.decide("O4/T7-steps", ok, lb[0] if lb else rt, None, construct="newton-out-of-range-test", detail="((x-xh) f' - f)((x-xl) f' - f) > 0 rejects Newton",
               bad_detail="the test that rejects a Newton step leaving the bracket is not ((x-xh)f'-f)((x-xl)f'-f) > 0")


def o5_o6(ctx, rt):
    rule = "O5/T5-loop-carry-slots"
    kids = {c.name: c for c in rt.children if c.kind == "function"}
    cond, body = kids.get("cond"), kids.get("loop_body")
    if cond is None or body is None:
        raise Incomplete("rtsafe_: cond/loop_body not found")
    def unpack(sc):
        for st in sc.node.body:
            if isinstance(st, ast.Assign) and isinstance(st.targets[0], ast.Tuple) and isinstance(st.value, ast.Name) and st.value.id == sc.params()[0]:
                return [src(t) for t in st.targets[0].elts]
        return None
    u1, u2 = unpack(cond), unpack(body)
    rets = body.returns()
    r = [src(e) for e in rets[0].elts] if rets and isinstance(rets[0], ast.Tuple) else None
    # roles derived inside the body: convergence flag = the variable accumulated with `|`, counter = the variable incremented by 1,
    # (F, DF) = targets of the value-and-derivative call, (xl, xh) = targets of the bracket-maintenance cond
    acc = [st for st in ast.walk(body.node) if isinstance(st, ast.Assign) and isinstance(st.targets[0], ast.Name) and isinstance(st.value, ast.BinOp)
           and isinstance(st.value.op, ast.BitOr)]
    conv_b = acc[-1].targets[0].id if acc else None
    cnt = [st.target.id for st in ast.walk(body.node) if isinstance(st, ast.AugAssign) and isinstance(st.op, ast.Add) and const_value(st.value) == 1 and isinstance(st.target, ast.Name)]
    cnt_b = cnt[0] if cnt else None
    ok = u2 is not None and u2 == r and u1 is not None and len(u1) == len(u2) and conv_b in u2 and cnt_b in u2
    if ok:
        # cond must negate the flag slot and bound the counter slot
        neg = [n_.operand.id for n_ in ast.walk(cond.node) if isinstance(n_, ast.UnaryOp) and isinstance(n_.op, (ast.Invert, ast.Not)) and isinstance(n_.operand, ast.Name)]
        lim = [n_.left.id for n_ in ast.walk(cond.node) if isinstance(n_, ast.Compare) and isinstance(n_.ops[0], ast.Lt) and isinstance(n_.left, ast.Name)]
        ok = len(neg) == 1 and len(lim) == 1 and u1.index(neg[0]) == u2.index(conv_b) and u1.index(lim[0]) == u2.index(cnt_b)
    ctx.decide(rule, ok, body, None, construct="carry-order", detail=f"carry = {u2}",
               bad_detail=f"while-loop carry order differs: cond unpacks {u1} (negates the flag, bounds the counter), body unpacks {u2} and returns {r} "
                          f"(flag `{conv_b}`, counter `{cnt_b}`)")
    wl = [c for c in ast.walk(rt.node) if isinstance(c, ast.Call) and (dotted(c.func) or "").endswith("while_loop")]
    okw = False
    outer, by_pos = _loop_roles(rt)
    if wl and u2 and isinstance(wl[0].args[2], ast.Tuple):
        init = wl[0].args[2]
        names = [src(e) for e in init.elts]
        # roles derived independently inside the body
        vg_b = None
        body_roles = {"converged": conv_b}
        for st in ast.walk(body.node):
            if isinstance(st, ast.Assign) and isinstance(st.targets[0], ast.Tuple) and len(st.targets[0].elts) == 2 and isinstance(st.value, ast.Call):
                nm2 = [t.id for t in st.targets[0].elts if isinstance(t, ast.Name)]
                if len(nm2) != 2:
                    continue
                if (dotted(st.value.func) or "") == "jax.lax.cond" and len(st.value.args) >= 6:
                    body_roles["xl"], body_roles["xh"] = nm2
                elif isinstance(st.value.func, ast.Name) and len(st.value.args) == 1 and isinstance(st.value.args[0], ast.Name):
                    body_roles["F"], body_roles["DF"] = nm2
                    body_roles["root"] = st.value.args[0].id
        okw = len(names) == len(u2) and isinstance(wl[0].args[0], ast.Name) and wl[0].args[0].id == cond.name and isinstance(wl[0].args[1], ast.Name) \
            and wl[0].args[1].id == body.name and const_value(init.elts[u2.index(cnt_b)]) == 0 if cnt_b in u2 else False
        for role in ("xl", "xh", "F", "DF", "root", "converged"):
            okw = okw and role in outer and role in body_roles and body_roles[role] in u2 and outer[role] in names \
                and names.index(outer[role]) == u2.index(body_roles[role])
        # result unpack: the flag slot is what SolutionInfo reports, the iterate and residual slots are kept
        for st in ast.walk(rt.node):
            if isinstance(st, ast.Assign) and st.value is wl[0]:
                res = [src(t) for t in st.targets[0].elts]
                okw = okw and len(res) == len(u2) and conv_b in u2 and res[u2.index(conv_b)] == outer.get("converged") and res[0] != "_" \
                    and res[u2.index(body_roles.get("F", u2[0]))] != "_"
    ctx.decide(rule, okw, rt, wl[0] if wl else None, construct="carry-initial-and-result", detail="initial tuple and result unpacking follow the carry order",
               bad_detail="the initial carry tuple or the unpacking of the loop result does not follow the carry order")
    # result masked by converged
    cfg = cfg_of(rt)
    rr = cfg.returns()
    okm = False
    cname = outer.get("converged", "converged")
    if rr and isinstance(rr[0].ast.value, ast.Tuple):
        first = rr[0].ast.value.elts[0]
        if isinstance(first, ast.Name):
            ds = cfg.reaching(rr[0], first.id)
            okm = len(ds) == 1 and isinstance(ds[0].ast, ast.Assign) and isinstance(ds[0].ast.value, ast.Call) and (dotted(ds[0].ast.value.func) or "").endswith("where") \
                and src(ds[0].ast.value.args[0]) == cname and src(ds[0].ast.value.args[1]) == first.id and src(ds[0].ast.value.args[2]).endswith("nan")
    ctx.decide("O6/T1-result-masked", okm, rt, rr[0].ast if rr else None, construct="nan-unless-converged", detail="x = where(converged, x, nan)",
               bad_detail="the returned root is not masked by `converged` (an unconverged iterate could be returned as a root)")
    # convergence flag accumulates: the last assignment of the flag slot inside the body must be `flag | (|dx| < x_tol) | (|F| < r_tol)`
    flag_b = u2[u1.index([n_.operand.id for n_ in ast.walk(cond.node) if isinstance(n_, ast.UnaryOp) and isinstance(n_.op, (ast.Invert, ast.Not))
                                   and isinstance(n_.operand, ast.Name)][0])] if u1 and u2 and len(u1) == len(u2) else None
    for st in ast.walk(body.node):
        if isinstance(st, ast.Assign) and isinstance(st.targets[0], ast.Name) and st.targets[0].id == flag_b and isinstance(st.value, (ast.BinOp, ast.Compare, ast.BoolOp)):
            txt = src(st.value)
            ok = txt.startswith(f"{flag_b} |") and "x_tol" in txt and "r_tol" in txt and "<" in txt
            ctx.decide("O6/T1-result-masked", ok, body, st, construct="convergence-test", detail=txt,
                       bad_detail=f"convergence flag `{txt}` does not accumulate (|dx| < x_tol) | (|F| < r_tol)")


def o7(ctx):
    rule = "O7/T5-custom-root-wiring"
    fr = ctx.need(f"{SR}:find_root")
    f, x0, br, st = fr.params()
    r = fr.returns()
    ok = False
    shown = src(r[0]) if r else "?"
    if r and isinstance(r[0], ast.Call) and (dotted(r[0].func) or "").endswith("custom_root") and len(r[0].args) >= 4:
        a = r[0].args
        solve, tsolve = a[2], a[3]
        ok_f = same(a[0], f) and same(a[1], x0)
        ok_s = isinstance(solve, ast.Lambda) and len(solve.args.args) == 2 and \
            same(solve.body, f"rtsafe_({solve.args.args[0].arg}, {solve.args.args[1].arg}, {br}, {st})")
        ok_t = isinstance(tsolve, ast.Lambda) and len(tsolve.args.args) == 2
        if ok_t:
            g, y = tsolve.args.args[0].arg, tsolve.args.args[1].arg
            A = Algebra()
            try:
                ok_t = A.equal(A.lower(tsolve.body), A.lower(ast.parse(f"{y}/{g}(1.0)", mode="eval").body))
            except NotPolynomial:
                ok_t = False
        aux = any(k.arg == "has_aux" and isinstance(k.value, ast.Constant) and k.value.value is True for k in r[0].keywords)
        ok = ok_f and ok_s and ok_t and aux
        shown = f"f/x0 ok={ok_f}, solver ok={ok_s}, tangent solve y/g(1) ok={ok_t}, has_aux={aux}"
    ctx.decide(rule, ok, fr, r[0] if r else None, construct="custom_root(f, x0, rtsafe_, y/g(1))", detail=shown,
               bad_detail=f"find_root is not custom_root(f, x0, lambda F, X0: rtsafe_(F, X0, bracket, settings), lambda g, y: y/g(1.0), has_aux=True): {shown}")


def variants(repo):
    from optilint.selftest import Variant, sub, sub_in_func, alpha_rename, reformat
    S = "optimism/ScalarRootFind.py"
    return [
        Variant("settings tolerances swapped", "optimism/ScalarRootFind.py", sub("    return Settings(max_iters, x_tol, r_tol)", "    return Settings(max_iters, r_tol, x_tol)"), "O4/T5-settings-wiring"),
        Variant("NaN seeding after overrides", S,
                lambda s: None if s.count("    x0 = np.where(fl*fh < 0.0,\n                  x0,\n                  np.nan)\n") != 1 else
                s.replace("    x0 = np.where(fl*fh < 0.0,\n                  x0,\n                  np.nan)\n", "")
                 .replace("    # ORIENT THE SEARCH SO THAT F(XL) < 0.", "    x0 = np.where(fl*fh < 0.0,\n                  x0,\n                  np.nan)\n    # ORIENT THE SEARCH SO THAT F(XL) < 0."),
                "O1-O2/T2-guess-preparation-order"),
        Variant("no clip", S, sub("    x0 = np.clip(x0, bracket[0], bracket[1])\n", ""), "O1-O2/T2-guess-preparation-order"),
        Variant("endpoint pairing swapped", S, sub("    x0 = np.where(leftBracketIsSolution, bracket[0], x0)", "    x0 = np.where(leftBracketIsSolution, bracket[1], x0)"), "O1-O2/T5-endpoint-pairing"),
        Variant("maintenance flipped", S, sub("lambda rt, lo, hi: (rt, hi),\n                             lambda rt, lo, hi: (lo, rt),", "lambda rt, lo, hi: (lo, rt),\n                             lambda rt, lo, hi: (rt, hi),"), "O3/T6-sign-convention"),
        Variant("orientation flipped", S, sub("    xl, xh = jax.lax.cond(fl < 0,", "    xl, xh = jax.lax.cond(fl > 0,"), "O3/T6-sign-convention"),
        Variant("bisection not midpoint", S, sub_in_func("bisection_step", "    dx = 0.5*(xh - xl)", "    dx = 0.25*(xh - xl)"), "O4/T7-steps"),
        Variant("newton sign", S, sub_in_func("newton_step", "    dx = -f/df", "    dx = f/df"), "O4/T7-steps"),
        Variant("carry order", S, sub_in_func("rtsafe_", "        return root, dx, dxOld, F, DF, xl, xh, converged, i", "        return root, dxOld, dx, F, DF, xl, xh, converged, i"), "O5/T5-loop-carry-slots"),
        Variant("unmasked result", S, sub("    x = np.where(converged, x, np.nan)\n", ""), "O6/T1-result-masked"),
        Variant("tangent solve", S, sub("lambda g, y: y/g(1.0)", "lambda g, y: y*g(1.0)"), "O7/T5-custom-root-wiring"),
        Variant("solver ignores clipped bracket", S, sub("lambda F, X0: rtsafe_(F, X0, bracket, settings)", "lambda F, X0: rtsafe_(F, x0, bracket, settings)"), "O7/T5-custom-root-wiring"),
        Variant("reformat", S, reformat(), None),
    ]
