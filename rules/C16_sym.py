"""Symbolic interpretation of the contact modules (property C16).

`SymInterp` is `optilint.tensoreval.Interp` (exact rational / symbolic arrays, source-level interpretation of repository
functions) extended by the python / numpy / jax idioms that the contact code -- and plausible clean-ups of it -- use:

  * `jax.vmap(f, in_axes, out_axes)` over explicit arrays with tuple / record results, `functools.partial`,
    `jax.lax.switch / cond / select`, closures, `*args`;
  * namedtuple records with `_replace`, `_asdict`, `_fields`, unpacking and iteration;
  * numpy broadcasting, element-wise comparisons giving boolean arrays, `&`, `|`, `~`, `where / select / minimum / maximum / clip`
    with array conditions, `abs / sign` of arrays, `argmin / argmax / argsort / min / max`, `sum(axis)`, `outer`, `stack`,
    `concatenate`, `take`, fancy indexing with integer lists / arrays, `None` and `...` in subscripts, `%` and `//` of constants.

Everything that depends on the *sign* of a symbolic quantity is decided at a rational sample point of the region under study
(`Sample`); the values themselves stay symbolic, so the result of a run is the exact symbolic value of the interpreted function on
that region.  An operation that is not modelled raises `EvalError` -- the caller reports UNDECIDED, never a violation.
"""
from __future__ import annotations

import ast
import itertools
import math
from fractions import Fraction

from optilint.tensoreval import (Interp, Dual, Arr, EvalError, Raised, Record, Closure, PyFunc, Ext, Env, Vmapped, ReturnSignal,
                                 _A, rat_const, d_fun, sum_d, matmul)
from optilint.expr import simplify, NotPolynomial
from optilint.model import norm_src, NamedTupleVal

# anything the interpreter cannot carry out makes the obligation UNDECIDED, never a violation
INTERP_ERRORS = (EvalError, Raised, KeyError, IndexError, TypeError, AttributeError, ZeroDivisionError, ValueError, RecursionError, NotPolynomial,
                 AssertionError, NotImplementedError, OverflowError)


# ------------------------------------------------------------------ small array helpers

def _size(shape):
    n = 1
    for s in shape:
        n *= s
    return n


def rows(a: Arr):
    """sub-arrays (or scalars) along the first axis"""
    if a.ndim == 0:
        raise EvalError("iteration over a 0-d array")
    return [a.index(i) for i in range(a.shape[0])]


def stack(items):
    """np.stack(items, axis=0) for a list of scalars / equally shaped arrays"""
    items = [x if isinstance(x, Arr) else Dual.of(x) for x in items]
    if not items:
        return Arr([], (0,))
    if all(isinstance(x, Dual) for x in items):
        return Arr(list(items), (len(items),))
    if all(isinstance(x, Arr) for x in items) and len({x.shape for x in items}) == 1:
        return Arr([d for x in items for d in x.data], (len(items),) + tuple(items[0].shape), isbool=all(x.isbool for x in items))
    raise EvalError("stack of differently shaped values")


def broadcast_shape(*shapes):
    nd = max(len(s) for s in shapes)
    out = []
    for k in range(nd):
        dims = {1}
        for s in shapes:
            j = k - (nd - len(s))
            if j >= 0:
                dims.add(s[j])
        dims.discard(1)
        if len(dims) > 1:
            raise EvalError(f"shapes {shapes} cannot be broadcast")
        out.append(dims.pop() if dims else 1)
    return tuple(out)


def broadcast_to(a, shape):
    shape = tuple(shape)
    if isinstance(a, Dual):
        return Arr([a] * _size(shape), shape)
    if a.shape == shape:
        return a
    pad = (1,) * (len(shape) - a.ndim) + tuple(a.shape)
    for p, s in zip(pad, shape):
        if p != s and p != 1:
            raise EvalError(f"cannot broadcast {a.shape} to {shape}")
    src = Arr(a.data, pad)
    out = [src.get(tuple(0 if p == 1 else i for i, p in zip(ix, pad))) for ix in itertools.product(*[range(s) for s in shape])]
    return Arr(out, shape, isbool=a.isbool)


def transpose(a: Arr, perm):
    shape = tuple(a.shape[p] for p in perm)
    out = []
    for ix in itertools.product(*[range(s) for s in shape]):
        src = [0] * a.ndim
        for k, p in enumerate(perm):
            src[p] = ix[k]
        out.append(a.get(tuple(src)))
    return Arr(out, shape, isbool=a.isbool)


def moveaxis0(a: Arr, dest):
    """move axis 0 to position dest"""
    if dest == 0:
        return a
    perm = list(range(1, a.ndim))
    perm.insert(dest, 0)
    return transpose(a, perm)


def slices_along(a: Arr, axis):
    if axis < 0:
        axis += a.ndim
    if not 0 <= axis < a.ndim:
        raise EvalError("axis out of range")
    return [a.index((slice(None),) * axis + (i,)) for i in range(a.shape[axis])]


def is_boolarr(v):
    return isinstance(v, Arr) and v.isbool


def bool_dual(b):
    return Dual(1 if b else 0)


# ------------------------------------------------------------------ values

class Partial:
    def __init__(self, fn, args, kwargs):
        self.fn, self.args, self.kwargs = fn, tuple(args), dict(kwargs)

    def __repr__(self):
        return f"<partial {self.fn!r}>"


class Instance(Record):
    """Object of a plain repository class (one that defines __init__): its attributes are the fields, set by interpreting __init__ (and
    whatever method stores into `self` later) with `self` bound to this object.  Shared by reference, like the python object."""

    def __init__(self, csc):
        Record.__init__(self, csc.name, [], [], cls=csc)

    def set(self, name, value):
        if name in self.fields:
            self.values[self.fields.index(name)] = value
        else:
            self.fields.append(name)
            self.values.append(value)

    def __repr__(self):
        return f"<instance of {self.tname}>"


class VMap:
    def __init__(self, fn, in_axes=0, out_axes=0):
        self.fn, self.in_axes, self.out_axes = fn, in_axes, out_axes

    def __repr__(self):
        return f"<vmap {self.fn!r}>"


# ------------------------------------------------------------------ sample points

class Sample:
    """A point of the region under study: atom name -> rational value; `resolvers` give values to atoms that are created
    during the run (opaque function applications).  Calling the object returns the value of a rational function at the
    point (exact when no algebraic atom is involved) or None when an atom has no value."""

    def __init__(self, env=None, resolvers=()):
        self.env = {k: Fraction(v) for k, v in dict(env or {}).items()}
        self.resolvers = list(resolvers)

    def value_of_atom(self, a):
        if a in self.env:
            return self.env[a]
        if a == "@inf":
            return Fraction(10 ** 30)
        for r in self.resolvers:
            v = r(a)
            if v is not None:
                self.env[a] = Fraction(v)
                return self.env[a]
        return None

    def __call__(self, r):
        try:
            r = _A.norm(r)
            atoms = r.atoms()
            alg = [a for a in atoms if a in _A.rules]
            if not alg:
                env = {}
                for a in atoms:
                    v = self.value_of_atom(a)
                    if v is None:
                        return None
                    env[a] = v
                d = r.d.eval(env)
                if d == 0:
                    return None
                return r.n.eval(env) / d
            # algebraic atoms (square roots): floating point, with the atoms below the roots taken from the sample
            env = {}
            todo = list(atoms)
            seen = set()
            while todo:
                a = todo.pop()
                if a in seen:
                    continue
                seen.add(a)
                if a in _A.rules:
                    todo += list(_A.rules[a].atoms())
                    continue
                v = self.value_of_atom(a)
                if v is None:
                    return None
                env[a] = v
            v = _A.eval(r, env)
            if v != v:
                return None
            return 0.0 if abs(v) < 1e-13 else v
        except (KeyError, ZeroDivisionError, ValueError, OverflowError):
            return None


# ------------------------------------------------------------------ the interpreter

_ARR_METHODS = {"sum", "min", "max", "mean", "take", "astype", "copy", "flatten", "argmin", "argmax", "argsort", "squeeze", "transpose",
                "tolist", "item", "prod", "any", "all"}


class SymInterp(Interp):
    def __init__(self, repo, sample=None, positive=(), max_depth=60):
        super().__init__(repo, positive=positive, max_depth=max_depth)
        if sample is not None:
            self.policy = sample
        self.decisions = []      # symbolic quantities whose sign was decided at the sample point (the path condition of the run)
        self.instances = []      # objects of plain repository classes created during the run

    def _log(self, r):
        try:
            r = _A.norm(r)
            if rat_const(r) is None:
                self.decisions.append(r)
        except Exception:
            pass

    def _cmp(self, x, op, y):
        """scalar comparison (logged when it is decided at the sample point)"""
        return self.compare(x, op, y)

    # ---- values at the sample point
    def value(self, x):
        """numeric value of a scalar at the sample point (exact constant when there is one)"""
        if isinstance(x, bool):
            return Fraction(int(x))
        if isinstance(x, (int, Fraction)):
            return Fraction(x)
        x = self.num(x)
        if isinstance(x, Arr):
            if x.size() != 1:
                raise EvalError("value of an array")
            x = x.data[0]
        c = rat_const(x.a)
        if c is not None:
            return c
        if callable(self.policy):
            v = self.policy(x.a)
            if v is not None:
                return v
        raise EvalError(f"no value for {x.a!r} at the sample point")

    def num(self, v):
        if isinstance(v, Dual) or isinstance(v, Arr):
            return v
        if isinstance(v, Ext) and v.name.split(".")[-1] in ("inf", "Inf", "infty", "PINF"):
            return Dual(_A.atom("@inf"))
        if isinstance(v, float) and v in (float("inf"), float("-inf")):
            return Dual(_A.atom("@inf")) if v > 0 else -Dual(_A.atom("@inf"))
        return super().num(v)

    def arr(self, v):
        """argument of a numpy function: python sequences of numbers are arrays there"""
        if isinstance(v, (list, tuple)) and v and all(isinstance(x, (Dual, Arr, int, float, Fraction, list, tuple)) and not isinstance(x, bool) for x in v):
            try:
                return Arr.from_nested(self._deep_list(v))
            except EvalError:
                raise
            except Exception:
                pass
        return self.num(v)

    def elementwise(self, f, *vals):
        """apply the scalar function f element-wise with numpy broadcasting"""
        vals = [self.num(int(v) if isinstance(v, bool) else v) for v in vals]
        if all(isinstance(v, Dual) for v in vals):
            return f(*vals)
        shape = broadcast_shape(*[v.shape if isinstance(v, Arr) else () for v in vals])
        bs = [broadcast_to(v, shape) for v in vals]
        return Arr([f(*xs) for xs in zip(*[b.data for b in bs])], shape)

    # ---- expressions
    def _tmp_env(self, env, **vals):
        e = Env(env.scope if env is not None else None, None)
        e.vars.update(vals)
        return e

    def e_BinOp(self, e, env):
        a, b = self.eval(e.left, env), self.eval(e.right, env)
        return self.binop(a, e.op, b, env)

    def binop(self, a, op, b, env=None):
        boolish = lambda v: isinstance(v, bool) or is_boolarr(v)
        if isinstance(op, (ast.BitAnd, ast.BitOr, ast.BitXor)) and boolish(a) and boolish(b) and (isinstance(a, Arr) or isinstance(b, Arr)):
            g = {ast.BitAnd: lambda x, y: x and y, ast.BitOr: lambda x, y: x or y, ast.BitXor: lambda x, y: x != y}[type(op)]
            A = a if isinstance(a, Arr) else bool_dual(a)
            B = b if isinstance(b, Arr) else bool_dual(b)
            r = self.elementwise(lambda x, y: bool_dual(g(rat_const(x.a) == 1, rat_const(y.a) == 1)), A, B)
            r.isbool = True
            return r
        numeric = lambda v: isinstance(v, (Dual, Arr, int, float, Fraction, bool))
        plain = lambda v: isinstance(v, (int, Fraction)) and not isinstance(v, bool)
        seq = lambda v: isinstance(v, (list, tuple)) and not (isinstance(v, tuple) and len(v) == 2 and v[0] in ("module", "method"))
        if seq(a) or seq(b):
            if isinstance(op, ast.Mult) and seq(a) and isinstance(b, (int, Dual, Fraction)) and not isinstance(b, bool):
                return a * self.as_int(b)
            if isinstance(op, ast.Mult) and seq(b) and isinstance(a, (int, Dual, Fraction)) and not isinstance(a, bool):
                return b * self.as_int(a)
            if isinstance(op, ast.Add) and seq(a) and seq(b) and type(a) is type(b):
                return a + b
            raise EvalError("arithmetic with a python sequence")
        if isinstance(op, (ast.Mod, ast.FloorDiv)) and plain(a) and plain(b):
            if b == 0:
                raise EvalError("modulo by zero")
            return a % b if isinstance(op, ast.Mod) else a // b
        if isinstance(op, (ast.Mod, ast.FloorDiv)) and numeric(a) and numeric(b):
            def f(x, y):
                cx, cy = rat_const(x.a), rat_const(y.a)
                if cx is None or cy is None:
                    raise EvalError("modulo / floor division of a symbolic value")
                if cy == 0:
                    raise EvalError("modulo by zero")
                q = cx // cy
                return Dual(Fraction(q)) if isinstance(op, ast.FloorDiv) else Dual(cx - q * cy)
            return self.elementwise(f, a, b)
        if isinstance(op, (ast.Add, ast.Sub, ast.Mult, ast.Div)) and numeric(a) and numeric(b) and (isinstance(a, (Arr, bool)) or isinstance(b, (Arr, bool))):
            f = {ast.Add: lambda x, y: x + y, ast.Sub: lambda x, y: x - y, ast.Mult: lambda x, y: x * y, ast.Div: lambda x, y: x / y}[type(op)]
            return self.elementwise(f, a, b)
        tmp = self._tmp_env(env, __l=a, __r=b)
        return Interp.e_BinOp(self, ast.BinOp(left=ast.Name(id="__l", ctx=ast.Load()), op=op, right=ast.Name(id="__r", ctx=ast.Load())), tmp)

    def e_BoolOp(self, e, env):
        v = None
        for x in e.values:
            v = self.eval(x, env)
            if is_boolarr(v):
                raise EvalError("`and` / `or` of a boolean array")
            t = self.truth(v)
            if (isinstance(e.op, ast.And) and not t) or (isinstance(e.op, ast.Or) and t):
                return v
        return v

    def e_UnaryOp(self, e, env):
        if isinstance(e.op, (ast.Invert, ast.Not)):
            v = self.eval(e.operand, env)
            if is_boolarr(v):
                r = v.map(lambda x: bool_dual(rat_const(x.a) != 1))
                r.isbool = True
                return r
            if isinstance(e.op, ast.Not):
                return not self.truth(v)
            if isinstance(v, bool):
                return not v
            raise EvalError("unary ~ of a non-boolean")
        return super().e_UnaryOp(e, env)

    def neg(self, v):
        if isinstance(v, (list, tuple)) or (isinstance(v, Ext) and v.name.split(".")[-1] in ("inf", "Inf", "infty", "PINF")):
            v = self.num(v)
        return super().neg(v)

    def compare(self, a, op, b):
        if (isinstance(a, Arr) or isinstance(b, Arr)) and not isinstance(op, (ast.In, ast.NotIn, ast.Is, ast.IsNot)):
            r = self.elementwise(lambda x, y: bool_dual(self.compare(x, op, y)), a, b)
            if isinstance(r, Arr):
                r.isbool = True
            return r
        if isinstance(op, (ast.Lt, ast.LtE, ast.Gt, ast.GtE, ast.Eq, ast.NotEq)):
            # IEEE: every ordered comparison with NaN, and NaN == x, is False; NaN != x is True (also for x = NaN)
            def is_nan(v):
                if isinstance(v, Ext):
                    return v.name.split(".")[-1] in ("nan", "NaN", "NAN")
                return isinstance(v, Dual) and "@nan" in v.a.atoms()
            if is_nan(a) or is_nan(b):
                return isinstance(op, ast.NotEq)
        if isinstance(a, (Dual, int, float, Fraction)) and isinstance(b, (Dual, int, float, Fraction)) and not isinstance(a, bool) and not isinstance(b, bool):
            self._log(Dual.of(a).a - Dual.of(b).a)
        return super().compare(a, op, b)

    def e_Compare(self, e, env):
        left = self.eval(e.left, env)
        res = None
        for op, c in zip(e.ops, e.comparators):
            right = self.eval(c, env)
            r = self.compare(left, op, right)
            res = r if res is None else self.binop(res, ast.BitAnd(), r, env) if (isinstance(res, Arr) or isinstance(r, Arr)) else (res and r)
            left = right
        return res

    def truth(self, v):
        if isinstance(v, Dual):
            self._log(v.a)
        if isinstance(v, Arr):
            if v.size() == 1:
                return self.truth(v.data[0])
            raise EvalError("truth value of an array")
        if isinstance(v, Instance) and (self._class_member(v.cls, "__bool__") is not None or self._class_member(v.cls, "__len__") is not None):
            raise EvalError("truth value of an object with __bool__ / __len__")
        if isinstance(v, (Closure, PyFunc, Partial, VMap, Record)):
            return True
        return super().truth(v)

    def e_Attribute(self, e, env):
        base = self.eval(e.value, env)
        return self.getattr_(base, e.attr, env)

    def _bases(self, csc):
        out = []
        for b in getattr(csc.node, "bases", []):
            try:
                out.append(self.eval(b, self.module_env(csc.module)))
            except INTERP_ERRORS:
                out.append(None)
        return out

    _UNMODELLED_HOOKS = ("__new__", "__setattr__", "__getattr__", "__getattribute__", "__delattr__", "__init_subclass__", "__slots__", "__set_name__",
                         "__class_getitem__", "__del__")

    def _class_chain(self, csc, depth=0):
        """the repository classes a plain class is made of (itself and its bases), or None when a base is not a plain repository class"""
        node = csc.node
        if depth > 4 or not isinstance(node, ast.ClassDef) or node.decorator_list or node.keywords:
            return None
        chain = [csc]
        for b, bnode in zip(self._bases(csc), node.bases):
            if isinstance(bnode, ast.Name) and bnode.id == "object":
                continue
            if not (isinstance(b, Ext) and b.name.startswith("class:")):
                return None
            bsc = self.repo.find(b.name[len("class:"):])
            sub = self._class_chain(bsc, depth + 1) if bsc is not None else None
            if sub is None:
                return None
            chain += sub
        return chain

    def _plain_class_init(self, csc):
        """`__init__` of a plain python class of the repository (no decorator, no metaclass, only plain repository bases, none of the hooks that
        change attribute access or construction); None when the class is not of that kind"""
        chain = self._class_chain(csc)
        if chain is None:
            return None
        for c in chain:
            names = {ch.name for ch in c.children if ch.kind == "function"}
            for st in c.node.body:
                if isinstance(st, ast.Assign):
                    names |= {t.id for t in st.targets if isinstance(t, ast.Name)}
            if names & set(self._UNMODELLED_HOOKS):
                return None
        init = self._class_member(csc, "__init__")
        return init if isinstance(init, Closure) and init.scope.kind == "function" and not init.scope.node.decorator_list else None

    def _instantiate(self, csc, init, args, kwargs):
        inst = Instance(csc)
        self.instances.append(inst)
        r = self.call(init, [inst] + list(args), kwargs)
        if r is not None:
            raise EvalError(f"__init__ of {csc.name} returns a value")
        return inst

    def _set_attribute(self, inst, a, v):
        for c in self._class_chain(inst.cls) or []:
            for ch in c.children:
                if ch.kind == "function" and ch.name == a and ch.node.decorator_list:
                    raise EvalError(f"store into the managed attribute {a} of {inst.tname}")
        inst.set(a, v)

    def _class_fields(self, csc, depth=0):
        """fields of a record class: its annotated attributes, else those of the namedtuple / record class it derives from"""
        own = [st.target.id for st in csc.node.body if isinstance(st, ast.AnnAssign) and isinstance(st.target, ast.Name)]
        if own or depth > 4:
            return own
        for b in self._bases(csc):
            if isinstance(b, NamedTupleVal):
                return list(b.fields)
            if isinstance(b, Ext) and b.name.startswith("class:"):
                bsc = self.repo.find(b.name[len("class:"):])
                if bsc is not None:
                    f = self._class_fields(bsc, depth + 1)
                    if f:
                        return f
        return []

    def _class_member(self, csc, a, instance=None, depth=0):
        """attribute `a` of a repository class (or of an instance of it): methods with their binding, class-level constants"""
        for c in csc.children:
            if c.kind == "function" and c.name == a:
                decos = [norm_src(d).split(".")[-1] for d in c.node.decorator_list]
                cl = Closure(c, self.module_env(c.module))
                if "staticmethod" in decos:
                    return cl
                if "classmethod" in decos:
                    return Partial(cl, [Ext(f"class:{csc.qualname}")], {})
                if instance is None:
                    return cl
                if "property" in decos:
                    return self.call_closure(cl, [instance], {})
                return Partial(cl, [instance], {})
        for st in csc.node.body:
            if isinstance(st, ast.Assign) and any(isinstance(t, ast.Name) and t.id == a for t in st.targets):
                return self.eval(st.value, self.module_env(csc.module))
            if isinstance(st, ast.AnnAssign) and isinstance(st.target, ast.Name) and st.target.id == a and st.value is not None:
                return self.eval(st.value, self.module_env(csc.module))
        if depth < 4:
            for b in self._bases(csc):
                if isinstance(b, Ext) and b.name.startswith("class:"):
                    bsc = self.repo.find(b.name[len("class:"):])
                    if bsc is not None:
                        v = self._class_member(bsc, a, instance, depth + 1)
                        if v is not None:
                            return v
        return None

    def getattr_(self, base, a, env=None):
        if isinstance(base, Ext) and base.name.startswith("class:"):
            csc = self.repo.find(base.name[len("class:"):])
            if csc is not None:
                v = self._class_member(csc, a)
                if v is not None:
                    return v
        if isinstance(base, Record):
            if a in base.fields and base.get(a) is not None:
                return base.get(a)
            if a in ("_replace", "_asdict"):
                return ("method", base, a)
            if a == "_fields":
                return tuple(base.fields)
            if base.cls is not None:
                v = self._class_member(base.cls, a, instance=base)
                if v is not None:
                    return v
            if a in base.fields:
                return base.get(a)
        if isinstance(base, Arr):
            if a in _ARR_METHODS:
                return ("method", base, a)
            if a == "ndim":
                return base.ndim
            if a == "T":
                return base if base.ndim < 2 else transpose(base, list(reversed(range(base.ndim))))
        if isinstance(base, Dual) and a in ("astype", "item", "copy", "squeeze"):
            return ("method", base, a)
        if isinstance(base, list) and a in ("append", "extend", "index", "copy"):
            return ("method", base, a)
        if isinstance(base, tuple) and not (len(base) == 2 and base[0] == "module") and a in ("index", "count"):
            return ("method", base, a)
        if isinstance(base, dict) and a in ("values",):
            return ("method", base, a)
        if isinstance(base, Partial):
            if a == "func":
                return base.fn
            if a == "args":
                return tuple(base.args)
            if a == "keywords":
                return dict(base.kwargs)
        tmp = self._tmp_env(env, __b=base)
        return Interp.e_Attribute(self, ast.Attribute(value=ast.Name(id="__b", ctx=ast.Load()), attr=a, ctx=ast.Load()), tmp)

    def e_Set(self, e, env):
        return [self.eval(x, env) for x in e.elts]

    def e_Starred(self, e, env):
        raise EvalError("starred expression")

    def e_Tuple(self, e, env):
        out = []
        for x in e.elts:
            if isinstance(x, ast.Starred):
                v = self.eval(x.value, env)
                out += rows(v) if isinstance(v, Arr) else list(v.values if isinstance(v, Record) else v)
            else:
                out.append(self.eval(x, env))
        return tuple(out)

    def e_List(self, e, env):
        return list(self.e_Tuple(e, env))

    def _comp(self, e, env, make):
        # like the base class, but records and arrays are iterable
        out = []

        def rec(k, env_k):
            if k == len(e.generators):
                out.append(make(env_k))
                return
            g = e.generators[k]
            for x in self.iterate(self.eval(g.iter, env_k)):
                e2 = Env(env_k.scope, env_k)
                self.assign(g.target, x, e2)
                if all(self.truth(self.eval(c, e2)) for c in g.ifs):
                    rec(k + 1, e2)
        rec(0, env)
        return out

    def e_DictComp(self, e, env):
        pairs = self._comp(e, env, lambda en: (self.eval(e.key, en), self.eval(e.value, en)))
        return {self._hashable(k): v for k, v in pairs}

    def _hashable(self, k):
        if isinstance(k, Dual):
            return self.as_int(k)
        return k

    def iterate(self, v):
        if isinstance(v, Arr):
            return rows(v)
        if isinstance(v, Record):
            return list(v.values)
        if isinstance(v, dict):
            return list(v.keys())
        if isinstance(v, (list, tuple, str)):
            return list(v)
        raise EvalError(f"iteration over {v!r}")

    # ---- subscripts
    def getitem(self, base, key):
        if isinstance(key, list):
            key = Arr.from_nested([self.as_int(k) for k in key]) if key else Arr([], (0,))
        if isinstance(key, tuple):
            key = tuple(Arr.from_nested([self.as_int(x) for x in k]) if isinstance(k, list) else k for k in key)
        key = self._norm_key(key)
        if isinstance(base, (list, tuple)) and base and isinstance(key, (Arr, tuple)) and all(isinstance(x, (Dual, Arr, int, float, Fraction)) for x in base):
            base = self.num(base)
        if isinstance(base, Arr) and isinstance(key, tuple) and any(isinstance(k, Arr) or k is None or k is Ellipsis for k in key):
            return self._adv_index(base, key)
        if isinstance(base, Arr) and (key is None or key is Ellipsis):
            return self._adv_index(base, (key,))
        if isinstance(base, Arr) and isinstance(key, Arr) and not key.isbool and key.ndim != 1:
            return self._adv_index(base, (key,))
        if isinstance(base, Record) and isinstance(key, slice):
            return tuple(base.values[key])
        if isinstance(base, dict):
            key = self._hashable(key)
        return super().getitem(base, key)

    def _adv_index(self, base: Arr, key):
        # expand the ellipsis
        n_real = sum(1 for k in key if k is not None and k is not Ellipsis)
        if any(k is Ellipsis for k in key):
            i = [j for j, k in enumerate(key) if k is Ellipsis][0]
            key = key[:i] + (slice(None),) * (base.ndim - n_real) + key[i + 1:]
        if any(k is Ellipsis for k in key):
            raise EvalError("two ellipses in a subscript")
        real = [k for k in key if k is not None]
        real = real + [slice(None)] * (base.ndim - len(real))
        adv = [j for j, k in enumerate(real) if isinstance(k, Arr)]
        if len(adv) > 1:
            # several integer arrays: broadcast together (numpy semantics for adjacent advanced indices starting at axis 0 only)
            if adv != list(range(len(adv))) or any(real[j].isbool for j in adv):
                raise EvalError("unsupported combination of advanced indices")
            shp = broadcast_shape(*[real[j].shape for j in adv])
            idx = [broadcast_to(real[j], shp) for j in adv]
            items = []
            for t in range(_size(shp)):
                sub = base.index(tuple(self.as_int(ix.data[t]) for ix in idx) + tuple(real[len(adv):]))
                items.append(sub)
            res = stack(items)
            res = Arr(res.data, tuple(shp) + tuple(res.shape[1:]), isbool=base.isbool)
        elif len(adv) == 1:
            j = adv[0]
            k = real[j]
            if k.isbool:
                keep = [i for i, x in enumerate(k.data) if rat_const(x.a) == 1]
                k = Arr([Dual(i) for i in keep], (len(keep),))
            items = [base.index(tuple(real[:j]) + (self.as_int(x),) + tuple(real[j + 1:])) for x in k.ravel().data]
            if not items:
                raise EvalError("empty advanced index")
            res = stack(items)
            res = Arr(res.data, tuple(k.shape) + tuple(res.shape[1:]), isbool=base.isbool)
            dest = sum(1 for q in real[:j] if isinstance(q, slice))
            if dest and k.ndim == 1:
                res = moveaxis0(res, dest)
            elif dest:
                raise EvalError("multi-dimensional advanced index behind a slice")
        else:
            res = base.index(tuple(real))
        if any(k is None for k in key):
            if isinstance(res, Dual):
                res = Arr([res], ())
            shape, dims = [], list(res.shape)
            for k in key:
                if k is None:
                    shape.append(1)
                elif isinstance(k, slice):
                    shape.append(dims.pop(0))
                elif isinstance(k, Arr):
                    for _ in range(k.ndim):
                        shape.append(dims.pop(0))
            shape += dims
            res = Arr(res.data, tuple(shape), isbool=getattr(res, "isbool", False))
        return res

    # ---- calls
    def call(self, f, args, kwargs):
        if isinstance(f, Partial):
            kw = dict(f.kwargs)
            kw.update(kwargs)
            return self.call(f.fn, list(f.args) + list(args), kw)
        if isinstance(f, VMap):
            return self.call_vmap(f, args, kwargs)
        if isinstance(f, Vmapped):
            return self.call_vmap(VMap(f.fn), args, kwargs)
        if isinstance(f, Record) and f.cls is not None:
            m = self._class_member(f.cls, "__call__", instance=f)
            if m is not None:
                return self.call(m, args, kwargs)
        if isinstance(f, Ext) and f.name.startswith("class:"):
            csc = self.repo.find(f.name[len("class:"):])
            init = self._plain_class_init(csc) if csc is not None else None
            if init is not None:
                return self._instantiate(csc, init, args, kwargs)
            own = [st.target.id for st in csc.node.body if isinstance(st, ast.AnnAssign) and isinstance(st.target, ast.Name)] if csc is not None else []
            if csc is not None and not own and getattr(csc.node, "bases", None):
                fields = self._class_fields(csc)
                if fields and not any(c.kind == "function" and c.name in ("__init__", "__new__") for c in csc.children):
                    if len(args) > len(fields):
                        raise EvalError(f"too many arguments for {csc.name}")
                    vals = list(args) + [None] * (len(fields) - len(args))
                    for k, v in kwargs.items():
                        if k not in fields:
                            raise EvalError(f"unknown field {k} of {csc.name}")
                        vals[fields.index(k)] = v
                    return Record(csc.name, fields, vals, cls=csc)
            rec = super().call(f, args, kwargs)
            if isinstance(rec, Record) and csc is not None:
                # fields that were not passed take the defaults of the class body
                for st in csc.node.body:
                    if isinstance(st, ast.AnnAssign) and isinstance(st.target, ast.Name) and st.value is not None and st.target.id in rec.fields:
                        k = rec.fields.index(st.target.id)
                        if rec.values[k] is None and st.target.id not in kwargs and k >= len(args):
                            rec.values[k] = self.eval(st.value, self.module_env(csc.module))
            return rec
        return super().call(f, args, kwargs)

    def call_closure(self, f: Closure, args, kwargs):
        sc = f.scope
        if not (sc.has_varargs() or sc.has_kwargs()) or sc.qualname in self.special:
            return super().call_closure(f, args, kwargs)
        self.depth += 1
        if self.depth > self.max_depth:
            self.depth -= 1
            raise EvalError("recursion too deep")
        try:
            self.visited.add(sc.qualname)
            env = Env(sc, f.env)
            ps = sc.params()
            for p, a in zip(ps, args):
                env.vars[p] = a
            if sc.has_varargs():
                env.vars[sc.node.args.vararg.arg] = tuple(args[len(ps):])
            elif len(args) > len(ps):
                raise EvalError(f"too many arguments for {sc.qualname}")
            extra = {}
            for k, v in kwargs.items():
                if k in ps or k in sc.kwonly():
                    env.vars[k] = v
                elif sc.has_kwargs():
                    extra[k] = v
                else:
                    raise EvalError(f"unexpected keyword {k} for {sc.qualname}")
            if sc.has_kwargs():
                env.vars[sc.node.args.kwarg.arg] = extra
            for p in ps + sc.kwonly():
                if p not in env.vars:
                    d = sc.default_of(p)
                    if d is None:
                        raise EvalError(f"missing argument {p} of {sc.qualname}")
                    env.vars[p] = self.eval(d, f.env)
            if sc.kind == "lambda":
                return self.eval(sc.node.body, env)
            try:
                self.block(sc.node.body, env)
            except ReturnSignal as r:
                return r.value
            return None
        finally:
            self.depth -= 1

    def e_Call(self, e, env):
        f = self.eval(e.func, env)
        args = []
        for a in e.args:
            if isinstance(a, ast.Starred):
                args += self.iterate(self.eval(a.value, env))
            else:
                args.append(self.eval(a, env))
        kwargs = {}
        for k in e.keywords:
            if k.arg:
                kwargs[k.arg] = self.eval(k.value, env)
            else:
                d = self.eval(k.value, env)
                if not isinstance(d, dict):
                    raise EvalError("** of a non-dict")
                kwargs.update(d)
        return self.call(f, args, kwargs)

    # vmap ------------------------------------------------------------
    def _map_leaf(self, v, axis, i):
        if axis is None:
            return v
        if isinstance(axis, (tuple, list)):
            vs = list(v.values) if isinstance(v, Record) else v
            if not isinstance(vs, (tuple, list)) or len(vs) != len(axis):
                raise EvalError("vmap: in_axes structure does not fit the argument")
            out = [self._map_leaf(x, ax, i) for x, ax in zip(vs, axis)]
            return Record(v.tname, v.fields, out, cls=v.cls) if isinstance(v, Record) else type(v)(out)
        if isinstance(axis, dict):
            raise EvalError("vmap: dictionary in_axes")
        if isinstance(v, Instance):
            raise EvalError("vmap over an object of a plain class")
        if isinstance(v, Arr):
            ax = self.as_int(axis)
            if ax < 0:
                ax += v.ndim
            return v.index((slice(None),) * ax + (i,))
        if isinstance(v, (tuple, list)):
            return type(v)(self._map_leaf(x, axis, i) for x in v)
        if isinstance(v, Record):
            return Record(v.tname, v.fields, [self._map_leaf(x, axis, i) if x is not None else None for x in v.values], cls=v.cls)
        if isinstance(v, dict):
            return {k: self._map_leaf(x, axis, i) for k, x in v.items()}
        raise EvalError(f"vmap over a non-array argument {v!r}")

    def _axis_len(self, v, axis):
        if axis is None:
            return None
        if isinstance(v, Instance):
            raise EvalError("vmap over an object of a plain class")
        if isinstance(axis, (tuple, list)):
            vs = list(v.values) if isinstance(v, Record) else v
            if not isinstance(vs, (tuple, list)) or len(vs) != len(axis):
                raise EvalError("vmap: in_axes structure does not fit the argument")
            ns = {self._axis_len(x, ax) for x, ax in zip(vs, axis)} - {None}
            if len(ns) > 1:
                raise EvalError("vmap: mapped axes of different lengths")
            return ns.pop() if ns else None
        if isinstance(axis, dict):
            raise EvalError("vmap: dictionary in_axes")
        if isinstance(v, Arr):
            ax = self.as_int(axis)
            if ax < 0:
                ax += v.ndim
            if not 0 <= ax < v.ndim:
                raise EvalError("vmap axis out of range")
            return v.shape[ax]
        if isinstance(v, Record):
            v = [x for x in v.values if x is not None]
        if isinstance(v, dict):
            v = list(v.values())
        if isinstance(v, (tuple, list)):
            for x in v:
                n = self._axis_len(x, axis)
                if n is not None:
                    return n
            return None
        raise EvalError(f"vmap over a non-array argument {v!r}")

    def tree_stack(self, outs):
        o0 = outs[0]
        if o0 is None:
            return None
        if isinstance(o0, (tuple, list)):
            if any(not isinstance(o, (tuple, list)) or len(o) != len(o0) for o in outs):
                raise EvalError("vmap: results of different structure")
            return type(o0)(self.tree_stack([o[k] for o in outs]) for k in range(len(o0)))
        if any(isinstance(o, Instance) for o in outs):
            raise EvalError("vmap: an object of a plain class is returned")
        if isinstance(o0, Record):
            return Record(o0.tname, o0.fields, [self.tree_stack([o.values[k] for o in outs]) for k in range(len(o0.values))], cls=o0.cls)
        if isinstance(o0, dict):
            return {k: self.tree_stack([o[k] for o in outs]) for k in o0}
        if isinstance(o0, bool):
            r = Arr([bool_dual(o) for o in outs], (len(outs),), isbool=True)
            return r
        return stack([self.num(o) for o in outs])

    def call_vmap(self, f: VMap, args, kwargs):
        in_axes = f.in_axes
        if isinstance(in_axes, (tuple, list)):
            if len(in_axes) != len(args):
                raise EvalError(f"vmap: in_axes of length {len(in_axes)} for {len(args)} positional argument(s)")
            axes = list(in_axes)
        else:
            axes = [in_axes] * len(args)
        self._check_out_axes(f.out_axes)
        n = None
        for a, ax in zip(args, axes):
            if ax is None:
                continue
            k = self._axis_len(a, ax)
            if k is None:
                continue
            if n is not None and k != n:
                raise EvalError(f"vmap: mapped axes of different lengths ({n} vs {k})")
            n = k
        for a in kwargs.values():
            k = self._axis_len(a, 0)
            if n is not None and k is not None and k != n:
                raise EvalError("vmap: mapped axes of different lengths")
            n = k if n is None else n
        if n is None:
            raise EvalError("vmap without a mapped array argument")
        if n == 0:
            raise EvalError("vmap over an empty axis")
        outs = []
        for i in range(n):
            ai = [self._map_leaf(a, ax, i) for a, ax in zip(args, axes)]
            ki = {k: self._map_leaf(v, 0, i) for k, v in kwargs.items()}
            outs.append(self.call(f.fn, ai, ki))
        return self._apply_out_axes(self.tree_stack(outs), f.out_axes)

    def _check_out_axes(self, spec):
        """out_axes of jax.vmap: an integer (every result leaf) or a tuple / list of such specifications matching the result"""
        if isinstance(spec, (tuple, list)):
            for s in spec:
                self._check_out_axes(s)
            return
        if spec is None or isinstance(spec, bool) or not isinstance(spec, (int, Dual, Fraction)):
            raise EvalError("vmap with out_axes that is not an integer (or a tuple of integers)")
        self.as_int(spec)

    def _apply_out_axes(self, res, spec):
        """the stacked results carry the mapped axis in front: move it to the position(s) `spec` asks for"""
        if isinstance(spec, (tuple, list)):
            vs = list(res.values) if isinstance(res, Record) else res
            if not isinstance(vs, (tuple, list)) or len(vs) != len(spec):
                raise EvalError("vmap: out_axes structure does not fit the result")
            out = [self._apply_out_axes(x, s) for x, s in zip(vs, spec)]
            return Record(res.tname, res.fields, out, cls=res.cls) if isinstance(res, Record) else type(res)(out)
        k = self.as_int(spec)
        if k == 0:
            return res
        if isinstance(res, Arr):
            kk = k + res.ndim if k < 0 else k
            if not 0 <= kk < res.ndim:
                raise EvalError("vmap: out_axes out of range for a result")
            return moveaxis0(res, kk)
        if isinstance(res, (tuple, list)):
            return type(res)(self._apply_out_axes(x, spec) for x in res)
        if isinstance(res, Record):
            return Record(res.tname, res.fields, [self._apply_out_axes(x, spec) if x is not None else None for x in res.values], cls=res.cls)
        if isinstance(res, dict):
            return {kx: self._apply_out_axes(x, spec) for kx, x in res.items()}
        raise EvalError("vmap: out_axes applied to a result that is not an array")

    # methods ---------------------------------------------------------
    def call_method(self, base, name, args, kwargs):
        if isinstance(base, Record):
            if name == "_replace":
                if args:
                    raise EvalError("_replace with positional arguments")
                vals = list(base.values)
                for k, v in kwargs.items():
                    if k not in base.fields:
                        raise EvalError(f"_replace: unknown field {k}")
                    vals[base.fields.index(k)] = v
                return Record(base.tname, base.fields, vals, cls=base.cls)
            if name == "_asdict":
                return dict(zip(base.fields, base.values))
        if isinstance(base, list):
            if name == "append":
                base.append(args[0])
                return None
            if name == "extend":
                base.extend(self.iterate(args[0]))
                return None
            if name == "copy":
                return list(base)
        if isinstance(base, (list, tuple)) and name in ("index", "count"):
            return getattr(base, name)(*args)
        if isinstance(base, dict) and name == "values":
            return list(base.values())
        if isinstance(base, Dual):
            if name in ("astype", "item", "copy", "squeeze"):
                return base
        if isinstance(base, Arr):
            if name in ("astype", "copy"):
                return base
            if name == "squeeze" and not args and not kwargs:
                return Arr(base.data, tuple(s for s in base.shape if s != 1), isbool=base.isbool) if base.size() != 1 or base.ndim else base
            if name == "flatten":
                return base.ravel()
            if name == "item":
                if base.size() != 1:
                    raise EvalError("item() of an array")
                return base.data[0]
            if name == "tolist":
                return self._tolist(base)
            if name == "transpose" and not args:
                return base.T() if base.ndim == 2 else transpose(base, list(reversed(range(base.ndim))))
            if name in ("sum", "min", "max", "mean", "argmin", "argmax", "argsort", "prod", "any", "all", "take"):
                return self.np_call(name, [base] + list(args), kwargs)
            if name == "dot":
                return self.np_call("dot", [base, args[0]], {})
        return super().call_method(base, name, args, kwargs)

    def _tolist(self, a):
        if a.ndim == 1:
            return list(a.data)
        return [self._tolist(r) for r in rows(a)]

    # external functions -----------------------------------------------
    def call_ext(self, name, args, kwargs):
        if name in self.ext_special:
            return self.ext_special[name](self, args, kwargs)
        if name == "functools.partial":
            if not args:
                raise EvalError("partial without a function")
            return Partial(args[0], args[1:], kwargs)
        if name == "jax.vmap":
            in_axes = kwargs.get("in_axes", args[1] if len(args) > 1 else 0)
            out_axes = kwargs.get("out_axes", args[2] if len(args) > 2 else 0)
            unknown = set(kwargs) - {"in_axes", "out_axes"}
            if unknown:
                raise EvalError(f"vmap keyword(s) {sorted(unknown)}")
            return VMap(args[0], in_axes, out_axes)
        if name in ("jax.jit", "equinox.filter_jit", "jax.checkpoint", "jax.remat"):
            return args[0]
        if name == "jax.lax.switch":
            idx = self.value(int(args[0]) if isinstance(args[0], bool) else args[0])
            br = list(args[1])
            k = int(idx)
            if k != idx:
                raise EvalError("non-integer switch index")
            k = min(max(k, 0), len(br) - 1)
            return self.call(br[k], list(args[2:]), {})
        if name == "jax.lax.cond":
            c = self.truth(args[0])
            t, f_ = (args[1], args[2]) if len(args) >= 3 else (kwargs.get("true_fun"), kwargs.get("false_fun"))
            ops = list(args[3:])
            if "operand" in kwargs:
                ops = [kwargs["operand"]]
            if len(ops) == 1 and ops[0] is None:
                # historic single-operand form: cond(pred, true_fun, false_fun, None) calls fun(None)
                ops = [None]
            return self.call(t if c else f_, ops, {})
        if name == "jax.lax.select":
            return self.np_call("where", list(args), kwargs)
        if name == "jax.lax.clamp" and len(args) == 3:
            return self.np_call("clip", [args[1], args[0], args[2]], {})
        if name == "jax.lax.fori_loop" and len(args) >= 4:
            lo, hi = self.as_int(args[0]), self.as_int(args[1])
            val = args[3]
            for i in range(lo, hi):
                val = self.call(args[2], [i, val], {})
            return val
        if name == "jax.lax.scan" and len(args) >= 3 and not kwargs:
            carry, ys = args[1], []
            if args[2] is None:
                raise EvalError("scan without xs")
            k = self._axis_len(args[2], 0)
            if k is None:
                raise EvalError("scan over a structure without arrays")
            for i in range(k):
                carry, y = self.call(args[0], [carry, self._map_leaf(args[2], 0, i)], {})
                ys.append(y)
            return carry, (self.tree_stack(ys) if ys and ys[0] is not None else None)
        if name == "jax.lax.map" and len(args) == 2:
            k = self._axis_len(args[1], 0)
            if not k:
                raise EvalError("lax.map over a structure without arrays")
            return self.tree_stack([self.call(args[0], [self._map_leaf(args[1], 0, i)], {}) for i in range(k)])
        if name == "functools.reduce" and len(args) >= 2:
            items = self.iterate(args[1])
            acc = args[2] if len(args) > 2 else items.pop(0)
            for x in items:
                acc = self.call(args[0], [acc, x], {})
            return acc
        if name in ("operator.add", "operator.sub", "operator.mul", "operator.truediv") and len(args) == 2:
            op = {"add": ast.Add(), "sub": ast.Sub(), "mul": ast.Mult(), "truediv": ast.Div()}[name.split(".")[-1]]
            return self.binop(args[0], op, args[1])
        if name in ("math.ceil", "math.floor", "math.sqrt", "math.fabs"):
            v = self.num(args[0])
            if name == "math.sqrt":
                return d_fun("sqrt", v)
            if name == "math.fabs":
                return self.np_call("abs", [v], {})
            c = rat_const(v.a)
            if c is None:
                raise EvalError(f"{name} of a symbolic value")
            return math.ceil(c) if name == "math.ceil" else math.floor(c)
        if name == "builtins.enumerate":
            start = self.as_int(args[1]) if len(args) > 1 else self.as_int(kwargs.get("start", 0))
            return [(i + start, x) for i, x in enumerate(self.iterate(args[0]))]
        if name == "builtins.zip":
            return [tuple(t) for t in zip(*[self.iterate(a) for a in args])]
        if name == "builtins.abs":
            return self.np_call("abs", list(args), {})
        if name == "builtins.sum":
            tot = args[1] if len(args) > 1 else kwargs.get("start", 0)
            for x in self.iterate(args[0]):
                tot = self.binop(tot, ast.Add(), x)
            return tot
        if name in ("builtins.max", "builtins.min") and (len(args) != 2 or "key" in kwargs):
            items = self.iterate(args[0]) if len(args) == 1 else list(args)
            keyf = kwargs.get("key")
            if not items:
                raise EvalError("min/max of an empty sequence")
            vals = [self.value(self.call(keyf, [x], {}) if keyf is not None else x) for x in items]
            pick = (min if name.endswith("min") else max)(vals)
            hit = [i for i, v in enumerate(vals) if v == pick]
            if len(hit) > 1:
                raise EvalError("tie in min/max at the sample point")
            return items[hit[0]]
        if name == "builtins.sorted":
            items = self.iterate(args[0])
            keyf = kwargs.get("key")
            vals = [self.value(self.call(keyf, [x], {}) if keyf is not None else x) for x in items]
            order = sorted(range(len(items)), key=lambda i: vals[i])
            for i, j in zip(order, order[1:]):
                if vals[i] == vals[j]:
                    raise EvalError("tie in sorted at the sample point")
            if kwargs.get("reverse"):
                order.reverse()
            return [items[i] for i in order]
        if name == "jax.lax.top_k" and len(args) == 2:
            x = self.num(args[0])
            k = self.as_int(args[1])
            if not isinstance(x, Arr) or x.ndim != 1:
                raise EvalError("top_k of a multi-dimensional array")
            order = list(reversed(self._order(list(x.data))))[:k]
            return Arr([x.data[i] for i in order], (k,)), Arr([Dual(i) for i in order], (k,))
        if name in ("builtins.list", "builtins.tuple") and args and isinstance(args[0], (Record, dict)):
            it = self.iterate(args[0])
            return it if name.endswith("list") else tuple(it)
        if name in ("builtins.float", "builtins.int", "builtins.bool") and args and isinstance(args[0], bool):
            return args[0] if name.endswith("bool") else int(args[0])
        if name == "builtins.isinstance":
            raise EvalError("isinstance")
        if name == "builtins.len" and args and isinstance(args[0], Record):
            if args[0].cls is not None:
                for c in args[0].cls.children:
                    if c.kind == "function" and c.name == "__len__":
                        return self.call_closure(Closure(c, self.module_env(c.module)), [args[0]], {})
            return len(args[0].values)
        if name == "builtins.dict":
            d = dict(args[0]) if args and isinstance(args[0], dict) else {k: v for k, v in (args[0] if args else [])}
            d.update(kwargs)
            return d
        if name == "operator.itemgetter" and len(args) == 1:
            k = args[0]
            return PyFunc("itemgetter", lambda it, a, kw, k=k: it.getitem(a[0], k))
        return super().call_ext(name, args, kwargs)

    # numpy --------------------------------------------------------------
    def _axis(self, args, kwargs, pos=1):
        ax = kwargs.get("axis", args[pos] if len(args) > pos else None)
        return None if ax is None else self.as_int(ax)

    def _reduce(self, x, axis, f):
        """f: list of scalars -> scalar, applied to the whole array (axis None) or along one axis"""
        if isinstance(x, Dual):
            return f([x])
        if axis is None:
            return f(list(x.data))
        if x.ndim == 1:
            return f(list(x.data))
        sl = slices_along(x, axis)
        first = sl[0]
        if isinstance(first, Dual):
            return f(sl)
        return Arr([f([s.data[i] for s in sl]) for i in range(first.size())], first.shape)

    def _pick(self, xs, kind):
        vals = [self.value(x) for x in xs]
        best = min(vals) if kind == "min" else max(vals)
        hit = [i for i, v in enumerate(vals) if v == best]
        if len(hit) > 1 and any(not _A.equal(xs[hit[0]].a, xs[j].a) for j in hit[1:]):
            raise EvalError(f"tie in arg{kind} at the sample point")
        return hit[0]

    def _order(self, xs):
        vals = [self.value(x) for x in xs]
        order = sorted(range(len(xs)), key=lambda i: vals[i])
        for i, j in zip(order, order[1:]):
            if vals[i] == vals[j] and not _A.equal(xs[i].a, xs[j].a):
                raise EvalError("tie in argsort at the sample point")
        return order

    _NP_KWARGS = {"axis", "default", "a_min", "a_max", "min", "max", "ord", "axes", "dtype", "descending"}

    def np_call(self, fn, args, kwargs):
        n = self.arr
        extra = set(kwargs) - self._NP_KWARGS
        if extra:
            raise EvalError(f"numpy function {fn} with the keyword(s) {sorted(extra)}")
        if kwargs.get("descending"):
            raise EvalError(f"numpy function {fn} with descending order")
        if fn in ("float64", "float32", "float_", "double", "asarray", "array", "atleast_1d") and fn not in ("array", "asarray", "atleast_1d"):
            return n(args[0])
        if fn == "atleast_1d":
            x = n(args[0])
            return Arr([x], (1,)) if isinstance(x, Dual) else x
        if fn in ("array", "asarray") and args and isinstance(args[0], (list, tuple)):
            flat = self._deep_list(args[0])
            return Arr.from_nested(flat)
        if fn == "where" and len(args) == 3:
            c, x, y = args
            if isinstance(c, Arr):
                if isinstance(x, bool) or isinstance(y, bool):
                    raise EvalError("np.where with boolean branches")
                return self.elementwise(lambda cv, xv, yv: xv if self._true(cv) else yv, c, x, y)
            return x if self.truth(c) else y
        if fn == "select":
            conds, choices = list(args[0]), list(args[1])
            default = kwargs.get("default", args[2] if len(args) > 2 else 0)
            if len(conds) != len(choices):
                raise EvalError("np.select: condition / choice lists of different lengths")
            res = default
            for c, ch in reversed(list(zip(conds, choices))):
                res = self.np_call("where", [c, ch, res], {})
            return res
        if fn == "piecewise":
            return self._piecewise(args, kwargs)
        if fn == "einsum":
            return self._einsum(args, kwargs)
        if fn in ("nanargmin", "nanargmax"):
            x = n(args[0])
            if not isinstance(x, Arr) or x.ndim != 1 or self._axis(args, kwargs) not in (None, 0, -1):
                raise EvalError(f"{fn} of a multi-dimensional array")
            keep = [i for i, v in enumerate(x.data) if "@nan" not in v.a.atoms()]
            if not keep:
                raise EvalError(f"{fn} of an all-NaN array")
            return Dual(keep[self._pick([x.data[i] for i in keep], fn[6:])])
        if fn in ("minimum", "maximum", "fmin", "fmax") and len(args) == 2:
            lt = ast.Lt()
            if fn in ("minimum", "fmin"):
                return self.elementwise(lambda x, y: x if self._cmp(x, lt, y) else y, args[0], args[1])
            return self.elementwise(lambda x, y: y if self._cmp(x, lt, y) else x, args[0], args[1])
        if fn == "clip":
            x = args[0]
            lo = kwargs.get("a_min", kwargs.get("min", args[1] if len(args) > 1 else None))
            hi = kwargs.get("a_max", kwargs.get("max", args[2] if len(args) > 2 else None))
            if lo is not None:
                x = self.np_call("maximum", [x, lo], {})
            if hi is not None:
                x = self.np_call("minimum", [x, hi], {})
            return x
        if fn in ("abs", "absolute", "fabs", "sign"):
            x = n(args[0])
            f1 = "abs" if fn != "sign" else "sign"
            for v in (x.data if isinstance(x, Arr) else [x]):
                self._log(v.a)
            if isinstance(x, Arr):
                return x.map(lambda v: Interp.np_call(self, f1, [v], {}))
            return Interp.np_call(self, f1, [x], {})
        if fn == "square":
            return self.binop(args[0], ast.Mult(), args[0])
        if fn in ("add", "subtract", "multiply", "divide", "true_divide") and len(args) == 2:
            op = {"add": ast.Add(), "subtract": ast.Sub(), "multiply": ast.Mult()}.get(fn, ast.Div())
            return self.binop(args[0], op, args[1])
        if fn == "negative":
            return self.neg(args[0])
        if fn == "reciprocal":
            return self.binop(1, ast.Div(), args[0])
        if fn == "hypot":
            return self.elementwise(lambda x, y: d_fun("sqrt", x * x + y * y), args[0], args[1])
        if fn in ("mod", "remainder"):
            return self.binop(args[0], ast.Mod(), args[1])
        if fn in ("logical_and", "logical_or", "logical_xor", "bitwise_and", "bitwise_or"):
            op = ast.BitAnd() if fn.endswith("and") else ast.BitOr() if fn.endswith("_or") else ast.BitXor()
            return self.binop(args[0], op, args[1])
        if fn == "logical_not":
            v = args[0]
            if isinstance(v, bool):
                return not v
            r = v.map(lambda x: bool_dual(rat_const(x.a) != 1))
            r.isbool = True
            return r
        if fn in ("any", "all"):
            v = args[0]
            if isinstance(v, bool):
                return v
            if not is_boolarr(v) or self._axis(args, kwargs) is not None:
                raise EvalError(f"np.{fn} of a non-boolean array / along an axis")
            bs = [rat_const(x.a) == 1 for x in v.data]
            return any(bs) if fn == "any" else all(bs)
        if fn in ("isnan", "isinf"):
            x = n(args[0])
            isn = lambda v: "@nan" in v.a.atoms()
            if fn == "isinf":
                isn = lambda v: False
            if isinstance(x, Arr):
                r = x.map(lambda v: bool_dual(isn(v)))
                r.isbool = True
                return r
            return isn(x)
        if fn in ("sum", "mean", "prod"):
            x = n(args[0])
            ax = self._axis(args, kwargs)
            if fn == "sum":
                return self._reduce(x, ax, lambda xs: sum_d(xs))
            if fn == "prod":
                def pr(xs):
                    p = Dual(1)
                    for v in xs:
                        p = p * v
                    return p
                return self._reduce(x, ax, pr)
            return self._reduce(x, ax, lambda xs: sum_d(xs) / Dual(len(xs)))
        if fn in ("min", "max", "amin", "amax", "nanmin", "nanmax"):
            x = n(args[0])
            kind = "min" if "min" in fn else "max"
            return self._reduce(x, self._axis(args, kwargs), lambda xs: xs[self._pick(xs, kind)])
        if fn in ("argmin", "argmax"):
            x = n(args[0])
            kind = fn[3:]
            return self._reduce(x, self._axis(args, kwargs), lambda xs: Dual(self._pick(xs, kind)))
        if fn in ("argsort", "sort"):
            x = n(args[0])
            ax = kwargs.get("axis", args[1] if len(args) > 1 else -1)
            if not isinstance(x, Arr) or x.ndim == 0:
                raise EvalError(f"{fn} of a scalar")
            if ax is None:
                x, ax = x.ravel(), 0
            ax = self.as_int(ax)
            if ax < 0:
                ax += x.ndim
            perm = [i for i in range(x.ndim) if i != ax] + [ax]
            y = transpose(x, perm) if perm != list(range(x.ndim)) else x
            L = y.shape[-1]
            out = []
            for k in range(0, len(y.data), L):
                chunk = list(y.data[k:k + L])
                order = self._order(chunk)
                out += [Dual(i) for i in order] if fn == "argsort" else [chunk[i] for i in order]
            res = Arr(out, y.shape)
            if perm != list(range(x.ndim)):
                inv = [perm.index(i) for i in range(x.ndim)]
                res = transpose(res, inv)
            return res
        if fn == "outer":
            a, b = n(args[0]), n(args[1])
            a = a.ravel() if isinstance(a, Arr) else Arr([a], (1,))
            b = b.ravel() if isinstance(b, Arr) else Arr([b], (1,))
            return Arr([x * y for x in a.data for y in b.data], (a.shape[0], b.shape[0]))
        if fn in ("stack", "vstack", "row_stack"):
            items = [n(x) for x in self.iterate(args[0])]
            ax = self._axis(args, kwargs)
            if fn != "stack" and all(isinstance(x, Arr) and x.ndim >= 2 for x in items):
                return self.np_call("concatenate", [items], {})
            if fn != "stack" and any(isinstance(x, Dual) for x in items):
                items = [Arr([x], (1,)) if isinstance(x, Dual) else x for x in items]
            res = stack(items)
            if ax not in (None, 0):
                if ax < 0:
                    ax += res.ndim
                res = moveaxis0(res, ax)
            return res
        if fn == "column_stack":
            items = [n(x) for x in self.iterate(args[0])]
            if all(isinstance(x, Arr) and x.ndim == 1 for x in items):
                return stack(items).T()
            raise EvalError("column_stack of non-vectors")
        if fn in ("concatenate", "append"):
            items = [n(x) for x in (self.iterate(args[0]) if fn == "concatenate" else args[:2])]
            ax = self._axis(args, kwargs, pos=1 if fn == "concatenate" else 2)
            if fn == "append" and ax is None:
                items = [x.ravel() if isinstance(x, Arr) else Arr([x], (1,)) for x in items]
            if ax not in (None, 0) or any(not isinstance(x, Arr) for x in items):
                raise EvalError("concatenate along an inner axis / of scalars")
            if len({tuple(x.shape[1:]) for x in items}) != 1:
                raise EvalError("concatenate of differently shaped arrays")
            return Arr([d for x in items for d in x.data], (sum(x.shape[0] for x in items),) + tuple(items[0].shape[1:]))
        if fn == "hstack":
            items = [n(x) for x in self.iterate(args[0])]
            if any(isinstance(x, Arr) and x.ndim > 1 for x in items):
                raise EvalError("hstack of matrices")
            return Interp.np_call(self, "hstack", [items], {})
        if fn == "take":
            x, idx = n(args[0]), args[1]
            ax = self._axis(args, kwargs, pos=2)
            if ax in (None,):
                x = x.ravel()
                ax = 0
            if ax < 0:
                ax += x.ndim
            key = (slice(None),) * ax + (self.num(idx) if isinstance(idx, (list, tuple, Arr)) else self.as_int(idx),)
            return self.getitem(x, key)
        if fn == "repeat":
            x = n(args[0])
            reps = self.as_int(args[1])
            ax = self._axis(args, kwargs, pos=2)
            if isinstance(x, Dual):
                return Arr([x] * reps, (reps,))
            if ax is None:
                return Arr([v for v in x.data for _ in range(reps)], (x.size() * reps,))
            if ax < 0:
                ax += x.ndim
            sl = slices_along(x, ax)
            res = stack([s_ for s_ in sl for _ in range(reps)])
            return moveaxis0(res, ax)
        if fn == "take_along_axis":
            x, idx = n(args[0]), n(args[1])
            ax = self._axis(args, kwargs, pos=2)
            if ax is None or not isinstance(x, Arr) or not isinstance(idx, Arr) or idx.ndim != x.ndim:
                raise EvalError("take_along_axis: unsupported arguments")
            if ax < 0:
                ax += x.ndim
            for d_, (sx, si) in enumerate(zip(x.shape, idx.shape)):
                if d_ != ax and sx != si:
                    raise EvalError("take_along_axis: broadcasting of the other axes")
            out = []
            for ix in itertools.product(*[range(s_) for s_ in idx.shape]):
                src = list(ix)
                k = self.as_int(idx.get(ix))
                src[ax] = k if k >= 0 else k + x.shape[ax]
                out.append(x.get(tuple(src)))
            return Arr(out, idx.shape)
        if fn in ("transpose",):
            x = n(args[0])
            perm = kwargs.get("axes", args[1] if len(args) > 1 else None)
            if perm is None:
                return x.T() if x.ndim == 2 else transpose(x, list(reversed(range(x.ndim))))
            return transpose(x, [self.as_int(p) for p in perm])
        if fn == "moveaxis":
            x = n(args[0])
            s, d = self.as_int(args[1]), self.as_int(args[2])
            perm = [i for i in range(x.ndim) if i != s % x.ndim]
            perm.insert(d % x.ndim, s % x.ndim)
            return transpose(x, perm)
        if fn == "squeeze":
            return self.call_method(n(args[0]), "squeeze", [], {})
        if fn == "ravel":
            x = n(args[0])
            return x.ravel() if isinstance(x, Arr) else Arr([x], (1,))
        if fn in ("ones_like", "zeros_like", "full_like"):
            x = n(args[0])
            v = Dual(0) if fn == "zeros_like" else Dual(1) if fn == "ones_like" else n(args[1])
            return Arr([v] * len(x.data), x.shape) if isinstance(x, Arr) else v
        if fn in ("dot", "vdot", "matmul", "inner"):
            A, B = n(args[0]), n(args[1])
            if isinstance(A, Arr) and isinstance(B, Arr):
                if fn == "inner" and (A.ndim != 1 or B.ndim != 1):
                    raise EvalError("inner of matrices")
                return matmul(A, B)
            return self.binop(A, ast.Mult(), B)
        if fn == "cross" and len(args) == 2:
            a, b = n(args[0]), n(args[1])
            if isinstance(a, Arr) and isinstance(b, Arr) and a.shape == (2,) and b.shape == (2,):
                return a.data[0] * b.data[1] - a.data[1] * b.data[0]
            raise EvalError("cross of non-planar vectors")
        if fn == "linalg.norm":
            x = n(args[0])
            ordv = kwargs.get("ord", args[1] if len(args) > 1 else None)
            ax = self._axis(args, kwargs, pos=2)
            if ordv not in (None, 2):
                raise EvalError("norm with ord")
            sq = lambda xs: d_fun("sqrt", sum_d(v * v for v in xs))
            if isinstance(x, Dual):
                return self.np_call("abs", [x], {})
            if ax is None:
                if x.ndim > 1 and ordv == 2:
                    raise EvalError("spectral norm")
                return sq(list(x.data))
            return self._reduce(x, ax, sq)
        if fn == "linalg.solve":
            A, b = n(args[0]), n(args[1])
            if isinstance(A, Arr) and A.shape == (2, 2) and isinstance(b, Arr) and b.shape == (2,):
                a11, a12, a21, a22 = A.data
                det = a11 * a22 - a12 * a21
                return Arr([(b.data[0] * a22 - a12 * b.data[1]) / det, (a11 * b.data[1] - a21 * b.data[0]) / det], (2,))
            raise EvalError("linalg.solve of a non-2x2 system")
        if fn in ("sqrt", "exp", "log", "log1p", "expm1") and args and isinstance(args[0], (list, tuple)):
            return Interp.np_call(self, fn, [n(args[0])], kwargs)
        if fn in ("zeros", "ones", "empty") and args:
            shp = args[0]
            if isinstance(shp, Arr):
                shp = tuple(self.as_int(s) for s in shp.data)
            return Interp.np_call(self, "zeros" if fn == "empty" else fn, [shp], {})
        if fn == "sum" or fn == "trace":
            pass
        if fn == "power":
            return self.binop(args[0], ast.Pow(), args[1]) if not isinstance(args[1], (Dual, Arr)) else Interp.np_call(self, fn, args, kwargs)
        if fn == "shape":
            x = n(args[0])
            return x.shape if isinstance(x, Arr) else ()
        if fn in ("size", "ndim"):
            x = n(args[0])
            return (x.size() if fn == "size" else x.ndim) if isinstance(x, Arr) else (1 if fn == "size" else 0)
        return super().np_call(fn, args, kwargs)

    def _piecewise(self, args, kwargs):
        """np.piecewise(x, condlist, funclist): element-wise; at the sample point at most one condition may hold (numpy lets the last,
        jax the first true condition win -- a point where they differ is not decided)"""
        x = self.num(args[0])
        conds, funcs = list(args[1]), list(args[2])
        extra = list(args[3:])
        if len(funcs) not in (len(conds), len(conds) + 1):
            raise EvalError("piecewise: function list does not fit the condition list")

        def one(xv, cvs):
            hit = [k for k, c in enumerate(cvs) if (c if isinstance(c, bool) else self._true(c))]
            if len(hit) > 1:
                raise EvalError("piecewise: several conditions hold at the sample point")
            if not hit:
                if len(funcs) == len(conds):
                    return Dual(0)
                f = funcs[-1]
            else:
                f = funcs[hit[0]]
            if isinstance(f, (Closure, PyFunc, Partial, VMap)):
                return self.num(self.call(f, [xv] + extra, kwargs))
            return self.num(f)
        if isinstance(x, Dual):
            return one(x, conds)
        cs = [broadcast_to(c, x.shape) if isinstance(c, Arr) else c for c in conds]
        return Arr([one(xv, [c.data[i] if isinstance(c, Arr) else c for c in cs]) for i, xv in enumerate(x.data)], x.shape)

    def _einsum(self, args, kwargs):
        spec = args[0]
        if not isinstance(spec, str):
            raise EvalError("einsum without a subscript string")
        ops = [self.num(a) for a in args[1:]]
        spec = spec.replace(" ", "")
        if "." in spec:
            raise EvalError("einsum with an ellipsis")
        lhs, _, rhs = spec.partition("->")
        ins = lhs.split(",")
        if len(ins) != len(ops):
            raise EvalError("einsum: operand count")
        if "->" not in spec:
            letters = "".join(ins)
            rhs = "".join(sorted(c for c in set(letters) if letters.count(c) == 1))
        dims = {}
        for sub, op in zip(ins, ops):
            shp = op.shape if isinstance(op, Arr) else ()
            if len(sub) != len(shp):
                raise EvalError("einsum: subscripts do not fit the operand")
            for c, d in zip(sub, shp):
                if dims.setdefault(c, d) != d:
                    raise EvalError("einsum: inconsistent dimensions")
        summed = [c for c in dims if c not in rhs]
        out = []
        for oix in itertools.product(*[range(dims[c]) for c in rhs]):
            tot = Dual(0)
            for six in itertools.product(*[range(dims[c]) for c in summed]):
                ix = dict(zip(rhs, oix))
                ix.update(zip(summed, six))
                term = Dual(1)
                for sub, op in zip(ins, ops):
                    term = term * (op.get(tuple(ix[c] for c in sub)) if isinstance(op, Arr) else op)
                tot = tot + term
            out.append(tot)
        if not rhs:
            return out[0]
        return Arr(out, tuple(dims[c] for c in rhs))

    def _deep_list(self, v):
        if isinstance(v, (list, tuple)):
            return [self._deep_list(x) for x in v]
        if isinstance(v, bool):
            raise EvalError("boolean in an array literal")
        return v

    def _true(self, cv):
        c = rat_const(cv.a)
        if c is not None:
            return c != 0
        return self.truth(cv)

    # ---- statements
    def stmt(self, st, env):
        if isinstance(st, ast.For):
            it = self.iterate(self.eval(st.iter, env))
            for x in it:
                self.assign(st.target, x, env)
                self.block(st.body, env)
            if st.orelse:
                self.block(st.orelse, env)
            return
        if isinstance(st, ast.AnnAssign):
            if st.value is not None:
                self.assign(st.target, self.eval(st.value, env), env)
            return
        if isinstance(st, (ast.Global, ast.Nonlocal)):
            raise EvalError("global / nonlocal statement")
        return super().stmt(st, env)

    def _held_by_an_object(self, arr):
        def holds(x, depth=0):
            if x is arr:
                return True
            if depth < 3 and isinstance(x, (tuple, list)):
                return any(holds(y, depth + 1) for y in x)
            if depth < 3 and isinstance(x, dict):
                return any(holds(y, depth + 1) for y in x.values())
            return False
        return any(holds(x) for inst in self.instances for x in inst.values)

    def assign(self, t, v, env):
        if isinstance(t, ast.Attribute):
            base = self.eval(t.value, env)
            if not isinstance(base, Instance):
                raise EvalError("attribute store into something that is not an object of a plain repository class")
            self._set_attribute(base, t.attr, v)
            return
        if isinstance(t, ast.Subscript) and self.instances and isinstance(t.value, ast.Name):
            base = self.eval(t.value, env)
            if isinstance(base, Arr) and self._held_by_an_object(base):
                # the store is modelled by rebinding the names in scope; an attribute that aliases the array would not see it
                raise EvalError("in-place store into an array that an object attribute also refers to")
        if isinstance(t, (ast.Tuple, ast.List)):
            if isinstance(v, Arr):
                v = rows(v)
            elif isinstance(v, Record):
                v = list(v.values)
            if any(isinstance(x, ast.Starred) for x in t.elts):
                v = list(v)
                k = [i for i, x in enumerate(t.elts) if isinstance(x, ast.Starred)][0]
                tail = len(t.elts) - k - 1
                if len(v) < len(t.elts) - 1:
                    raise EvalError("unpack width")
                for a, b in zip(t.elts[:k], v[:k]):
                    self.assign(a, b, env)
                self.assign(t.elts[k].value, list(v[k:len(v) - tail]), env)
                for a, b in zip(t.elts[k + 1:], v[len(v) - tail:] if tail else []):
                    self.assign(a, b, env)
                return
        return super().assign(t, v, env)


# ------------------------------------------------------------------ symbolic helpers for the rules

def atom(name):
    return Dual(_A.atom(name))


def sym_array(prefix, shape):
    """array of fresh symbols  prefix<i>_<j>..."""
    idx = list(itertools.product(*[range(s) for s in shape]))
    return Arr([atom(prefix + "_".join(str(i) for i in ix)) for ix in idx], shape)


def int_array(nested):
    return Arr.from_nested(nested)


def key_of(x):
    """canonical text of a scalar value (for the names of opaque applications)"""
    if isinstance(x, Ext) and x.name.split(".")[-1].lower() == "nan":
        return "nan"
    x = Dual.of(x) if not isinstance(x, Dual) else x
    return repr(simplify(_A.norm(x.a)))


def same(a, b):
    """symbolic equality of two scalars"""
    a = a if isinstance(a, Dual) else Dual.of(a)
    b = b if isinstance(b, Dual) else Dual.of(b)
    return _A.equal(a.a, b.a)


def same_arr(a, b):
    """symbolic equality of two arrays / scalars of the same number of entries (shape-insensitive up to singleton axes)"""
    da = a.data if isinstance(a, Arr) else [a]
    db = b.data if isinstance(b, Arr) else [b]
    if len(da) != len(db):
        return False
    if isinstance(a, Arr) and isinstance(b, Arr) and tuple(s for s in a.shape if s != 1) != tuple(s for s in b.shape if s != 1):
        return False
    return all(same(x, y) for x, y in zip(da, db))


def _generic_value(name):
    import zlib
    h = zlib.crc32(name.encode())
    return Fraction(3 + h % 97, 7 + (h // 97) % 13)


def number(x, sample=None):
    """numeric value of a scalar at the sample point; atoms without a value (free symbols, opaque applications) get a fixed generic value"""
    x = x if isinstance(x, Dual) else Dual.of(x)
    smp = Sample(dict(sample.env) if sample is not None else {}, list(sample.resolvers) if sample is not None else [])
    smp.resolvers.append(lambda nme: None if nme in _A.rules else _generic_value(nme))
    return smp(x.a)


def judge(got, want, sample=None):
    """True: symbolically identical.  False: the two values differ numerically at the sample point (a concrete counterexample).
    None: not identical as normal forms, yet equal at the sample point -- nothing is claimed."""
    gd = list(got.data) if isinstance(got, Arr) else [got]
    wd = list(want.data) if isinstance(want, Arr) else [want]
    if len(gd) != len(wd):
        return False
    if isinstance(got, Arr) and isinstance(want, Arr) and tuple(s for s in got.shape if s != 1) != tuple(s for s in want.shape if s != 1):
        return False
    res = True
    for x, y in zip(gd, wd):
        if same(x, y):
            continue
        vx, vy = number(x, sample), number(y, sample)
        if vx is None or vy is None:
            res = None
            continue
        if abs(float(vx) - float(vy)) > 1e-9 * (1 + abs(float(vx)) + abs(float(vy))):
            return False
        # x^2 == y^2 identically means x = +-y at every point; the two are continuous on the region of the sample (one fixed branch path), so
        # the sign read off at the sample (where they agree and do not vanish) holds on the whole region: sqrt(u^2) versus u, |v| versus n.v for v || n
        try:
            if abs(float(vx)) > 1e-9 and same(Dual.of(x) * Dual.of(x), Dual.of(y) * Dual.of(y)):
                continue
        except Exception:
            pass
        res = None
    return res


def coeff(r, name):
    """coefficient of the atom `name` in the scalar r if r is affine in it, else None"""
    d = _A.diff(r.a if isinstance(r, Dual) else r, name)
    if name in d.atoms():
        return None
    return Dual(d)


def show(v, n=140):
    s = repr(v)
    return s if len(s) <= n else s[:n] + "..."
