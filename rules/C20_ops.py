"""C20_ops -- expressions, attributes, methods, builtins and the NumPy vocabulary of the symbolic-shape interpreter (mixin of C20_eval.Interp)."""
from __future__ import annotations

import ast

from optilint.expr import Poly
from .C20_interp import (Int, Scalar, Arr, Str, Key, EnumVal, UserClass, NTInst, Instance, ListV, DictV, DictView, RangeV, SliceV, Func, Bound,
                         Builtin, Method, ModuleV, LibModule, FileObj, Opaque, Poison, Partial, Env, Group, MISSING, NODEFAULT, Undecidable, ProgramError,
                         ReturnSig, BreakSig, ContinueSig, PC, PS, ZERO, ONE, psubst, pconst, const_of, new_oid)
from . import C20_text as T
from . import C20_np as N

NP_FUNCS = {
    "array", "asarray", "asanyarray", "ascontiguousarray", "copy", "zeros", "ones", "empty", "full", "zeros_like", "ones_like", "empty_like",
    "full_like", "arange", "tile", "repeat", "vstack", "hstack", "concatenate", "stack", "column_stack", "row_stack", "atleast_1d", "atleast_2d",
    "atleast_3d", "reshape", "ravel", "transpose", "shape", "size", "ndim", "sum", "min", "max", "mean", "abs", "sqrt", "where", "isnan",
    "nan_to_num", "real", "round", "around", "squeeze", "expand_dims", "float64", "float32", "int64", "int32", "int_", "float_", "double",
    "append", "savetxt", "pad", "c_", "r_", "linalg", "newaxis", "issubdtype", "floating", "integer", "ndarray", "dtype", "array2string", "any", "all",
}
NP_DTYPES = {"float64", "float32", "int64", "int32", "int_", "float_", "double", "floating", "integer", "bool_", "uint8", "int8", "int16"}
ELEMENTWISE = {"abs", "sqrt", "isnan", "nan_to_num", "real", "round", "around", "float64", "float32", "int64", "int32", "int_", "float_", "double"}
BUILTINS = {"len", "range", "str", "repr", "int", "float", "bool", "list", "tuple", "dict", "set", "enumerate", "zip", "map", "open", "print",
            "isinstance", "min", "max", "sum", "abs", "any", "all", "format", "sorted", "reversed", "getattr", "hasattr", "type", "iter", "next",
            "property", "staticmethod", "classmethod", "object", "Exception", "OSError", "IOError", "ValueError", "TypeError", "id", "round"}


class OpsMixin:
    # ------------------------------------------------------------------ names
    def lookup(self, name, env, node):
        v = env.lookup(name)
        if v is MISSING and not self.in_lib_module(env):
            v = self.globals.lookup(name)       # (code of a private helper module does not see the globals of the module under analysis)
        if v is MISSING:
            if name in BUILTINS:
                return Builtin(name)
            raise Undecidable(f"name `{name}` is not bound", node)
        if isinstance(v, Poison):
            raise Undecidable(v.why, node)
        return v

    def imported(self, module, name):
        if module in ("numpy",) :
            return self.np_attr(name)
        if module == "collections" and name == "namedtuple":
            return Builtin("namedtuple")
        if module == "typing" and name == "NamedTuple":
            return Builtin("NamedTuple")
        if module == "enum" and name in ("Enum", "IntEnum", "auto"):
            return Builtin(name)
        if module == "functools" and name in ("partial", "cached_property"):
            return Builtin(name)
        if module == "dataclasses" and name == "dataclass":
            return Builtin("dataclass")
        if module == "warnings" and name == "warn":
            return Builtin("warnings.warn")
        if module == "dataclasses" and name == "replace":
            return Builtin("dataclasses.replace")
        if module == "copy" and name in ("copy", "deepcopy"):
            return Builtin("copy." + name)
        if module == "itertools" and name == "chain":
            return Builtin("chain")
        if module == "io" and name == "StringIO":
            return Builtin("io.StringIO")
        if module == "os" and name == "linesep":
            return Opaque("os.linesep")
        return Opaque(f"{module}.{name}")

    def np_attr(self, name):
        if name in NP_DTYPES and name not in ("float64", "float32", "int64", "int32", "int_", "float_", "double"):
            return Opaque(f"np.{name}")
        if name == "newaxis":
            return None
        if name in NP_FUNCS:
            return Builtin(f"np.{name}")
        return Opaque(f"np.{name}")

    # ------------------------------------------------------------------ expressions
    def eval(self, e, env):
        m = _DISPATCH.get(type(e))
        if m is None:
            m = getattr(type(self), "e_" + type(e).__name__, None)
            if m is None:
                raise Undecidable(f"expression {type(e).__name__}", e)
            _DISPATCH[type(e)] = m
        try:
            return m(self, e, env)
        except Undecidable as ex:
            if ex.node is None:
                ex.node = e
            raise
        except ProgramError as ex:
            if ex.node is None:
                ex.node = e
                ex.scope = self.stack[-1] if self.stack else None
            raise

    def e_Constant(self, e, env):
        v = e.value
        if isinstance(v, bool) or v is None or isinstance(v, str):
            return v
        if isinstance(v, int):
            return Int(v)
        if isinstance(v, float):
            return Scalar("float")
        if v is Ellipsis:
            return Ellipsis
        raise Undecidable(f"constant {v!r}", e)

    def e_Name(self, e, env):
        return self.lookup(e.id, env, e)

    def e_Attribute(self, e, env):
        return self.getattr_(self.eval(e.value, env), e.attr, e)

    def e_Tuple(self, e, env):
        return tuple(self.eval_items(e.elts, env))

    def e_List(self, e, env):
        return ListV(items=self.eval_items(e.elts, env))

    def e_Set(self, e, env):
        return tuple(self.eval_items(e.elts, env))

    def eval_items(self, elts, env):
        out = []
        for x in elts:
            if isinstance(x, ast.Starred):
                v = self.eval(x.value, env)
                out.extend(self.concrete_items(v, x))
            else:
                out.append(self.eval(x, env))
        return out

    def concrete_items(self, v, node):
        if isinstance(v, tuple):
            return list(v)
        if isinstance(v, ListV) and v.items is not None:
            return list(v.items)
        if isinstance(v, NTInst):
            return list(v.vals.values())
        if isinstance(v, Arr) and v.shape and pconst(self.norm(v.shape[0])) is not None and pconst(self.norm(v.shape[0])) <= 16:
            return [self.arr_elem(v) for _ in range(pconst(self.norm(v.shape[0])))]
        raise Undecidable(f"a sequence of unknown length is unpacked: {v!r}", node)

    def e_Dict(self, e, env):
        d = DictV()
        for k, v in zip(e.keys, e.values):
            if k is None:
                src = self.eval(v, env)
                if not isinstance(src, DictV):
                    raise Undecidable("** of a non-dict", e)
                for kk, vv in src.entries:
                    self.dict_set(d, kk, vv, e, log=False)
            else:
                self.dict_set(d, self.eval(k, env), self.eval(v, env), e, log=False)
        return d

    def e_Yield(self, e, env):
        out = env.lookup("__yield__")
        if not isinstance(out, ListV):
            raise Undecidable("yield outside a generator function", e)
        self.list_method(out, "append", [self.eval(e.value, env) if e.value is not None else None], {}, e)
        return None

    def e_YieldFrom(self, e, env):
        out = env.lookup("__yield__")
        if not isinstance(out, ListV):
            raise Undecidable("yield outside a generator function", e)
        src = self.call_builtin("list", [self.eval(e.value, env)], {}, e)
        self.list_method(out, "extend", [src], {}, e)
        return None

    def e_Lambda(self, e, env):
        return self.make_func(e, env, None)

    def e_IfExp(self, e, env):
        return self.eval(e.body if self.truth(self.eval(e.test, env), e.test) else e.orelse, env)

    def e_NamedExpr(self, e, env):
        v = self.eval(e.value, env)
        env.vars[e.target.id] = v
        return v

    def e_JoinedStr(self, e, env):
        atoms = []
        for v in e.values:
            if isinstance(v, ast.Constant):
                atoms.extend(T.text_of(v.value, self.prov(e)))
            else:
                val = self.eval(v.value, env)
                spec = ""
                if v.format_spec is not None:
                    sp = self.eval(v.format_spec, env)
                    spec = sp if isinstance(sp, str) else None
                    if spec is None:
                        raise Undecidable("computed format specification", e)
                atoms.extend(T.format_value(val, spec, self.prov(e)))
        return self.mk_str(atoms)

    def mk_str(self, atoms):
        c = T.concrete(atoms)
        return c if c is not None else Str(atoms)

    def prov(self, node):
        return (self.stack[-1] if self.stack else None, node)

    def e_UnaryOp(self, e, env):
        v = self.eval(e.operand, env)
        if isinstance(e.op, ast.Not):
            return not self.truth(v, e.operand)
        if isinstance(e.op, ast.USub):
            if isinstance(v, Int):
                return Int(ZERO - v.p)
            if isinstance(v, (Scalar, Arr)):
                return Scalar(v.kind) if isinstance(v, Scalar) else Arr(v.shape)
        if isinstance(e.op, ast.UAdd) and isinstance(v, (Int, Scalar, Arr)):
            return v
        raise Undecidable(f"unary {type(e.op).__name__} on {v!r}", e)

    def e_BoolOp(self, e, env):
        is_and = isinstance(e.op, ast.And)
        v = None
        for x in e.values:
            v = self.eval(x, env)
            t = self.truth(v, x)
            if is_and and not t:
                return v
            if not is_and and t:
                return v
        return v

    def e_BinOp(self, e, env):
        return self.binop(e.op, self.eval(e.left, env), self.eval(e.right, env), e)

    def binop(self, op, a, b, node):
        if isinstance(a, Opaque) or isinstance(b, Opaque):
            if isinstance(a, (Opaque, str, Str, Int, Scalar)) and isinstance(b, (Opaque, str, Str, Int, Scalar)):
                return Opaque("expression of an unmodelled value")
        if isinstance(a, bool):
            a = Int(int(a))
        if isinstance(b, bool):
            b = Int(int(b))
        if isinstance(a, Int) and isinstance(b, Int):
            if isinstance(op, ast.Add):
                return Int(a.p + b.p)
            if isinstance(op, ast.Sub):
                return Int(a.p - b.p)
            if isinstance(op, ast.Mult):
                return Int(a.p * b.p)
            if isinstance(op, ast.FloorDiv):
                cb = pconst(self.norm(b.p))
                if cb:
                    q = self.norm(a.p) * PC(Fraction_(1, cb))
                    if all(c.denominator == 1 for c in q.t.values()):
                        return Int(q)
                raise Undecidable("integer division of a symbolic count", node)
            if isinstance(op, ast.Pow):
                cb = pconst(b.p)
                if cb is not None and 0 <= cb <= 6:
                    return Int(a.p.pow(cb))
            if isinstance(op, ast.Div):
                return Scalar("float")
            if isinstance(op, ast.Mod):
                ca, cb = pconst(self.norm(a.p)), pconst(self.norm(b.p))
                if ca is not None and cb:
                    return Int(ca % cb)
            raise Undecidable(f"{type(op).__name__} on symbolic integers", node)
        # text
        if isinstance(a, (str, Str)) or isinstance(b, (str, Str)):
            if isinstance(op, ast.Add) and isinstance(a, (str, Str)) and isinstance(b, (str, Str)):
                return self.mk_str(T.text_of(a) + T.text_of(b))
            if isinstance(op, ast.Mult):
                s, n = (a, b) if isinstance(a, (str, Str)) else (b, a)
                if isinstance(n, Int):
                    if self.sign(n.p) in ("neg", "nonpos"):
                        return ""
                    if self.sign(n.p) not in ("zero", "pos", "nonneg"):
                        raise Undecidable("text repeated a possibly negative number of times", node)
                    return self.mk_str(T.repeat(self.reprov(T.text_of(s), node), self.norm(n.p)).atoms)
            if isinstance(op, ast.Mod) and isinstance(a, str):
                return self.mk_str(T.percent_format(a, b, self.prov(node)).atoms)
            raise Undecidable(f"{type(op).__name__} on text", node)
        # sequences
        if isinstance(a, ListV) and isinstance(b, ListV) and isinstance(op, ast.Add):
            if a.items is not None and b.items is not None:
                return ListV(items=a.items + b.items)
            return ListV(segs=self.list_segs(a) + self.list_segs(b))
        if isinstance(a, tuple) and isinstance(b, tuple) and isinstance(op, ast.Add):
            return a + b
        if isinstance(op, ast.Mult) and ((isinstance(a, (ListV, tuple)) and isinstance(b, Int)) or (isinstance(b, (ListV, tuple)) and isinstance(a, Int))):
            s, n = (a, b) if isinstance(b, Int) else (b, a)
            c = pconst(self.norm(n.p))
            if c is not None and c <= 64:
                if isinstance(s, tuple):
                    return s * c
                if s.items is not None:
                    return ListV(items=list(s.items) * c)
            if isinstance(s, ListV):
                segs = self.list_segs(s)
                if len(segs) == 1 and segs[0][2] is None:
                    return ListV(segs=[(segs[0][0], segs[0][1] * n.p, None)])
            raise Undecidable("sequence repetition", node)
        # numbers / arrays
        if isinstance(a, (Int, Scalar, Arr, float)) and isinstance(b, (Int, Scalar, Arr, float)):
            if isinstance(op, ast.MatMult):
                raise Undecidable("matrix product", node)
            return N.elementwise(self, a, b)
        if isinstance(a, (ListV, tuple)) and isinstance(b, Arr) or isinstance(b, (ListV, tuple)) and isinstance(a, Arr):
            return N.elementwise(self, N.as_arr(self, a), N.as_arr(self, b))
        raise Undecidable(f"{type(op).__name__} on {a!r} and {b!r}", node)

    def reprov(self, atoms, node):
        return atoms

    def list_segs(self, l: ListV):
        if l.items is not None:
            return [(x, ONE, None) for x in l.items]
        return list(l.segs)

    def e_Compare(self, e, env):
        left = self.eval(e.left, env)
        res = True
        for op, r in zip(e.ops, e.comparators):
            right = self.eval(r, env)
            v = self.cmp(op, left, right, e)
            if isinstance(v, Arr) or not isinstance(v, bool):
                if len(e.ops) > 1:
                    raise Undecidable("chained comparison of arrays", e)
                return v
            if not v:
                return False
            left = right
        return res

    def cmp(self, op, a, b, node):
        name = type(op).__name__
        if name in ("Is", "IsNot"):
            if a is None or b is None:
                r = (a is None and b is None)
            elif isinstance(a, (bool,)) and isinstance(b, bool):
                r = a is b
            elif isinstance(a, EnumVal) and isinstance(b, EnumVal):
                r = a is b
            else:
                r = a is b
                if not r and type(a) is type(b) and isinstance(a, (Int, str, Str, Scalar)):
                    raise Undecidable("identity comparison of values", node)
            return r if name == "Is" else not r
        if name in ("In", "NotIn"):
            r = self.contains(b, a, node)
            return r if name == "In" else not r
        if isinstance(a, Arr) or isinstance(b, Arr):
            if isinstance(a, (Arr, Int, Scalar, float)) and isinstance(b, (Arr, Int, Scalar, float)):
                s = N.broadcast(self, N.shape_of(self, a), N.shape_of(self, b), "comparison")
                out = Arr(s)
                out.isbool = True
                return out
            raise Undecidable(f"comparison of {a!r} with {b!r}", node)
        if isinstance(a, bool) and isinstance(b, Int):
            a = Int(int(a))
        if isinstance(b, bool) and isinstance(a, Int):
            b = Int(int(b))
        if isinstance(a, Int) and isinstance(b, Int):
            return self.compare(name, a.p, b.p, node)
        if name in ("Eq", "NotEq"):
            r = self.values_equal(a, b)
            if r is None:
                raise Undecidable(f"cannot decide whether {a!r} == {b!r}", node)
            return r if name == "Eq" else not r
        if isinstance(a, str) and isinstance(b, str):
            return {"Lt": a < b, "LtE": a <= b, "Gt": a > b, "GtE": a >= b}[name]
        if isinstance(a, (Scalar, Int, float)) and isinstance(b, (Scalar, Int, float)):
            return self.choose(("opaque", id(node)), "comparison of untracked numbers", node)
        raise Undecidable(f"comparison {name} of {a!r} and {b!r}", node)

    def values_equal(self, a, b):
        """True / False / None"""
        if isinstance(a, EnumVal) or isinstance(b, EnumVal):
            if isinstance(a, EnumVal) and isinstance(b, EnumVal):
                return a is b
            return False if not isinstance(a, (Opaque, Poison)) and not isinstance(b, (Opaque, Poison)) else None
        if a is None or b is None:
            return a is None and b is None
        if isinstance(a, bool) and isinstance(b, bool):
            return a == b
        if isinstance(a, str) and isinstance(b, str):
            return a == b
        if isinstance(a, Int) and isinstance(b, Int):
            return self.same(a.p, b.p)
        if isinstance(a, Key) and isinstance(b, Key):
            return True if a.kid == b.kid else None
        if isinstance(a, tuple) and isinstance(b, tuple):
            if len(a) != len(b):
                return False
            rs = [self.values_equal(x, y) for x, y in zip(a, b)]
            return False if False in rs else None if None in rs else True
        if isinstance(a, (str, Int, bool)) and isinstance(b, (str, Int, bool)) and type(a) is not type(b):
            return False
        if isinstance(a, UserClass) and isinstance(b, UserClass):
            return a is b
        return None

    def contains(self, cont, x, node):
        if isinstance(cont, (tuple, ListV)):
            items = cont if isinstance(cont, tuple) else cont.items
            if items is None:
                raise Undecidable("membership in a list of unknown length", node)
            unknown = False
            for it in items:
                r = self.values_equal(it, x)
                if r is True:
                    return True
                if r is None:
                    unknown = True
            if unknown:
                raise Undecidable(f"cannot decide membership of {x!r}", node)
            return False
        if isinstance(cont, DictView):
            cont = cont.d
        if isinstance(cont, DictV):
            return self.dict_find(cont, x, node) is not None
        if isinstance(cont, str) and isinstance(x, str):
            return x in cont
        if isinstance(cont, UserClass) and cont.kind == "enum":
            return isinstance(x, EnumVal) and x.cls is cont
        raise Undecidable(f"membership test in {cont!r}", node)

    def truth(self, v, node=None):
        if isinstance(v, bool):
            return v
        if v is None:
            return False
        if isinstance(v, Int):
            return self.compare("NotEq", v.p, ZERO, node)
        if isinstance(v, str):
            return bool(v)
        if isinstance(v, Str):
            return True if any(a[0] in ("lit", "tok") for a in v.atoms) else self._undec("truth of text", node)
        if isinstance(v, tuple):
            return bool(v)
        if isinstance(v, ListV):
            return self.compare("NotEq", v.length(), ZERO, node)
        if isinstance(v, DictV):
            return self.compare("NotEq", self.dict_len(v), ZERO, node)
        if isinstance(v, DictView):
            return self.compare("NotEq", self.dict_len(v.d), ZERO, node)
        if isinstance(v, (Instance, NTInst, EnumVal, UserClass, Func, Bound, FileObj)):
            return True
        if isinstance(v, Arr):
            raise Undecidable("truth value of an array", node)
        if isinstance(v, Scalar):
            return self.choose(("opaque", id(node)), "truth of an untracked number", node)
        raise Undecidable(f"truth value of {v!r}", node)

    def _undec(self, msg, node):
        raise Undecidable(msg, node)

    # ------------------------------------------------------------------ comprehensions
    def e_ListComp(self, e, env):
        return self.comprehension(e, env, "list")

    def e_GeneratorExp(self, e, env):
        return self.comprehension(e, env, "list")

    def e_SetComp(self, e, env):
        raise Undecidable("set comprehension", e)

    def e_DictComp(self, e, env):
        return self.comprehension(e, env, "dict")

    def comprehension(self, e, env, kind):
        cenv = Env(env, env.scope)
        out_segs = []       # (value | (key, value), count, kid)
        def rec(gi):
            if gi == len(e.generators):
                if kind == "dict":
                    return [((self.eval(e.key, cenv), self.eval(e.value, cenv)), ONE, None)]
                return [(self.eval(e.elt, cenv), ONE, None)]
            g = e.generators[gi]
            if g.is_async:
                raise Undecidable("async comprehension", e)
            segs = self.segments(self.eval(g.iter, cenv), e, groups=True)

            def proc(segs):
                res = []
                for seg in segs:
                    if seg[0] == "one":
                        self.assign(g.target, seg[1], cenv, e)
                        if all(self.truth(self.eval(c, cenv), c) for c in g.ifs):
                            res.extend(rec(gi + 1))
                        continue
                    if seg[0] == "group":
                        if kind != "list":
                            raise Undecidable("dict comprehension over a list filled by a loop over fields", e)
                        inner = proc(self._segments(ListV(segs=list(seg[1].segs)), e))
                        if inner:
                            res.append((Group(inner), seg[2], seg[3]))
                        continue
                    count, kid = seg[2], (seg[3] if seg[0] == "class" else None)
                    if seg[0] == "seq":
                        idx = self.fresh("j", lo=0, free=True)
                        self.assign(g.target, seg[1](idx), cenv, e)
                    else:
                        self.assign(g.target, seg[1], cenv, e)
                    if not all(self.truth(self.eval(c, cenv), c) for c in g.ifs):
                        continue
                    inner = rec(gi + 1)
                    if len(inner) == 1 and pconst(inner[0][1]) == 1 and inner[0][2] is None and not isinstance(inner[0][0], Group):
                        val = inner[0][0]
                        if seg[0] == "seq" and _mentions(val, idx):
                            raise Undecidable("comprehension element depends on the position", e)
                        res.append((val, count, kid))
                    elif seg[0] == "seq" and all(k is None for (_v, _c, k) in inner) and len(inner) == 1 and kind == "list" \
                            and not isinstance(inner[0][0], Group):
                        # nested generators: `count` rounds of an inner stretch of one kind of element
                        res.append((inner[0][0], count * inner[0][1], None))
                    elif kind == "list" and inner:
                        res.append((Group(inner), count, kid))
                    else:
                        raise Undecidable("nested comprehension over fields", e)
                return res
            return proc(segs)
        segs = rec(0)
        if kind == "dict":
            d = DictV()
            for ((k, v), c, kid) in segs:
                if kid is not None:
                    if not (isinstance(k, Key) and k.kid == kid):
                        raise Undecidable("dict comprehension over fields with a computed key", e)
                elif pconst(c) != 1:
                    raise Undecidable("dict comprehension over a symbolic range", e)
                self.dict_set(d, k, v, e, log=False)
            return d
        if all(pconst(c) == 1 and kid is None and not isinstance(v, Group) for (v, c, kid) in segs):
            return ListV(items=[v for (v, _c, _k) in segs])
        return ListV(segs=segs)

    # ------------------------------------------------------------------ subscripts
    def eval_index(self, sl, env):
        if isinstance(sl, ast.Slice):
            return SliceV(self.eval(sl.lower, env) if sl.lower is not None else None,
                          self.eval(sl.upper, env) if sl.upper is not None else None,
                          self.eval(sl.step, env) if sl.step is not None else None)
        if isinstance(sl, ast.Tuple):
            return tuple(self.eval_index(x, env) for x in sl.elts)
        return self.eval(sl, env)

    def e_Subscript(self, e, env):
        return self.getitem(self.eval(e.value, env), self.eval_index(e.slice, env), e)

    def e_Slice(self, e, env):
        return self.eval_index(e, env)

    def getitem(self, obj, key, node):
        if isinstance(obj, Arr):
            return N.getitem(self, obj, key)
        if isinstance(obj, DictV):
            ent = self.dict_find(obj, key, node)
            if ent is None:
                raise ProgramError(f"KeyError: {key!r}", node)
            return ent[1]
        if isinstance(obj, (tuple, ListV, NTInst, str)):
            if isinstance(obj, NTInst):
                obj = tuple(obj.vals.values())
            if isinstance(obj, ListV) and obj.items is None:
                if isinstance(key, (Int, Scalar)) and len(obj.segs) == 1:
                    return obj.segs[0][0]
                if all(pconst(self.norm(c)) is not None and k is None for (_e, c, k) in obj.segs):
                    obj = ListV(items=[e for (e, c, _k) in obj.segs for _ in range(pconst(self.norm(c)))])
                else:
                    raise Undecidable("index into a list of unknown length", node)
            items = obj.items if isinstance(obj, ListV) else obj
            if isinstance(key, SliceV):
                lo, hi, st = (None if x is None else const_of(x) for x in (key.lo, key.hi, key.step))
                if any(x is not None and const_of(x) is None for x in (key.lo, key.hi, key.step)):
                    raise Undecidable("symbolic slice of a sequence", node)
                r = items[slice(lo, hi, st)]
                return ListV(items=list(r)) if isinstance(obj, ListV) else r
            k = const_of(key)
            if k is None:
                raise Undecidable(f"symbolic index into a sequence: {key!r}", node)
            if not -len(items) <= k < len(items):
                raise ProgramError("sequence index out of range", node)
            return items[k]
        if isinstance(obj, UserClass) and obj.kind == "enum" and isinstance(key, str):
            if key in obj.members:
                return obj.members[key]
            raise ProgramError(f"KeyError: {key!r}", node)
        if isinstance(obj, Builtin) and obj.name in ("np.c_", "np.r_"):
            parts = key if isinstance(key, tuple) else (key,)
            if any(isinstance(x, (SliceV, str)) for x in parts):
                raise Undecidable("np.c_ / np.r_ with a slice or directive", node)
            if obj.name == "np.c_":
                return N.np_column_stack(self, parts)
            return N.concat(self, [N.atleast(self, x, 1) for x in parts], 0, "r_")
        if isinstance(obj, Opaque):
            return Opaque(f"{obj.desc}[...]")
        raise Undecidable(f"subscript of {obj!r}", node)

    def setitem(self, obj, key, v, node):
        if isinstance(obj, Arr):
            self.mutate("arr", obj, "entries assigned", node)
            N.getitem(self, obj, key) if not _has_slice_bounds(key) else None       # index validity; bounded slices are not length-checked
            obj.fill = None
            if hasattr(obj, "cols"):
                del obj.cols
            return
        if isinstance(obj, DictV):
            self.dict_set(obj, key, v, node)
            return
        if isinstance(obj, ListV):
            self.mutate("list", obj, "entry assigned", node)
            k = const_of(key) if isinstance(key, Int) else None
            if obj.items is not None and k is not None and -len(obj.items) <= k < len(obj.items):
                obj.items[k] = v
                return
            if obj.items is None and obj.segs and all(not isinstance(e, Group) and self.look_same(e, v) for (e, _c, _k) in obj.segs):
                return          # an entry of a list of look-alike entries is replaced by another look-alike
            raise Undecidable("store into a list at a symbolic position", node)
        raise Undecidable(f"item store on {obj!r}", node)

    # ------------------------------------------------------------------ dictionaries
    def dict_find(self, d: DictV, key, node):
        if isinstance(key, (ListV, DictV, Arr)):
            raise ProgramError("unhashable dictionary key", node)
        unknown = False
        if isinstance(key, Key):
            for ent in d.entries:
                k = ent[0]
                if isinstance(k, Key) and k.kid == key.kid:
                    return ent
            return None
        for ent in d.entries:
            r = self.key_equal(ent[0], key)
            if r is True:
                return ent
            if r is None:
                unknown = True
        if unknown:
            raise Undecidable(f"cannot decide whether the key {key!r} is present", node)
        return None

    def key_equal(self, a, b):
        if isinstance(a, Key) or isinstance(b, Key):
            if isinstance(a, Key) and isinstance(b, Key):
                return a.kid == b.kid
            return False        # a symbolic field name is assumed different from every literal key (stated as an assumption)
        return self.values_equal(a, b)

    def dict_set(self, d: DictV, key, v, node, log=True):
        if isinstance(key, (Str, Scalar, Opaque)) or (isinstance(key, Int) and const_of(key) is None):
            raise Undecidable(f"dictionary key {key!r} is not tracked", node)
        if log:
            self.mutate("dict", d, key, node)
        ent = self.dict_find(d, key, node)
        if ent is not None:
            ent[1] = v
        else:
            d.entries.append([key, v])

    def dict_pop(self, d, key, node):
        ent = self.dict_find(d, key, node)
        if ent is None:
            raise ProgramError(f"KeyError: {key!r}", node)
        self.mutate("dict", d, ("del", key), node)
        d.entries.remove(ent)
        return ent[1]

    def dict_len(self, d: DictV):
        n = ZERO
        for k, _v in d.entries:
            n = n + (self.key_mult[k.kid] if isinstance(k, Key) else ONE)
        return n

    # ------------------------------------------------------------------ attributes
    def getattr_(self, v, name, node):
        if name == "__class__" and isinstance(v, (Instance, NTInst, EnumVal)):
            return v.cls
        if isinstance(v, Instance):
            if name in v.attrs:
                r = v.attrs[name]
                if isinstance(r, Poison):
                    raise Undecidable(r.why, node)
                return r
            r = v.cls.lookup(name)
            if r is MISSING:
                raise ProgramError(f"'{v.cls.name}' object has no attribute '{name}'", node) if not getattr(v.cls, "open_world", False) \
                    else Undecidable(f"attribute {name} of the {v.cls.name} object is not modelled", node)
            return self.bind_attr(r, v, node)
        if isinstance(v, NTInst):
            if name in v.vals:
                return v.vals[name]
            if name in ("_replace", "_asdict", "index", "count"):
                return Method(v, name)
            if name == "_fields":
                return tuple(v.vals)
            r = v.cls.lookup(name)
            if r is MISSING:
                raise ProgramError(f"'{v.cls.name}' object has no attribute '{name}'", node)
            return self.bind_attr(r, v, node)
        if isinstance(v, UserClass):
            if v.kind == "enum" and name in v.members:
                return v.members[name]
            if v.kind == "namedtuple" and name == "_fields":
                return tuple(f for f, _d in v.fields)
            if v.kind == "namedtuple" and name == "_make":
                return Method(v, "_make")
            r = v.lookup(name)
            if r is MISSING:
                raise ProgramError(f"class {v.name} has no attribute '{name}'", node)
            if isinstance(r, Func) and r.kind == "classmethod":
                return Bound(r, v)
            return r
        if isinstance(v, EnumVal):
            if name == "name":
                return v.name
            if name == "value":
                return v.value
            r = v.cls.lookup(name)
            if r is not MISSING:
                return self.bind_attr(r, v, node)
            raise ProgramError(f"enum member has no attribute '{name}'", node)
        if isinstance(v, Arr):
            if name == "shape":
                return tuple(Int(d) for d in v.shape)
            if name == "size":
                return Int(N.prod(v.shape))
            if name == "ndim":
                return Int(len(v.shape))
            if name == "dtype":
                return Opaque("dtype")
            if name == "T":
                return Arr(tuple(reversed(v.shape)), base=v)
            if name in ("real", "imag"):
                return Arr(v.shape, base=v)
            return Method(v, name)
        if isinstance(v, (Int, Scalar)):
            if name in ("real",):
                return v
            if name in ("shape",):
                return ()
            if name in ("ndim", "size"):
                return Int(0 if name == "ndim" else 1)
            if name == "dtype":
                return Opaque("dtype")
            return Method(v, name)
        if isinstance(v, (ListV, DictV, DictView, str, Str, FileObj, tuple, Key)):
            if isinstance(v, FileObj) and name == "closed":
                return v.closed
            return Method(v, name)
        if isinstance(v, ModuleV):
            if v.name == "numpy":
                return self.np_attr(name)
            sub = self.lib_module(v.name + "." + name)      # `import optimism._helpers` ... `optimism._helpers.f(..)`
            if sub is not None:
                return sub
            return self.imported(v.name, name)
        if isinstance(v, LibModule):
            r = v.env.vars.get(name, MISSING)
            if r is MISSING:
                sub = self.lib_module(v.name + "." + name)
                if sub is not None:
                    return sub
                raise Undecidable(f"attribute {name} of the module {v.name} is not found by the analysis", node)
            if isinstance(r, Poison):
                raise Undecidable(r.why, node)
            return r
        if isinstance(v, Builtin):
            if v.name == "chain" and name == "from_iterable":
                return Builtin("chain.from_iterable")
            if v.name == "np.linalg":
                return Opaque(f"np.linalg.{name}")
            return Opaque(f"{v.name}.{name}")
        if isinstance(v, Func):
            if name == "__name__":
                return v.name
            raise Undecidable(f"attribute {name} of a function", node)
        if isinstance(v, Opaque):
            return Opaque(f"{v.desc}.{name}")
        if isinstance(v, Partial):
            if name == "func":
                return v.fn
        raise Undecidable(f"attribute {name} of {v!r}", node)

    def bind_attr(self, r, obj, node):
        if isinstance(r, Func):
            if r.kind == "property":
                return self.call_func(r, [obj], {}, node)
            if r.kind == "staticmethod":
                return r
            if r.kind == "classmethod":
                return Bound(r, obj.cls)
            return Bound(r, obj)
        return r

    # ------------------------------------------------------------------ calls
    def e_Call(self, e, env):
        fv = self.eval(e.func, env)
        args = self.eval_items(e.args, env)
        kwargs = {}
        for k in e.keywords:
            if k.arg is None:
                d = self.eval(k.value, env)
                if not isinstance(d, DictV) or not all(isinstance(kk, str) for kk, _v in d.entries):
                    raise Undecidable("** of a non-literal dict", e)
                kwargs.update({kk: vv for kk, vv in d.entries})
            else:
                kwargs[k.arg] = self.eval(k.value, env)
        return self.call(fv, args, kwargs, e)

    def call(self, fv, args, kwargs, node):
        if isinstance(fv, Func):
            return self.call_func(fv, args, kwargs, node)
        if isinstance(fv, Bound):
            return self.call_func(fv.func, [fv.obj] + list(args), kwargs, node)
        if isinstance(fv, UserClass):
            return self.instantiate(fv, args, kwargs, node)
        if isinstance(fv, Method):
            return self.call_method(fv.recv, fv.name, args, kwargs, node)
        if isinstance(fv, Partial):
            kw = dict(fv.kwargs)
            kw.update(kwargs)
            return self.call(fv.fn, list(fv.args) + list(args), kw, node)
        if isinstance(fv, Builtin):
            if fv.name.startswith("np."):
                return self.call_np(fv.name[3:], args, kwargs, node)
            return self.call_builtin(fv.name, args, kwargs, node)
        if isinstance(fv, Opaque):
            if all(isinstance(a, (str, Int, Scalar, Opaque, bool, type(None), EnumVal)) for a in list(args) + list(kwargs.values())):
                return Opaque(f"{fv.desc}(..)")         # cannot touch the state; whoever looks at the result is undecided
            raise Undecidable(f"call of {fv.desc}, which is not modelled", node)
        raise Undecidable(f"call of {fv!r}", node)

    # ------------------------------------------------------------------ builtins
    def call_builtin(self, name, args, kwargs, node):
        a0 = args[0] if args else None
        if name == "len":
            if isinstance(a0, Arr):
                if not a0.shape:
                    raise ProgramError("len() of a 0-d array", node)
                return Int(a0.shape[0])
            if isinstance(a0, ListV):
                return Int(a0.length())
            if isinstance(a0, tuple):
                return Int(len(a0))
            if isinstance(a0, DictV):
                return Int(self.dict_len(a0))
            if isinstance(a0, DictView):
                return Int(self.dict_len(a0.d))
            if isinstance(a0, str):
                return Int(len(a0))
            if isinstance(a0, NTInst):
                return Int(len(a0.vals))
            if isinstance(a0, RangeV):
                return Int(a0.stop.p - a0.start.p)
            raise Undecidable(f"len of {a0!r}", node)
        if name == "range":
            if not all(isinstance(x, Int) for x in args):
                raise Undecidable("range of non-integers", node)
            if len(args) == 1:
                return RangeV(Int(0), a0)
            if len(args) == 2:
                return RangeV(args[0], args[1])
            raise Undecidable("stepped range", node)
        if name in ("str", "repr", "format"):
            if not args:
                return ""
            if name == "format" and len(args) == 2:
                return self.mk_str(T.format_value(a0, args[1] if isinstance(args[1], str) else "", self.prov(node)))
            return self.mk_str(T.text_of(a0, self.prov(node)))
        if name == "int":
            if isinstance(a0, Int):
                return a0
            if isinstance(a0, (Scalar, float)) or (isinstance(a0, Arr) and not a0.shape):
                return Scalar("int")
            if isinstance(a0, bool):
                return Int(int(a0))
            raise Undecidable(f"int({a0!r})", node)
        if name == "float":
            return Scalar("float")
        if name == "bool":
            return self.truth(a0, node) if args else False
        if name == "abs":
            return a0 if isinstance(a0, Scalar) else N.elementwise(self, a0)
        if name in ("list", "tuple", "sorted", "reversed", "set", "iter"):
            if not args:
                return ListV(items=[]) if name != "tuple" else ()
            if name in ("sorted", "reversed", "set") and not isinstance(a0, (tuple, ListV)):
                raise Undecidable(f"{name}() of {a0!r}", node)
            if isinstance(a0, ListV) and a0.items is None and name in ("list", "iter"):
                return ListV(segs=list(a0.segs))
            segs = self.segments(a0, node)
            if all(s[0] == "one" for s in segs):
                items = [s[1] for s in segs]
                if name in ("sorted", "set") and len(items) > 1:
                    raise Undecidable(f"{name}() of values", node)
                if name == "reversed":
                    items = items[::-1]
                return tuple(items) if name == "tuple" else ListV(items=items)
            if name in ("sorted", "reversed", "set"):
                raise Undecidable(f"{name}() of a sequence of unknown length", node)
            out = []
            for s in segs:
                if s[0] == "one":
                    out.append((s[1], ONE, None))
                elif s[0] == "seq":
                    idx = self.fresh("j", 0, True)
                    val = s[1](idx)
                    if _mentions(val, idx):
                        raise Undecidable("list of position-dependent values", node)
                    out.append((val, s[2], None))
                else:
                    out.append((s[1], s[2], s[3]))
            return ListV(segs=out)
        if name == "dict":
            d = DictV()
            if args:
                src = a0
                if isinstance(src, DictV):
                    for k, v in src.entries:
                        d.entries.append([k, v])
                elif isinstance(src, (tuple, ListV)) and (isinstance(src, tuple) or src.items is not None):
                    for it in (src if isinstance(src, tuple) else src.items):
                        k, v = self.unpack(it, 2, node)
                        self.dict_set(d, k, v, node, log=False)
                elif isinstance(src, ListV):
                    for (e, c, kid) in src.segs:
                        k, v = self.unpack(e, 2, node)
                        if kid is None or not (isinstance(k, Key) and k.kid == kid):
                            raise Undecidable("dict() of a sequence of unknown length", node)
                        self.dict_set(d, k, v, node, log=False)
                else:
                    raise Undecidable(f"dict({src!r})", node)
            for k, v in kwargs.items():
                self.dict_set(d, k, v, node, log=False)
            return d
        if name == "enumerate":
            segs = self.segments(a0, node)
            if all(s[0] == "one" for s in segs):
                start = const_of(args[1]) if len(args) > 1 else const_of(kwargs.get("start", Int(0)))
                return ListV(items=[(Int(start + k), s[1]) for k, s in enumerate(segs)])
            out = []
            for s in segs:
                if s[0] == "class":
                    out.append(((Scalar("int"), s[1]), s[2], s[3]))
                elif s[0] == "seq":
                    idx = self.fresh("j", 0, True)
                    val = s[1](idx)
                    if _mentions(val, idx):
                        raise Undecidable("enumerate of position-dependent values", node)
                    out.append(((Scalar("int"), val), s[2], None))
                else:
                    out.append(((Scalar("int"), s[1]), ONE, None))
            return ListV(segs=out)
        if name == "zip":
            seqs = [self.segments(x, node) for x in args]
            if all(all(s[0] == "one" for s in sg) for sg in seqs):
                n = min(len(sg) for sg in seqs) if seqs else 0
                return ListV(items=[tuple(sg[k][1] for sg in seqs) for k in range(n)])
            if all(len(sg) == 1 and sg[0][0] == "seq" for sg in seqs):
                cnt = seqs[0][0][2]
                if all(self.same(sg[0][2], cnt) is True for sg in seqs):
                    idx = self.fresh("j", 0, True)
                    val = tuple(sg[0][1](idx) for sg in seqs)
                    if _mentions(val, idx):
                        raise Undecidable("zip of position-dependent values", node)
                    return ListV(segs=[(val, cnt, None)])
            raise Undecidable("zip of sequences of unknown / different lengths", node)
        if name == "map":
            fn = a0
            if len(args) != 2:
                raise Undecidable("map over several sequences", node)
            segs = self.segments(args[1], node)
            out = []
            for s in segs:
                if s[0] == "one":
                    out.append((self.call(fn, [s[1]], {}, node), ONE, None))
                elif s[0] == "seq":
                    idx = self.fresh("j", 0, True)
                    val = self.call(fn, [s[1](idx)], {}, node)
                    if _mentions(val, idx):
                        raise Undecidable("map result depends on the position", node)
                    out.append((val, s[2], None))
                else:
                    out.append((self.call(fn, [s[1]], {}, node), s[2], s[3]))
            if all(pconst(c) == 1 and k is None for (_v, c, k) in out):
                return ListV(items=[v for (v, _c, _k) in out])
            return ListV(segs=out)
        if name in ("chain", "chain.from_iterable"):
            its = args if name == "chain" else self.concrete_items(a0, node)
            segs = []
            for x in its:
                l = x if isinstance(x, ListV) else self.call_builtin("list", [x], {}, node)
                segs.extend(self.list_segs(l))
            if all(pconst(c) == 1 and k is None and not isinstance(e, Group) for (e, c, k) in segs):
                return ListV(items=[e for (e, _c, _k) in segs])
            return ListV(segs=segs)
        if name == "dataclasses.replace":
            if isinstance(a0, NTInst):
                return self.call_method(a0, "_replace", [], kwargs, node)
            if isinstance(a0, Instance) and a0.cls.kind == "dataclass":
                vals = {f: a0.attrs[f] for f, _d in a0.cls.fields}
                for k, v in kwargs.items():
                    if k not in vals:
                        raise ProgramError(f"replace() got an unexpected field name {k}", node)
                    vals[k] = v
                return self.instantiate(a0.cls, [], vals, node)
            raise Undecidable("dataclasses.replace of a non-dataclass", node)
        if name in ("copy.copy", "copy.deepcopy"):
            return self.copy_value(a0, name == "copy.deepcopy", node)
        if name == "io.StringIO":
            if args and args[0] not in ("", None):
                raise Undecidable("StringIO with initial text", node)
            f = FileObj()
            f.kind = "buffer"
            self.files.append(f)
            return f
        if name == "open":
            f = FileObj()
            f.kind = "file"
            f.name = a0
            f.mode = args[1] if len(args) > 1 else kwargs.get("mode", "r")
            self.files.append(f)
            return f
        if name == "print":
            f = kwargs.get("file")
            sep = kwargs.get("sep", " ")
            end = kwargs.get("end", "\n")
            if f is None:
                return None
            atoms = []
            for k, x in enumerate(args):
                if k:
                    atoms.extend(T.text_of(sep))
                atoms.extend(T.text_of(x, self.prov(node)))
            atoms.extend(T.text_of(end, self.prov(node)))
            self.file_write(f, atoms, node)
            return None
        if name == "isinstance":
            return self.isinstance_(a0, args[1], node)
        if name in ("min", "max"):
            vals = args if len(args) > 1 else self.concrete_items(a0, node)
            if all(isinstance(x, Int) for x in vals):
                best = vals[0]
                for x in vals[1:]:
                    if self.compare("Lt" if name == "min" else "Gt", x.p, best.p, node):
                        best = x
                return best
            return Scalar("num")
        if name == "sum":
            if isinstance(a0, (tuple, ListV)) and (isinstance(a0, tuple) or a0.items is not None):
                items = a0 if isinstance(a0, tuple) else a0.items
                if all(isinstance(x, Int) for x in items):
                    p = ZERO
                    for x in items:
                        p = p + x.p
                    return Int(p)
            if isinstance(a0, ListV) and a0.items is None and all(isinstance(e, Int) for (e, _c, _k) in a0.segs):
                p = ZERO
                for (e, c, _k) in a0.segs:
                    p = p + e.p * c
                return Int(p)
            return Scalar("num")
        if name in ("any", "all"):
            items = self.concrete_items(a0, node)
            ts = [self.truth(x, node) for x in items]
            return any(ts) if name == "any" else all(ts)
        if name == "warnings.warn":
            return None
        if name == "namedtuple":
            fields = args[1] if len(args) > 1 else kwargs.get("field_names")
            if isinstance(fields, str):
                names = fields.replace(",", " ").split()
            else:
                names = [x for x in self.concrete_items(fields, node)]
                if not all(isinstance(x, str) for x in names):
                    raise Undecidable("namedtuple field names", node)
            cls = UserClass(a0 if isinstance(a0, str) else "namedtuple", node, "namedtuple")
            cls.fields = [(n, NODEFAULT) for n in names]
            dfl = kwargs.get("defaults")
            if dfl is not None:
                dv = self.concrete_items(dfl, node)
                for k, d in enumerate(dv):
                    i = len(names) - len(dv) + k
                    cls.fields[i] = (names[i], d)
            return cls
        if name == "partial":
            return Partial(a0, args[1:], kwargs)
        if name == "getattr":
            if isinstance(args[1], str):
                try:
                    return self.getattr_(a0, args[1], node)
                except ProgramError:
                    if len(args) > 2:
                        return args[2]
                    raise
            raise Undecidable("getattr with a computed name", node)
        if name == "hasattr":
            if isinstance(args[1], str):
                try:
                    self.getattr_(a0, args[1], node)
                    return True
                except ProgramError:
                    return False
            raise Undecidable("hasattr with a computed name", node)
        if name == "type":
            if isinstance(a0, (Instance, NTInst)):
                return a0.cls
            if isinstance(a0, EnumVal):
                return a0.cls
            raise Undecidable("type()", node)
        if name == "round":
            return a0 if isinstance(a0, Int) else Scalar("num")
        if name == "next":
            raise Undecidable("next()", node)
        if name in ("auto",):
            raise Undecidable("auto() outside an enum body", node)
        raise Undecidable(f"builtin {name}", node)

    def copy_value(self, v, deep, node, memo=None):
        memo = {} if memo is None else memo
        if id(v) in memo:
            return memo[id(v)]
        sub = (lambda x: self.copy_value(x, True, node, memo)) if deep else (lambda x: x)
        if isinstance(v, DictV):
            r = memo[id(v)] = DictV()
            r.entries = [[k, sub(x)] for k, x in v.entries]
            return r
        if isinstance(v, ListV):
            r = memo[id(v)] = ListV(items=[], segs=None)
            if v.items is not None:
                r.items = [sub(x) for x in v.items]
            else:
                r.items, r.segs = None, [(sub(e) if not isinstance(e, Group) else e, c, k) for (e, c, k) in v.segs]
            return r
        if isinstance(v, Arr):
            r = memo[id(v)] = Arr(v.shape, fill=v.fill)
            return r
        if isinstance(v, Instance):
            if not deep and v.cls.lookup("__copy__") is not MISSING or deep and v.cls.lookup("__deepcopy__") is not MISSING:
                raise Undecidable("copy of an object with its own copy protocol", node)
            r = memo[id(v)] = Instance(v.cls)
            r.attrs = {k: sub(x) for k, x in v.attrs.items()}
            return r
        if isinstance(v, NTInst):
            return NTInst(v.cls, {k: sub(x) for k, x in v.vals.items()}) if deep else v
        if isinstance(v, tuple):
            return tuple(sub(x) for x in v) if deep else v
        if isinstance(v, (Int, Scalar, str, Str, bool, type(None), EnumVal, Key, float)):
            return v
        raise Undecidable(f"copy of {v!r}", node)

    def isinstance_(self, v, t, node):
        ts = t if isinstance(t, tuple) else (t,)
        res = False
        for x in ts:
            if isinstance(x, UserClass):
                cls = v.cls if isinstance(v, (Instance, NTInst, EnumVal)) else None
                ok = cls is not None and (cls is x or x in _all_bases(cls))
            elif isinstance(x, Builtin):
                nm = x.name
                ok = {"list": isinstance(v, ListV), "tuple": isinstance(v, (tuple, NTInst)), "dict": isinstance(v, DictV),
                      "str": isinstance(v, (str, Str, Key)), "int": isinstance(v, Int) and not isinstance(v, bool), "float": isinstance(v, Scalar) and v.kind == "float",
                      "bool": isinstance(v, bool), "np.ndarray": isinstance(v, Arr), "partial": isinstance(v, Partial)}.get(nm)
                if ok is None or (nm in ("int", "float") and isinstance(v, Scalar) and v.kind == "num"):
                    raise Undecidable(f"isinstance(.., {nm})", node)
            else:
                raise Undecidable(f"isinstance with {x!r}", node)
            res = res or ok
        return res

    # ------------------------------------------------------------------ files
    def file_write(self, f, atoms, node):
        if not isinstance(f, FileObj):
            raise Undecidable(f"write to {f!r}", node)
        if f.closed:
            raise ProgramError("write to a closed file", node)
        prov = self.prov(node)
        atoms = tuple(_with_prov(a, prov) for a in atoms)
        f.out.append(("str", atoms, prov))

    # ------------------------------------------------------------------ methods of abstract values
    def call_method(self, recv, name, args, kwargs, node):
        a0 = args[0] if args else None
        if isinstance(recv, FileObj):
            if name == "write":
                if not isinstance(a0, (str, Str, Key)):
                    raise ProgramError(f"file.write() of a non-string ({a0!r})", node)
                self.file_write(recv, T.text_of(a0, self.prov(node), "file.write()"), node)
                return Scalar("int")
            if name == "writelines":
                # writelines(seq) writes ''.join(seq)
                text = self.str_method("", "join", [a0], {}, node)
                self.file_write(recv, T.text_of(text, self.prov(node)), node)
                return None
            if name == "close":
                recv.closed = True
                return None
            if name in ("flush", "__enter__"):
                return recv if name == "__enter__" else None
            if name == "getvalue" and getattr(recv, "kind", "") == "buffer":
                return self.mk_str(tuple(T.out_atoms(recv.out)))
            raise Undecidable(f"file method {name}", node)
        if isinstance(recv, (str, Str, Key)):
            return self.str_method(recv, name, args, kwargs, node)
        if isinstance(recv, ListV):
            return self.list_method(recv, name, args, kwargs, node)
        if isinstance(recv, (DictV, DictView)):
            return self.dict_method(recv, name, args, kwargs, node)
        if isinstance(recv, Arr):
            return self.arr_method(recv, name, args, kwargs, node)
        if isinstance(recv, NTInst):
            if name == "_replace":
                vals = dict(recv.vals)
                for k, v in kwargs.items():
                    if k not in vals:
                        raise ProgramError(f"_replace() got an unexpected field name {k}", node)
                    vals[k] = v
                return NTInst(recv.cls, vals)
            if name == "_asdict":
                return DictV([[k, v] for k, v in recv.vals.items()])
            raise Undecidable(f"tuple method {name}", node)
        if isinstance(recv, UserClass) and name == "_make":
            return self.instantiate(recv, self.concrete_items(a0, node), {}, node)
        if isinstance(recv, tuple):
            if name in ("index", "count"):
                raise Undecidable(f"tuple.{name}", node)
        if isinstance(recv, (Int, Scalar)):
            if name in ("item", "copy", "astype", "real", "conjugate"):
                return recv
            if name == "reshape":
                return N.np_reshape(self, recv, args[0] if len(args) == 1 and isinstance(args[0], (tuple, ListV)) else tuple(args))
        raise Undecidable(f"method {name} of {recv!r}", node)

    def str_method(self, s, name, args, kwargs, node):
        if name == "format":
            if not isinstance(s, str):
                raise Undecidable("format() on computed text", node)
            return self.mk_str(T.format_str(s, args, kwargs, self.prov(node)).atoms)
        if name == "join":
            sep = T.text_of(s, self.prov(node))
            it = args[0]
            if isinstance(it, ListV) and it.items is None:
                segs = it.segs
            else:
                segs = []
                for sg in self.segments(it, node):
                    if sg[0] == "one":
                        segs.append((sg[1], ONE, None))
                    elif sg[0] == "seq":
                        idx = self.fresh("j", 0, True)
                        val = sg[1](idx)
                        if _mentions(val, idx):
                            raise Undecidable("joined text depends on the position", node)
                        segs.append((val, sg[2], None))
                    else:
                        segs.append((sg[1], sg[2], sg[3]))
            atoms, _empty = self.join_tree(sep, segs, node)
            return self.mk_str(atoms)
        if isinstance(s, str):
            if name in ("strip", "lstrip", "rstrip", "upper", "lower", "title", "capitalize", "startswith", "endswith", "replace", "split",
                        "rjust", "ljust", "center", "zfill", "isdigit", "encode", "splitlines", "count", "find"):
                cargs = []
                for a in args:
                    if isinstance(a, str):
                        cargs.append(a)
                    elif const_of(a) is not None:
                        cargs.append(const_of(a))
                    elif isinstance(a, tuple) and all(isinstance(x, str) for x in a):
                        cargs.append(a)
                    else:
                        raise Undecidable(f"str.{name} with a symbolic argument", node)
                r = getattr(s, name)(*cargs)
                if isinstance(r, bool) or isinstance(r, str):
                    return r
                if isinstance(r, int):
                    return Int(r)
                if isinstance(r, list):
                    return ListV(items=list(r))
                raise Undecidable(f"str.{name}", node)
        if name in ("rstrip", "strip", "lstrip") and not args:
            raise Undecidable(f"{name}() of computed text", node)
        raise Undecidable(f"text method {name} on {s!r}", node)

    def join_tree(self, sep, segs, node):
        """atoms of sep.join(<the list described by segs>) and whether it may be the empty string.  Exact: a possibly empty stretch that
        follows a surely present item is written as (sep item)^count."""
        parts = []          # (atoms of one item, count or None, surely present)
        for (e, c, _kid) in segs:
            sg = self.sign(c)
            if sg == "zero" or sg in ("neg", "nonpos"):
                continue
            if sg not in ("pos", "nonneg"):
                raise Undecidable("join() of a stretch of undecided length", node)
            if isinstance(e, Group):
                inner, inner_empty = self.join_tree(sep, e.segs, node)
                if inner_empty:
                    raise Undecidable("join() over a repeated group that may be empty", node)
                item = inner
            else:
                if not isinstance(e, (str, Str, Key)):
                    raise ProgramError("join() of a non-string item", node)
                item = T.text_of(e, self.prov(node))
            parts.append((tuple(item), None if pconst(self.norm(c)) == 1 else self.norm(c), sg == "pos"))
        if not parts:
            return (), True
        out = []
        started = False
        for k, (item, c, sure) in enumerate(parts):
            if not started:
                if not sure:
                    if len(parts) == 1:
                        return tuple(T.join_counted(sep, item, c).atoms), True
                    raise Undecidable("join() of a list that starts with a possibly empty stretch", node)
                out.extend(item if c is None else T.join_counted(sep, item, c).atoms)
                started = True
            elif c is None:
                out.extend(tuple(sep) + item)
            else:
                out.append(("join", (), tuple(sep) + item, c))
        return tuple(out), False

    def list_method(self, l: ListV, name, args, kwargs, node):
        a0 = args[0] if args else None
        if name == "append":
            captured = self.note_list_growth(l)
            self.mutate("list", l, "append", node)
            if l.items is not None:
                l.items.append(a0)
            else:
                l.segs = l.segs + [(a0, ONE, None)]
                if not captured:
                    self.compress(l)
            return None
        if name == "extend":
            captured = self.note_list_growth(l)
            self.mutate("list", l, "extend", node)
            other = a0 if isinstance(a0, ListV) else ListV(items=self.concrete_items(a0, node))
            if l.items is not None and other.items is not None:
                l.items.extend(other.items)
            else:
                l.segs = self.list_segs(l) + self.list_segs(other)
                l.items = None
                if not captured:
                    self.compress(l)
            return None
        if name == "copy":
            return ListV(items=list(l.items)) if l.items is not None else ListV(segs=list(l.segs))
        if name in ("insert", "pop", "clear", "remove", "sort", "reverse"):
            self.mutate("list", l, name, node)
            if name == "clear":
                l.items, l.segs = [], None
                return None
            if l.items is not None and name == "pop" and (not args or const_of(a0) is not None):
                return l.items.pop(*([const_of(a0)] if args else []))
            if l.items is not None and name == "insert" and const_of(a0) is not None:
                l.items.insert(const_of(a0), args[1])
                return None
            if name in ("sort", "reverse") and (l.items is None and len(l.segs) <= 1 or l.items is not None and len(l.items) <= 1):
                return None
            raise Undecidable(f"list.{name}", node)
        if name in ("index", "count"):
            raise Undecidable(f"list.{name}", node)
        raise Undecidable(f"list method {name}", node)

    def compress(self, l: ListV):
        """merge neighbouring segments whose elements look the same (so that appending in a loop settles)"""
        out = []
        for (e, c, kid) in l.segs:
            if out and kid is None and out[-1][2] is None and self.look_same(out[-1][0], e):
                out[-1] = (out[-1][0], out[-1][1] + c, None)
            else:
                out.append((e, c, kid))
        l.segs = out

    def look_same(self, a, b):
        if type(a) is not type(b):
            return False
        if isinstance(a, Int):
            return self.same(a.p, b.p) is True
        if isinstance(a, Scalar):
            return True
        if isinstance(a, Arr):
            return len(a.shape) == len(b.shape) and all(self.same(x, y) is True for x, y in zip(a.shape, b.shape))
        if isinstance(a, tuple):
            return len(a) == len(b) and all(self.look_same(x, y) for x, y in zip(a, b))
        if isinstance(a, str):
            return a == b
        if isinstance(a, Str):
            return T.freeze_atoms(a.atoms, self.norm) == T.freeze_atoms(b.atoms, self.norm)
        if isinstance(a, NTInst):
            return a.cls is b.cls and all(self.look_same(a.vals[k], b.vals[k]) for k in a.vals)
        return a is b

    def dict_method(self, d, name, args, kwargs, node):
        if isinstance(d, DictView):
            raise Undecidable(f"method {name} of a dict view", node)
        a0 = args[0] if args else None
        if name in ("keys", "values", "items"):
            return DictView(d, name)
        if name == "get":
            ent = self.dict_find(d, a0, node)
            return ent[1] if ent is not None else (args[1] if len(args) > 1 else kwargs.get("default"))
        if name == "copy":
            return DictV([[k, v] for k, v in d.entries])
        if name == "update":
            src = a0
            if src is not None:
                if not isinstance(src, DictV):
                    raise Undecidable("dict.update with a non-dict", node)
                for k, v in list(src.entries):
                    self.dict_set(d, k, v, node)
            for k, v in kwargs.items():
                self.dict_set(d, k, v, node)
            return None
        if name == "pop":
            ent = self.dict_find(d, a0, node)
            if ent is None:
                if len(args) > 1:
                    return args[1]
                raise ProgramError(f"KeyError: {a0!r}", node)
            return self.dict_pop(d, a0, node)
        if name == "setdefault":
            ent = self.dict_find(d, a0, node)
            if ent is not None:
                return ent[1]
            self.dict_set(d, a0, args[1] if len(args) > 1 else None, node)
            return args[1] if len(args) > 1 else None
        if name == "clear":
            self.mutate("dict", d, "clear", node)
            d.entries = []
            return None
        raise Undecidable(f"dict method {name}", node)

    def arr_method(self, a: Arr, name, args, kwargs, node):
        if name == "reshape":
            shape = args[0] if len(args) == 1 and isinstance(args[0], (tuple, ListV)) else tuple(args)
            return N.np_reshape(self, a, shape)
        if name in ("copy", "astype", "round", "conj", "conjugate", "clip"):
            return Arr(a.shape, fill=a.fill)
        if name in ("ravel", "flatten"):
            return Arr((N.prod(a.shape),), base=a if name == "ravel" else None, fill=a.fill)
        if name in ("transpose",):
            if args:
                raise Undecidable("transpose with axes", node)
            return Arr(tuple(reversed(a.shape)), base=a)
        if name == "squeeze":
            return Arr(tuple(d for d in a.shape if pconst(self.norm(d)) != 1), base=a, fill=a.fill)
        if name == "tolist":
            def build(shape):
                if not shape:
                    return a.fill if a.fill is not None else Scalar("num")
                return ListV(segs=[(build(shape[1:]), shape[0], None)])
            return build(a.shape)
        if name in ("sum", "min", "max", "mean", "prod", "any", "all", "std"):
            axis = kwargs.get("axis", args[0] if args else None)
            if axis is None:
                return Scalar("num")
            ax = const_of(axis)
            if ax is None:
                raise Undecidable("reduction over a symbolic axis", node)
            s = list(a.shape)
            del s[ax]
            return Arr(s) if s else Scalar("num")
        if name == "item":
            return a.fill if a.fill is not None else Scalar("num")
        if name in ("fill", "sort", "resize", "put", "itemset", "partition"):
            self.mutate("arr", a, name, node)
            if name in ("fill", "sort"):
                a.fill = None
                return None
            raise Undecidable(f"in-place array method {name}", node)
        if name == "at":
            raise Undecidable("jax .at[] update", node)
        raise Undecidable(f"array method {name}", node)

    # ------------------------------------------------------------------ numpy
    def call_np(self, name, args, kwargs, node):
        a0 = args[0] if args else None
        if name in ("array", "asanyarray", "ascontiguousarray", "copy"):
            return N.as_arr(self, a0, copy=True)
        if name == "asarray":
            return N.as_arr(self, a0, copy=False)
        if name in ("zeros", "ones", "empty"):
            return N.np_full(self, a0 if args else kwargs.get("shape"), Int(0) if name == "zeros" else Int(1) if name == "ones" else None)
        if name == "full":
            return N.np_full(self, a0, args[1] if len(args) > 1 else kwargs.get("fill_value"))
        if name in ("zeros_like", "ones_like", "empty_like", "full_like"):
            return Arr(N.shape_of(self, a0))
        if name == "arange":
            return N.np_arange(self, args)
        if name == "tile":
            return N.np_tile(self, a0, args[1] if len(args) > 1 else kwargs.get("reps"))
        if name == "repeat":
            ax = kwargs.get("axis", args[2] if len(args) > 2 else None)
            return N.np_repeat(self, a0, args[1] if len(args) > 1 else kwargs.get("repeats"), None if ax is None else const_of(ax))
        if name in ("vstack", "row_stack"):
            return N.np_vstack(self, a0)
        if name == "hstack":
            return N.np_hstack(self, a0)
        if name == "column_stack":
            return N.np_column_stack(self, a0)
        if name == "concatenate":
            ax = kwargs.get("axis", args[1] if len(args) > 1 else Int(0))
            if ax is None:
                parts = N.seq_items(self, a0, "concatenate")
                if any(isinstance(p, N.Times) for p in parts):
                    raise Undecidable("flattening concatenate of a list of unknown length", node)
                return Arr((sum((N.prod(N.shape_of(self, p)) for p in parts), ZERO),))
            if const_of(ax) is None:
                raise Undecidable("concatenate along a symbolic axis", node)
            return N.concat(self, N.seq_items(self, a0, "concatenate"), const_of(ax))
        if name == "stack":
            ax = kwargs.get("axis", args[1] if len(args) > 1 else Int(0))
            return N.np_stack(self, a0, const_of(ax))
        if name == "append":
            ax = kwargs.get("axis", args[2] if len(args) > 2 else None)
            if ax is None:
                return Arr((N.prod(N.shape_of(self, a0)) + N.prod(N.shape_of(self, args[1])),))
            return N.concat(self, [a0, args[1]], const_of(ax), "append")
        if name in ("atleast_1d", "atleast_2d", "atleast_3d"):
            return N.atleast(self, a0, int(name[8]))
        if name == "reshape":
            return N.np_reshape(self, a0, args[1] if len(args) > 1 else kwargs.get("newshape", kwargs.get("shape")))
        if name == "ravel":
            return Arr((N.prod(N.shape_of(self, a0)),), base=a0 if isinstance(a0, Arr) else None)
        if name == "transpose":
            return Arr(tuple(reversed(N.shape_of(self, a0))), base=a0 if isinstance(a0, Arr) else None)
        if name == "squeeze":
            return self.arr_method(N.as_arr(self, a0, copy=False), "squeeze", [], {}, node)
        if name == "expand_dims":
            s = list(N.shape_of(self, a0))
            ax = const_of(args[1] if len(args) > 1 else kwargs.get("axis"))
            if ax is None:
                raise Undecidable("expand_dims axis", node)
            if ax < 0:
                ax += len(s) + 1
            s.insert(ax, ONE)
            return Arr(s, base=a0 if isinstance(a0, Arr) else None)
        if name == "shape":
            return tuple(Int(d) for d in N.shape_of(self, a0))
        if name == "size":
            return Int(N.prod(N.shape_of(self, a0)))
        if name == "ndim":
            return Int(len(N.shape_of(self, a0)))
        if name in ("sum", "min", "max", "mean", "any", "all"):
            return self.arr_method(N.as_arr(self, a0, copy=False), name, args[1:], kwargs, node)
        if name in ELEMENTWISE:
            return N.elementwise(self, a0)
        if name == "where" and len(args) == 3:
            return N.elementwise(self, *args)
        if name == "pad":
            shp = list(N.shape_of(self, a0))
            pw = args[1] if len(args) > 1 else kwargs.get("pad_width")
            if isinstance(pw, Int):
                pw = tuple((pw, pw) for _ in shp)
            elif isinstance(pw, tuple) and len(pw) == 2 and all(isinstance(x, Int) for x in pw):
                pw = tuple(pw for _ in shp)
            elif isinstance(pw, (tuple, ListV)):
                pw = tuple(tuple(self.concrete_items(x, node)) for x in self.concrete_items(pw, node))
                if len(pw) == 1:
                    pw = pw * len(shp)
            if not isinstance(pw, tuple) or len(pw) != len(shp) or not all(len(x) == 2 and all(isinstance(y, Int) for y in x) for x in pw):
                raise Undecidable("pad widths", node)
            for (b, a) in pw:
                if self.sign(b.p) not in ("zero", "pos", "nonneg") or self.sign(a.p) not in ("zero", "pos", "nonneg"):
                    raise Undecidable("pad width of undecided sign", node)
            return Arr([d + b.p + a.p for d, (b, a) in zip(shp, pw)])
        if name == "savetxt":
            f, A = a0, args[1]
            if any(k in kwargs for k in ("header", "footer", "comments")) or not isinstance(f, FileObj):
                raise Undecidable("savetxt with header / footer or to a file name", node)
            delim = kwargs.get("delimiter", " ")
            nl = kwargs.get("newline", "\n")
            if not isinstance(delim, str) or not isinstance(nl, str):
                raise Undecidable("savetxt with computed separators", node)
            shp = N.shape_of(self, A)
            if len(shp) == 1:
                shp = (shp[0], ONE)
            if len(shp) != 2:
                raise ProgramError("savetxt of an array that is not 1-D or 2-D", node)
            prov = self.prov(node)
            row = T.join_counted(T.text_of(delim), (("tok", Scalar("num"), prov),), self.norm(shp[1])).atoms
            self.file_write(f, (("join", (), tuple(row) + T.text_of(nl), self.norm(shp[0])),), node)
            return None
        if name == "issubdtype":
            raise Undecidable("dtype test", node)
        raise Undecidable(f"numpy.{name} is not modelled", node)


_DISPATCH = {}


def Fraction_(a, b):
    from fractions import Fraction
    return Fraction(a, b)


def _with_prov(a, prov):
    if a[0] == "lit":
        return ("lit", a[1], a[2] if len(a) > 2 and a[2] is not None else prov)
    if a[0] == "tok":
        return ("tok", a[1], a[2] if len(a) > 2 and a[2] is not None else prov)
    return ("join", tuple(_with_prov(x, prov) for x in a[1]), tuple(_with_prov(x, prov) for x in a[2]), a[3])


def _all_bases(cls):
    out = []
    for b in cls.bases:
        out.append(b)
        out.extend(_all_bases(b))
    return out


def _has_slice_bounds(key):
    keys = key if isinstance(key, tuple) else (key,)
    return any(isinstance(k, SliceV) and (k.lo is not None or k.hi is not None) for k in keys)


def _mentions(v, sym: Poly):
    """does the value contain the symbol (a Poly atom) `sym`"""
    name = next(iter(sym.atoms()))

    def rec(x):
        if isinstance(x, Int):
            return name in x.p.atoms()
        if isinstance(x, Arr):
            return any(name in d.atoms() for d in x.shape) or (x.fill is not None and name in x.fill.p.atoms())
        if isinstance(x, tuple):
            return any(rec(y) for y in x)
        if isinstance(x, NTInst):
            return any(rec(y) for y in x.vals.values())
        if isinstance(x, ListV):
            if x.items is not None:
                return any(rec(y) for y in x.items)
            return any(rec(e) or name in c.atoms() for (e, c, _k) in x.segs)
        if isinstance(x, Str):
            return _atoms_mention(x.atoms, name)
        return False
    return rec(v)


def _atoms_mention(atoms, name):
    for a in atoms:
        if a[0] == "tok" and isinstance(a[1], Int) and name in a[1].p.atoms():
            return True
        if a[0] == "join" and (name in a[3].atoms() or _atoms_mention(a[1], name) or _atoms_mention(a[2], name)):
            return True
    return False
