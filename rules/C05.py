"""C05 -- bound-constrained trust-region solver: feasible, descending, honest flag.

  D1  success only behind the convergence test of the returned point's own projected-gradient
      measure norm(project(y - gradient(y), bounds) - y); tolerance comparison homogeneous;
  D2  descent proof as for C01 on bound_constrained_trust_region_minimize;
  D3  feasibility by construction: `project` is a clamp onto [bounds[:,0], bounds[:,1]] whose columns
      match the column_stack((lower, upper)) built in `solve` with both bounds scaled like the iterate;
      every return of project_onto_tr is a project(.) value; every Cauchy step reaching the return of
      find_generalized_cauchy_point is project(.) - x; in solve_spg_subproblem the step changes only
      by alpha*s with s = project_onto_tr(.) - (x+z) and every alpha is bounded by 1 (through every
      line-search callee); the driver forms y = x + s and assigns the iterate only from y;
  D4  NaN polarity as C01;  T6 both trust-region drivers use the same acceptance rule shape.
Not decided: alpha >= 0, optimality for convex problems, closest-point property beyond the clamp shape,
behaviour of scipy.optimize.brentq.
"""
from __future__ import annotations

import ast

from optilint.cfg import cfg_of
from optilint.model import dotted, FuncVal, walk_local
from optilint.core import Incomplete
from . import trustregion as tr
from .common import src, expand, canon, same, calls_in, single_def, def_value, const_value

LEVEL = "other"
RULE_TEXT = ("obligations = (return statement x guarded-success) + (ratio definition x sign proof) + "
             "(projection/step definition x feasibility provenance) + NaN polarity + parameter ordering")
EXPLANATION = ("Path-sensitive static analysis of optimism/TrustRegionSPG.py: guarded success returns, descent sign proof, "
               "NaN polarity (shared with C01) and a provenance analysis showing that every point the driver can report "
               "is a box projection, or a convex combination x+z+alpha*s of feasible points with alpha <= 1. "
               "Numerical optimality and the root finder inside project_onto_tr are not decided.")

SPG = "optimism.TrustRegionSPG"
DRV = tr.Driver(SPG, "bound_constrained_trust_region_minimize", "projected-gradient", "C05")


def run(ctx):
    ctx.need_module(SPG)
    ctx.guard(tr.d1_flag, ctx, DRV)
    ctx.guard(d1_params, ctx)
    ctx.guard(tr.d2_descent, ctx, DRV)
    ctx.guard(tr.d3_reported, ctx, DRV)
    ctx.guard(tr.d4_nan, ctx, DRV)
    ctx.guard(d3_feasible, ctx)
    ctx.guard(t6_siblings, ctx)
    from .common import settings_wiring
    ctx.guard(settings_wiring, ctx, "D1/T5-settings-wiring", SPG)
    ctx.trust("IEEE-754: every ordered comparison with a NaN operand is false")
    ctx.trust("max(lb, min(x, ub)) lies in [lb, ub] whenever lb <= ub; a convex combination of two points of a box lies in the box")
    ctx.assume("0 <= alpha (step lengths of the SPG line search are non-negative) -- not proved statically")
    ctx.assume("feasible start, lower <= upper (property text)")


def d1_params(ctx):
    rule = "D1/T2-parameters-before-solve"
    def is_solve(n):
        return any(isinstance(c, ast.Call) and isinstance(c.func, ast.Name) and c.func.id == DRV.func for c in ast.walk(n.ast))
    tr.params_before_solve(ctx, rule, f"{SPG}:solve", 0, is_solve)


# ------------------------------------------------------------------ D3 feasibility provenance

def _is_project_call(e, bounds_name="bounds"):
    return isinstance(e, ast.Call) and isinstance(e.func, ast.Name) and e.func.id == "project" and len(e.args) == 2 \
        and isinstance(e.args[1], ast.Name) and e.args[1].id == bounds_name


def d3_feasible(ctx):
    rule = "D3/T9-feasible-by-construction"
    # --- project is a clamp
    pj = ctx.need(f"{SPG}:project")
    cfg = cfg_of(pj)
    xp, bp = pj.params()[0], pj.params()[1]
    for r in cfg.returns():
        e = expand(cfg, r, r.ast.value, stop=(bp,))
        ok, lo, hi = _clamp_shape(e)
        cols = None
        if ok:
            cols = (_col_of(lo, bp), _col_of(hi, bp))
        good = ok and cols == (0, 1)
        ctx.decide(rule, good, pj, r.ast, construct="project-is-clamp",
                   detail=f"returns clamp of the argument between {bp}[:,0] and {bp}[:,1]",
                   bad_detail=f"project returns `{src(e)}`: not max(lower, min(x, upper)) with lower={bp}[:,0], upper={bp}[:,1]"
                              + (f" (columns used: lower={cols[0]}, upper={cols[1]})" if cols else ""))
    # --- bounds = column_stack((scaled lower, scaled upper)) in solve
    sv = ctx.need(f"{SPG}:solve")
    scfg = cfg_of(sv)
    params = sv.params()
    lowp = [p for p in params if "lower" in p.lower()]
    upp = [p for p in params if "upper" in p.lower()]
    if len(lowp) != 1 or len(upp) != 1:
        raise Incomplete("solve(): lower/upper bound parameters not identified")
    calls = [n for n in scfg.nodes if n.kind == "stmt" and n.ast is not None and
             any(isinstance(c, ast.Call) and isinstance(c.func, ast.Name) and c.func.id == DRV.func for c in ast.walk(n.ast))]
    drv = ctx.need(f"{SPG}:{DRV.func}")
    for n in calls:
        call = [c for c in ast.walk(n.ast) if isinstance(c, ast.Call) and isinstance(c.func, ast.Name) and c.func.id == DRV.func][0]
        b = call.args[2] if len(call.args) > 2 else None
        be = expand(scfg, n, b)
        ok = False
        shown = src(be)
        if isinstance(be, ast.Call) and (dotted(be.func) or "").endswith("column_stack") and be.args and isinstance(be.args[0], ast.Tuple) \
                and len(be.args[0].elts) == 2:
            lo, hi = be.args[0].elts
            ok = same(lo, f"objective.scaling * {lowp[0]}") and same(hi, f"objective.scaling * {upp[0]}")
        ctx.decide(rule, ok, sv, call, construct="bounds-columns-and-scaling",
                   detail="bounds = column_stack((scaling*lower, scaling*upper))",
                   bad_detail=f"bounds passed to the minimizer are `{shown}`: expected column_stack((objective.scaling*{lowp[0]}, objective.scaling*{upp[0]}))")
        x0 = expand(scfg, n, call.args[1]) if len(call.args) > 1 else None
    # --- project_onto_tr returns only projected values
    pt = ctx.need(f"{SPG}:project_onto_tr")
    pcfg = cfg_of(pt)
    for r in pcfg.returns():
        e = expand(pcfg, r, r.ast.value, stop=tuple(pt.params()))
        ctx.decide(rule, _is_project_call(e), pt, r.ast, construct=f"project_onto_tr-return:{src(r.ast.value)[:40]}",
                   detail="returns project(., bounds)",
                   bad_detail=f"project_onto_tr returns `{src(e)}`, which is not a box projection (the point may leave the feasible set)")
    # --- generalized Cauchy point: every definition of the step reaching the return is project(.) - x
    gc = ctx.need(f"{SPG}:find_generalized_cauchy_point")
    gcfg = cfg_of(gc)
    xg = gc.params()[0]
    for r in gcfg.returns():
        v = r.ast.value
        if not (isinstance(v, ast.Tuple) and len(v.elts) == 2 and isinstance(v.elts[1], ast.Name)):
            ctx.undecided(rule, gc, r.ast, construct="cauchy-return", detail="unexpected return shape")
            continue
        sname = v.elts[1].id
        for D in gcfg.reaching(r, sname):
            ok, shown = _is_projected_step(gcfg, D, sname, xg)
            ctx.decide(rule, ok, gc, D.ast, construct=f"cauchy-step:{src(D.ast)[:60]}",
                       detail=f"step = project(.) - {xg}",
                       bad_detail=f"a Cauchy step reaching the return is defined as `{shown}`, not project(., bounds) - {xg}")
    # --- SPG subproblem
    sp = ctx.need(f"{SPG}:solve_spg_subproblem")
    spcfg = cfg_of(sp)
    xs = sp.params()[0]
    zinit = sp.params()[1]
    znames = set()
    for r in spcfg.returns():
        v = r.ast.value
        if isinstance(v, ast.Tuple) and isinstance(v.elts[0], ast.Name):
            znames.add(v.elts[0].id)
        else:
            znames.add("?")
    if len(znames) != 1 or "?" in znames:
        ctx.refuted(rule, sp, None, construct="spg:returns-step",
                    detail=f"solve_spg_subproblem returns different things as the step on different exits: {sorted(znames)}")
        return
    Z = znames.pop()
    zdefs = [n for n in spcfg.nodes if n.kind == "stmt" and any(c == Z for (c, w) in spcfg.defs_of(n))]
    n_aug = 0
    for D in zdefs:
        a = D.ast
        if isinstance(a, ast.Assign) and isinstance(a.value, ast.Name) and a.value.id == zinit:
            ctx.proved(rule, sp, a, construct="spg:z-init", detail="z starts at the generalized Cauchy step")
            continue
        if isinstance(a, ast.AugAssign) and isinstance(a.op, ast.Add):
            n_aug += 1
            val = a.value
            fs = []
            if isinstance(val, ast.BinOp) and isinstance(val.op, ast.Mult):
                fs = [val.left, val.right]
            names = [f.id for f in fs if isinstance(f, ast.Name)]
            if len(names) != 2:
                ctx.refuted(rule, sp, a, construct="spg:z-update", detail=f"step update `{src(a)}` is not step += alpha*s")
                continue
            # which is the direction (defined as project_onto_tr(..) - xNew) and which the step length
            sdir, alpha = None, None
            for nm in names:
                d = single_def(spcfg, D, nm)
                v = def_value(d, nm) if d is not None else None
                if isinstance(v, ast.BinOp) and isinstance(v.op, ast.Sub) and isinstance(v.left, ast.Call) \
                        and isinstance(v.left.func, ast.Name) and v.left.func.id == "project_onto_tr":
                    sdir = (nm, d, v)
                else:
                    alpha = nm
            if sdir is None or alpha is None:
                ctx.refuted(rule, sp, a, construct="spg:z-update",
                            detail=f"in `{src(a)}` no factor is a direction of the form project_onto_tr(.) - (x+z)")
                continue
            nm, d, v = sdir
            # direction ends at a feasible point: minus operand is xNew = x + z with the same z
            base = v.right
            be = expand(spcfg, d, base, stop=(xs, Z))
            okb = same(be, f"{xs} + {Z}")
            # the trust region centre given to project_onto_tr is x, bounds are the bounds
            c = v.left
            okc = len(c.args) >= 4 and src(c.args[1]) == xs and src(c.args[2]) == "bounds"
            # z and xNew unchanged between direction and update
            okz = spcfg.same_value(Z, d, D)
            ctx.decide(rule, okb and okc and okz, sp, d.ast, construct="spg:direction-ends-feasible",
                       detail=f"{nm} = project_onto_tr(., {xs}, bounds, .) - ({xs} + {Z})",
                       bad_detail=f"SPG direction `{src(d.ast)}`: base point `{src(be)}`, centre/bounds ok={okc}; x+z+s is not a projected point")
            # every definition of alpha reaching the update is <= 1
            for Da in spcfg.reaching(D, alpha):
                okA, why = _bounded_by_one(ctx, sp, spcfg, Da, alpha)
                ctx.decide(rule, okA, sp, Da.ast, construct=f"spg:step-length<=1:{src(Da.ast)[:60]}",
                           detail=f"`{alpha}` bounded by 1: {why}",
                           bad_detail=f"step length `{alpha}` defined by `{src(Da.ast)}` is not bounded by 1 ({why}); x+z+alpha*s can overshoot the projected point and leave the box / trust region")
            continue
        ctx.refuted(rule, sp, a, construct="spg:z-definition", detail=f"unexpected definition of the step: `{src(a)}`")
    if n_aug < 1:
        ctx.undecided(rule, sp, None, construct="spg:z-update", detail="no `z += alpha*s` update found")
    # --- driver: y = x + s with s from solve_spg_subproblem; iterate only from y (checked in D2.5)
    dcfg = cfg_of(drv)
    it = drv.params()[1]
    _, _, _, _, accepts = tr._roles(ctx, DRV)
    ynames = {a.ast.value.id for a in accepts if isinstance(a.ast.value, ast.Name)}
    if len(ynames) != 1:
        ctx.undecided(rule, drv, None, construct="driver:trial-point", detail=f"accepted values: {sorted(ynames)}")
        return
    Y = ynames.pop()
    for n in dcfg.nodes:
        if n.kind == "stmt" and isinstance(n.ast, ast.Assign) and any(isinstance(t, ast.Name) and t.id == Y for t in n.ast.targets):
            e = n.ast.value
            ok = False
            shown = src(e)
            if isinstance(e, ast.BinOp) and isinstance(e.op, ast.Add):
                names = [x.id for x in (e.left, e.right) if isinstance(x, ast.Name)]
                if it in names and len(names) == 2:
                    sn = [x for x in names if x != it][0]
                    ds = dcfg.reaching(n, sn)
                    ok = len(ds) == 1 and "solve_spg_subproblem" in src(ds[0].ast) and \
                        isinstance(ds[0].ast.targets[0], ast.Tuple) and isinstance(ds[0].ast.targets[0].elts[0], ast.Name) \
                        and ds[0].ast.targets[0].elts[0].id == sn
                    if ok:
                        call = [c for c in ast.walk(ds[0].ast) if isinstance(c, ast.Call) and isinstance(c.func, ast.Name) and c.func.id == "solve_spg_subproblem"][0]
                        a = [src(x) for x in call.args]
                        ok = a[0] == it and a[3] == "bounds" and dcfg.same_value(it, ds[0], n)
                        # Cauchy step argument comes from find_generalized_cauchy_point(x, ..., bounds, ...)
                        cp = call.args[1]
                        cds = dcfg.reaching(ds[0], cp.id) if isinstance(cp, ast.Name) else []
                        okcp = len(cds) == 1 and "find_generalized_cauchy_point" in src(cds[0].ast)
                        if okcp:
                            c2 = [c for c in ast.walk(cds[0].ast) if isinstance(c, ast.Call) and isinstance(c.func, ast.Name) and c.func.id == "find_generalized_cauchy_point"][0]
                            okcp = src(c2.args[0]) == it and src(c2.args[3]) == "bounds" and \
                                isinstance(cds[0].ast.targets[0], ast.Tuple) and src(cds[0].ast.targets[0].elts[1]) == cp.id
                        ok = ok and okcp
            ctx.decide(rule, ok, drv, n.ast, construct="driver:trial-point",
                       detail=f"y = {it} + step of solve_spg_subproblem({it}, cauchy step of find_generalized_cauchy_point({it},..), ., bounds, ...)",
                       bad_detail=f"trial point `{shown}` is not x + the SPG step computed for x within `bounds`")


def _clamp_shape(e):
    """max(lo, min(x, hi)) / min(hi, max(x, lo)) / np.clip(x, lo, hi) -> (True, lo, hi)"""
    def nm(c):
        return (dotted(c.func) or "").split(".")[-1] if isinstance(c, ast.Call) else None
    if nm(e) in ("maximum", "max") and len(e.args) == 2:
        for i in (0, 1):
            inner, lo = e.args[i], e.args[1 - i]
            if nm(inner) in ("minimum", "min") and len(inner.args) == 2:
                for j in (0, 1):
                    hi = inner.args[j]
                    x = inner.args[1 - j]
                    if isinstance(x, ast.Name) and not isinstance(hi, ast.Name):
                        return True, lo, hi
                    if isinstance(x, ast.Name) and isinstance(hi, (ast.Subscript,)):
                        return True, lo, hi
    if nm(e) in ("minimum", "min") and len(e.args) == 2:
        for i in (0, 1):
            inner, hi = e.args[i], e.args[1 - i]
            if nm(inner) in ("maximum", "max") and len(inner.args) == 2:
                for j in (0, 1):
                    lo = inner.args[j]
                    x = inner.args[1 - j]
                    if isinstance(x, ast.Name) and isinstance(lo, ast.Subscript):
                        return True, lo, hi
    if nm(e) == "clip" and len(e.args) == 3:
        return True, e.args[1], e.args[2]
    return False, None, None


def _col_of(e, bp):
    if isinstance(e, ast.Subscript) and isinstance(e.value, ast.Name) and e.value.id == bp and isinstance(e.slice, ast.Tuple) \
            and len(e.slice.elts) == 2:
        return const_value(e.slice.elts[1])
    return None


def _is_projected_step(cfg, D, sname, xname):
    a = D.ast
    v = None
    if isinstance(a, ast.Assign):
        v = def_value(D, sname)
    if v is None:
        return False, src(a)
    if isinstance(v, ast.Name):
        # s = sTry : follow
        ds = cfg.reaching(D, v.id)
        res = [_is_projected_step(cfg, d, v.id, xname) for d in ds]
        return (bool(res) and all(r[0] for r in res)), src(a)
    ok = isinstance(v, ast.BinOp) and isinstance(v.op, ast.Sub) and _is_project_call(v.left) and \
        isinstance(v.right, ast.Name) and v.right.id == xname
    return ok, src(v)


def _bounded_by_one(ctx, scope, cfg, D, alpha, depth=3):
    a = D.ast
    v = def_value(D, alpha) if isinstance(a, ast.Assign) else None
    if v is None:
        return False, "not a plain assignment"
    return _expr_le_one(ctx, scope, cfg, D, v, depth)


def _expr_le_one(ctx, scope, cfg, node, v, depth):
    if isinstance(v, ast.Constant) and isinstance(v.value, (int, float)):
        return (v.value <= 1), f"literal {v.value}"
    if isinstance(v, ast.IfExp):
        a = _expr_le_one(ctx, scope, cfg, node, v.body, depth)
        b = _expr_le_one(ctx, scope, cfg, node, v.orelse, depth)
        return (a[0] and b[0]), f"({a[1]}) if . else ({b[1]})"
    if isinstance(v, ast.Call):
        d = (dotted(v.func) or "").split(".")[-1]
        if d in ("min", "minimum") and len(v.args) == 2:
            for x in v.args:
                c = const_value(x)
                if c is not None and c <= 1:
                    return True, f"min(., {c})"
            return False, "min without a constant <= 1"
        # call of repo function(s): every return of every callee must be bounded
        if depth > 0:
            vals = ctx.cg.expand(ctx.repo.resolve(v.func, scope))
            fvs = [x for x in vals if isinstance(x, FuncVal)]
            if fvs and len(fvs) == len(vals):
                why = []
                allok = True
                for fv in fvs:
                    ccfg = cfg_of(fv.scope)
                    for r in ccfg.returns():
                        ok, w = _expr_le_one(ctx, fv.scope, ccfg, r, expand(ccfg, r, r.ast.value), depth - 1)
                        why.append(f"{fv.scope.name}: {w}")
                        allok = allok and ok
                return allok, "; ".join(why)
        return False, f"call `{src(v)[:50]}` with unbounded result"
    if isinstance(v, ast.Name):
        ds = cfg.reaching(node, v.id)
        res = [_bounded_by_one(ctx, scope, cfg, d, v.id, depth) for d in ds if d is not node]
        if res:
            return all(r[0] for r in res), "; ".join(r[1] for r in res)
    return False, f"`{src(v)[:50]}` has no upper bound 1"


# ------------------------------------------------------------------ T6: drivers agree on acceptance

def _accept_shape(ctx, drv):
    sc, cfg, iterate, loop, accepts = tr._roles(ctx, drv)
    shapes = []
    for acc in accepts:
        atoms = tr._accept_formula(cfg, acc)
        rho = tr._find_ratio_var(cfg, acc, atoms)
        for (c, a, pol) in atoms:
            e = expand(cfg, c, a, stop=(rho,)) if rho else a
            if rho and rho in {n.id for n in ast.walk(e) if isinstance(n, ast.Name)}:
                disj = e.values if isinstance(e, ast.BoolOp) and isinstance(e.op, ast.Or) else [e]
                sh = []
                for d in disj:
                    conj = d.values if isinstance(d, ast.BoolOp) and isinstance(d.op, ast.And) else [d]
                    row = []
                    for k in conj:
                        if isinstance(k, ast.Compare) and isinstance(k.left, ast.Name) and k.left.id == rho:
                            b = k.comparators[0]
                            cv = const_value(b)
                            row.append(("ratio", type(k.ops[0]).__name__, "0" if cv is not None and cv == 0 else src(b)))
                        elif isinstance(k, ast.Compare):
                            row.append(("measure", type(k.ops[0]).__name__, "prev"))
                        else:
                            row.append(("other", src(k), ""))
                    sh.append(tuple(sorted(row)))
                shapes.append(tuple(sorted(sh)))
    return sc, shapes


def t6_siblings(ctx):
    rule = "T6-drivers-agree-on-acceptance"
    other = tr.Driver("optimism.EquationSolver", "trust_region_minimize", "gradient", "C01")
    s1, a = _accept_shape(ctx, DRV)
    s2, b = _accept_shape(ctx, other)
    ctx.decide(rule, a == b and bool(a), s1, None, construct="acceptance-shape",
               detail=f"both drivers accept under {a}",
               bad_detail=f"acceptance rules differ: bound-constrained {a} vs unconstrained {b}")


def variants(repo):
    from optilint.selftest import Variant, sub, sub_in_func, alpha_rename, reformat, commute
    S = "optimism/TrustRegionSPG.py"
    T = DRV.func
    return [
        Variant("True at small-radius exit", S,
                sub_in_func(T, "                if callback: callback(x, objective)\n                return x, False",
                            "                if callback: callback(x, objective)\n                return x, True"), "D1/T1-guarded-success"),
        Variant("test on stale optimality", S,
                sub_in_func(T, "                        realOptimality, modelOptimality, spgIters, trSizeUsed,", "                        modelOptimality, realOptimality, spgIters, trSizeUsed,"),
                "D1/T1-guarded-success"),
        Variant("unprojected optimality", S,
                sub_in_func(T, "        R = project(y - gy, bounds) - y\n        realOptimality", "        R = (y - gy) - y\n        realOptimality"), "D1/T1-guarded-success"),
        Variant("tol compared with squared measure", S,
                sub_in_func("is_converged", "if realOptimality < settings.tol:", "if realOptimality**2 < settings.tol:"), "D1/T1-convergence-test"),
        Variant("drop rho>=0 conjunct", S,
                sub_in_func(T, "(rho >= 0 and realOptimality <= prevOptimality)", "(realOptimality <= prevOptimality)"), "D2/T8-descent"),
        Variant("drop o update", S, sub_in_func(T, "            o = objective.value(x)\n", ""), "D2/T8-descent"),
        Variant("rho < eta2", S, sub_in_func(T, "if not rho >= settings.eta2:", "if rho < settings.eta2:"), "D4/T12-nan-polarity"),
        Variant("remove step cap", S,
                sub_in_func("solve_spg_subproblem", "        alpha = min(1.0, alpha) if sBs > 0 else 1.0\n", "        alpha = alpha if sBs > 0 else 1.0\n"), "D3/T9-feasible-by-construction"),
        Variant("cap only in one line search", S,
                lambda s: None if s.count("        alpha = min(1.0, alpha) if sBs > 0 else 1.0\n") != 1 else
                s.replace("        alpha = min(1.0, alpha) if sBs > 0 else 1.0\n", "        alpha = alpha if sBs > 0 else 1.0\n")
                 .replace("    alpha = (-b + np.sqrt(b**2 - 2*sBs*(q - qMax))) / sBs\n    return alpha", "    alpha = (-b + np.sqrt(b**2 - 2*sBs*(q - qMax))) / sBs\n    return min(1.0, alpha)"),
                "D3/T9-feasible-by-construction"),
        Variant("unprojected return of project_onto_tr", S,
                sub_in_func("project_onto_tr", "    return project(xk + t*(x - xk), bounds)", "    return xk + t*(x - xk)"), "D3/T9-feasible-by-construction"),
        Variant("swap bound columns", S,
                sub_in_func("project", "    lb = bounds[:,0]\n    ub = bounds[:,1]", "    lb = bounds[:,1]\n    ub = bounds[:,0]"), "D3/T9-feasible-by-construction"),
        Variant("scale only lower bound", S, sub_in_func("solve", "    uBar = objective.scaling * upperBounds", "    uBar = upperBounds"), "D3/T9-feasible-by-construction"),
        Variant("unprojected cauchy backtrack", S,
                sub_in_func("find_generalized_cauchy_point", "            alpha *= cutback\n            s = project(x - alpha*g, bounds) - x\n            i += 1\n            search = m(s)",
                            "            alpha *= cutback\n            s = - alpha*g\n            i += 1\n            search = m(s)"), "D3/T9-feasible-by-construction"),
        Variant("p assigned before warm start", S,
                sub_in_func("solve", "        dxBar = WarmStart.warm_start_increment(objective,", "        objective.p = p\n        dxBar = WarmStart.warm_start_increment(objective,"),
                "D1/T2-parameters-before-solve"),
        Variant("reformat", S, reformat(), None),
        Variant("alpha-rename driver", S, alpha_rename(T), None),
        Variant("alpha-rename solve_spg_subproblem", S, alpha_rename("solve_spg_subproblem"), None),
        Variant("alpha-rename find_generalized_cauchy_point", S, alpha_rename("find_generalized_cauchy_point"), None),
        Variant("commute", S, commute(T), None),
    ]
