"""C05 -- bound-constrained trust-region solver: feasible, descending, honest flag.

All rules work on the *terms* and *path conditions* computed by the symbolic executor of rules/C05_sym.py (inlining of helpers, nested
defs and lambdas; decision-tree merges; loops solved by induction), not on the spelling of the source:

  D1  a success exit carries an upper bound of the returned point's own projected-gradient measure
      norm(project(y - gradient(y), bounds) - y) by the tolerance (equal degrees); the convergence test answers True only under
      such a bound; parameters are assigned before the solve and after the warm start; settings factories fill fields by name;
  D2  descent: acceptance => ratio >= c >= 0, denominator of known sign, numerator == objective(old iterate) - objective(new iterate),
      the reference objective value is an inductive invariant of the loop;
  D3  feasibility by construction, by *box-point algebra*: values are polynomials over box points clamp(v, lo, hi); a point is
      feasible iff it is a convex combination (weights sum to 1, each within [0, 1] by interval arithmetic, step lengths >= 0
      assumed) of points of the driver's box:  `project` returns a box point of [bounds[:,0], bounds[:,1]]; the bounds handed to the
      driver are column_stack of lower/upper scaled like the start point; every return of project_onto_tr is a box point; every
      definition whose value *flows into* the Cauchy step returned by find_generalized_cauchy_point (found on the terms, through
      helpers, tuple / record carries and loop-carried variables; also on the first, exact iteration of every loop), added to x, is one;
      the SPG step keeps x + z a convex combination through every update (which needs every step length <= 1, through every line-search
      callee);
      with everything inlined the driver's trial point, its iterate (by induction over the main loop) and every point it returns
      are box points of the driver's bounds;
      the bracket of a bracketing root finder (`brentq(f, a, b)` in project_onto_tr): f is evaluated at both bracket ends by the
      executor (centre feasible: project(xk, bounds) == xk assumed) and the conditions of every path that reaches the call must imply
      f(a) <= 0 <= f(b) or the reverse (an end value is the negated early-exit guard, the other -radius^2); REFUTED only with an exact
      one-dimensional admissible witness on which the call is reached with f(a)*f(b) > 0 (the finder raises: no point is returned);
  D4  NaN polarity;  T6 both trust-region drivers use the same acceptance rule shape.
REFUTED only for fully understood values (no library result without a model, no loop-carried unknown): a case the executor cannot read
is UNDECIDED.  One exception, itself a derivation: a value with loop-carried unknowns (a step length multiplied / divided in a search loop)
is still refuted by a *degenerate-box witness* -- a point feasible for every box containing the feasible x must reduce to p on the box
lower == upper == {p} (where every projection is p); when value[box points := p] - p has a derived non-zero sign for positive inputs
(sign of a carried unknown by induction over its loop record: initial value and back-edge value) and no condition on the way pins single
components against the box, the value leaves the box (`-alpha*g` in a cut-back loop, as opposed to `project(x - alpha*g, bounds) - x`).  Not decided: alpha >= 0, optimality for convex problems, closest-point property beyond the clamp shape, what
scipy.optimize.brentq converges to (only its bracket precondition is), membership in the trust region.
"""
from __future__ import annotations

import ast

from optilint.core import Incomplete
from . import C05_sym as S
from . import C05_tr as TR
from .C05_sym import mk, leaves, show, convex, item, term, poly

LEVEL = "other"
RULE_TEXT = ("obligations = (return statement x guarded-success) + (ratio definition x sign proof) + "
             "(projection/step definition x feasibility provenance) + NaN polarity + parameter ordering")
EXPLANATION = ("Symbolic execution of optimism/TrustRegionSPG.py on hash-consed terms (helpers, nested defs and lambdas inlined; decision-tree "
               "merges; loops solved by induction with box-point and relational invariants): guarded success returns, descent sign proof, "
               "NaN polarity and a box-point algebra showing that every point the driver can report is a convex combination of box "
               "projections (step lengths <= 1 by interval arithmetic through every line-search callee). "
               "The bracket handed to the root finder inside project_onto_tr must change sign on every path that reaches the call. "
               "Numerical optimality and what the root finder converges to are not decided.")

SPG = "optimism.TrustRegionSPG"
DRIVER = "bound_constrained_trust_region_minimize"


def run(ctx):
    ctx.need_module(SPG)
    ctx.guard(d1, ctx)
    ctx.guard(d1_params, ctx)
    ctx.guard(d2, ctx)
    ctx.guard(d3_reported, ctx)
    ctx.guard(d4, ctx)
    ctx.guard(d3_feasible, ctx)
    ctx.guard(d3_root_bracket, ctx)
    ctx.guard(t6_siblings, ctx)
    ctx.guard(TR.settings_wiring, ctx, "D1/T5-settings-wiring", SPG)
    ctx.trust("IEEE-754: every ordered comparison with a NaN operand is false")
    ctx.trust("max(lb, min(x, ub)) lies in [lb, ub] whenever lb <= ub; a convex combination of two points of a box lies in the box")
    ctx.assume("0 <= alpha (step lengths of the SPG line search are non-negative) -- not proved statically")
    ctx.assume("feasible start, lower <= upper (property text)")


def d1(ctx):
    R = TR.get_run(ctx, SPG, DRIVER)
    TR.d1_flag(ctx, R, "projected-gradient")
    TR.d1_conv(ctx, SPG)


def d2(ctx):
    TR.d2_descent(ctx, TR.get_run(ctx, SPG, DRIVER))


def d3_reported(ctx):
    TR.d3_reported(ctx, TR.get_run(ctx, SPG, DRIVER))


def d4(ctx):
    TR.d4_nan(ctx, TR.get_run(ctx, SPG, DRIVER))


def d1_params(ctx):
    TR.params_before_solve(ctx, "D1/T2-parameters-before-solve", SPG, "solve", ctx.need(f"{SPG}:{DRIVER}"))


# ------------------------------------------------------------------ D3 feasibility by construction

RULE9 = "D3/T9-feasible-by-construction"


def _box(bounds):
    return (S.col(bounds, 0), S.col(bounds, 1))


def _bounds_as_points(leaf, box):
    """The lower / upper bound themselves are points of the box (lo <= hi assumed): occurrences as top-level terms of the polynomial
    count as box points."""
    if not S.is_num(leaf) or leaf.k in ("const", "unbound"):
        return leaf
    p = poly(leaf)
    keys = {box[0].key: "lower bound", box[1].key: "upper bound"}
    if not any(a in keys for a in p.atoms()):
        return leaf
    out = type(p)()
    for m, c in p.t.items():
        m2 = tuple(sorted(((mk("feas", keys[a], box[0], box[1]).key if a in keys else a), e) for (a, e) in m))
        out = out + type(p)({m2: c})
    return S.num(out)


def _within_by_facts(leaf, cs, box):
    """The path conditions (e.g. of an elementwise selection) say lo <= leaf <= hi."""
    lo_ok = hi_ok = False
    for (c0, p0) in cs:
        for (c, p) in S.flatten(c0, p0):
            if c.k != "cmp" or c.a[0] not in ("lt", "le"):
                continue
            l, r = c.a[1], c.a[2]
            if (p and l.key == box[0].key and r.key == leaf.key) or (not p and l.key == leaf.key and r.key == box[0].key):
                lo_ok = True        # lo <= leaf   /   not (leaf < lo)
            if (p and l.key == leaf.key and r.key == box[1].key) or (not p and l.key == box[1].key and r.key == leaf.key):
                hi_ok = True
    return lo_ok and hi_ok


def _column_of(t, box):
    """t is a column of the container the expected box is taken from -> its index, else None"""
    if t.k == "col" and box[0].k == "col" and isinstance(t.a[0], S.T) and t.a[0].key == box[0].a[0].key:
        return t.a[1]
    return None


def _in_box(v, box, offset=None, interp=None, pc=()):
    """Every case of the value tree v (plus offset) is a convex combination of points of `box` -> (verdict True/False/None, reason).
    False only for a case that is fully understood (no value the executor has no model for, no loop-carried unknown) and positively
    not such a combination; a case this analysis cannot read gives None.  With `interp` (the executor that produced v) a case that
    contains loop-carried unknowns is still decided when a *degenerate-box witness* can be derived for it (see _degenerate_witness)."""
    verdict, why = True, ""
    if offset is not None:
        v = S.add(v, offset)
    for (cs, leaf) in leaves(v):
        r = convex(_bounds_as_points(leaf, box), facts=cs)
        if r.ok and r.box is not None and (r.box[0].key, r.box[1].key) == (box[0].key, box[1].key):
            continue
        if not r.ok and _within_by_facts(leaf, cs, box):
            continue
        unknown = r.unknown
        if r.ok and r.box is not None:
            cols = [_column_of(b, box) for b in r.box]
            shown = [(c if c is not None else show(b)) for c, b in zip(cols, r.box)]
            reason = f"it is clamped between `{show(r.box[0])}` and `{show(r.box[1])}` (lower={shown[0]}, upper={shown[1]}), not between the bounds' lower and upper columns"
            if None in cols:
                unknown = True          # bounds of another origin: not comparable by this rule
        else:
            reason = r.why
        cond = " and ".join(("" if p else "not ") + S.brief(c, 50, 2) for (c, p) in cs[:2])
        reason = f"`{S.brief(leaf, 120, 3)}`: {reason}" + (f" (case: {cond})" if cond else "")
        if unknown and interp is not None and not r.ok:
            w = _degenerate_witness(leaf, box, interp, tuple(pc) + tuple(cs))
            if w is not None:
                unknown = False
                reason += (f"; on a degenerate box (lower == upper: the feasible point and every projection onto the box are its single point p) "
                           f"the value is p + `{S.brief(w, 100, 3)}`, which differs from p for positive inputs (step length, gradient ...) "
                           f"-- a witness derived through the loop-carried values")
        if unknown and verdict is True:
            verdict, why = None, reason
        elif not unknown and verdict is not False:
            verdict, why = False, reason
    return verdict, why


# ---- degenerate-box witness
#
# A point that is feasible for EVERY box containing the feasible x must, in particular, be feasible for the degenerate box
# lower == upper == x, whose only point is p = x: there clamp(v, lower, upper) == p for every v, every "some point of the box" is p, the
# bounds themselves are p.  So the value, rewritten under F -> p for every box point F of the box, must be identically p.  When the
# difference D = value[F := p] - p is *not* identically zero, one admissible input for which D != 0 refutes feasibility.  The witness used
# here: every free input (parameters, their fields) is positive in every component.  The sign of D for that input is derived on the terms:
# constants, products, quotients, roots, inner products; a decision tree has a sign when all its cases agree; a loop-carried unknown has
# the sign s when its initial value has sign s and its back-edge value has sign s under the hypothesis that it (and the other carried
# unknowns being examined) has sign s at the loop head -- induction over the iterations, read off the loop records of the executor.
# Anything else (calls, values without a model, box points of another box) has no derived sign: no witness, the case stays undecided.

_POINT = mk("sym", "<the single point of the degenerate box>")


def _degenerate(t, box):
    """t on the degenerate box lower == upper == {p}: every box point of `box` (projection, feasible input, `some point of the box`) and
    both bounds become p."""
    mapping = {box[0].key: _POINT, box[1].key: _POINT}
    for k in S.atoms_of(t):
        a = term(k)
        if a.k in S.F_KINDS:
            b = S.box_of(a)
            if b is not None and (b[0].key, b[1].key) == (box[0].key, box[1].key):
                mapping[k] = _POINT
    return S.subst(t, mapping)


def _carried(I, phi):
    """(initial value, back-edge value) of the loop-carried unknown phi, from the executor's loop records"""
    for r in I.loops.values():
        if getattr(r, "label", None) != phi.a[0]:
            continue
        for k in r.head:
            if S._kname(k) == phi.a[1]:
                init, back = r.init.get(k), r.back.get(k)
                if init is None or back is None or init is S.UNBOUND or back is S.UNBOUND:
                    return None
                return init, back
    return None


def _witness_sign(t, box, I, hyp, depth=0):
    """Sign (+1 / -1 / 0, the same in every component) of t on the degenerate box for the input `every free symbol is positive`;
    None when no sign is derived."""
    if depth > 40:
        return None
    k = t.k
    rec = lambda u: _witness_sign(u, box, I, hyp, depth + 1)
    if k == "ite":
        signs = {rec(l) for (_, l) in leaves(t)}
        return signs.pop() if len(signs) == 1 else None
    if k == "num":
        found = set()
        for m, c in t.a[0].t.items():
            sg = 1 if c > 0 else (-1 if c < 0 else 0)
            for a, e in m:
                sa = rec(term(a))
                if sa is None:
                    return None
                sg *= sa ** e
            found.add(sg)
        found.discard(0)
        if not found:
            return 0
        return found.pop() if len(found) == 1 else None
    if k == "sym":
        return 1
    if k == "attr":
        b = t
        while b.k == "attr" and isinstance(b.a[0], S.T):
            b = b.a[0]
        return 1 if b.k == "sym" else None
    if k == "const":
        c = S.const_of(t)
        return None if c is None else (1 if c > 0 else (-1 if c < 0 else 0))
    if k == "phi":
        if t.key in hyp:
            return hyp[t.key]
        ib = _carried(I, t)
        if ib is None:
            return None
        s0 = rec(_degenerate(ib[0], box))
        if s0 is None:
            return None
        hyp[t.key] = s0
        try:
            sb = rec(_degenerate(ib[1], box))
        finally:
            del hyp[t.key]
        return s0 if sb == s0 else None
    if k == "div":
        sa, sb = rec(t.a[0]), rec(t.a[1])
        return None if sa is None or not sb else sa * sb
    if k == "dot":
        sa, sb = rec(t.a[0]), rec(t.a[1])
        return None if sa is None or sb is None else sa * sb
    if k in ("norm", "abs"):
        sa = rec(t.a[0])
        return None if sa is None else (1 if sa else 0)
    if k == "sqrt":
        sa = rec(t.a[0])
        return sa if sa in (0, 1) else None
    if k in ("min", "max"):
        sa, sb = rec(t.a[0][0]), rec(t.a[0][1])
        return sa if sa is not None and sa == sb else None
    if k == "pow":
        e = S.const_of(t.a[1])
        sa = rec(t.a[0])
        if e is None or e.denominator != 1 or not sa:
            return None
        return sa ** int(abs(e))
    return None


def _pins_components(c, box):
    """Does the condition c mention the box (its bounds, their container, a point of it) outside an aggregate over all components (inner
    product, norm)?  Such a test may constrain single components (`lower <= x - alpha*g`), and then the path need not be open to the witness,
    whose box is degenerate in some component only; a test on aggregates (`s@s > radius**2`, the model decrease) leaves every single
    component free."""
    keys = {box[0].key, box[1].key}
    for b in box:
        if b.k == "col" and isinstance(b.a[0], S.T):
            keys.add(b.a[0].key)
    seen = set()

    def walk(x):
        if isinstance(x, S.T):
            if x.key in seen:
                return False
            seen.add(x.key)
            if x.k in ("dot", "norm"):
                return False
            if x.key in keys:
                return True
            if x.k in S.F_KINDS:
                b = S.box_of(x)
                if b is not None and (b[0].key in keys or b[1].key in keys):
                    return True
            if x.k == "num":
                return any(walk(term(a)) for a in x.a[0].atoms())
            return any(walk(y) for y in x.a)
        if isinstance(x, (tuple, list)):
            return any(walk(y) for y in x)
        return False
    return walk(c)


def _degenerate_witness(leaf, box, I, conds=()):
    """The term D != 0 with  leaf == p + D  on the degenerate box, when a non-zero sign of D is derived for the positive input; else None.
    conds: the conditions under which the value is built; none of them may pin single components against the box."""
    if leaf.k == "ite" or not S.is_num(leaf) or not S.understood(leaf):
        return None
    if any(_pins_components(c, box) for (c, _) in conds):
        return None
    try:
        d = S.sub(_degenerate(leaf, box), _POINT)
        if d.k == "ite":
            return None
        sg = _witness_sign(d, box, I, {})
    except RecursionError:
        return None
    return d if sg in (1, -1) else None


def _interp(ctx, **kw):
    I = S.Interp(ctx, inline=lambda s: not getattr(s.module, "is_test", False), max_depth=9, **kw)
    I.compact_above = 1
    return I


def _all_events(I):
    """Events of the final pass plus, for every loop, those of its first iteration (executed on the exact initial values)."""
    out, seen = [], set()
    for e in list(I.events) + [e for r in I.loops.values() for e in r.first_events]:
        if id(e) not in seen:
            seen.add(id(e))
            out.append(e)
    return out


def _flow_defs(I, value):
    """The assignments whose value *flows into* `value`, found on the terms (not on the syntax): an assignment (in any inlined frame) whose
    value is one of the cases of `value`; for a case that is the loop-head value of a carried variable the initial and back-edge
    values of that variable; for a case abstracted at a merge the cases that were merged.  Copies, tuple unpacking,
    helper functions that compute or hand on the value and conditional assignments need no special treatment: the term is the same.
    -> [(statement node, variable name, scope, [events of that statement for that variable, first iterations included])]"""
    allev = [e for e in _all_events(I) if e["kind"] == "assign"]
    by_leaf = {}
    for e in allev:
        for (_, l) in leaves(e["value"]):
            by_leaf.setdefault(l.key, []).append(e)
    heads = {}
    for r in I.loops.values():
        for name, h in r.head.items():
            if isinstance(name, str) and r.status.get(name) != "same":
                for (_, hl) in leaves(h):
                    heads.setdefault(hl.key, []).append((r, name))
    seen_leaf, found = set(), {}
    work = [l for (_, l) in leaves(value)]
    while work:
        l = work.pop()
        if l.key in seen_leaf:
            continue
        seen_leaf.add(l.key)
        for e in by_leaf.get(l.key, []):
            found.setdefault((id(e["node"]), e["name"]), (e["node"], e["name"], e["scope"]))
        # the case IS the loop-head value of a carried variable / a value abstracted at a merge: same role, follow its sources
        for (r, name) in heads.get(l.key, []):
            for v in (r.init.get(name), r.back.get(name)):
                if v is not None and v is not S.UNBOUND:
                    work.extend(x for (_, x) in leaves(v))
        for c in I.compacted.get(l.key, []):
            work.extend(x for (_, x) in leaves(c))
    out = []
    for (nid, name), (node, nm, scope) in found.items():
        evs = [e for e in allev if e["node"] is node and e["name"] == nm]
        out.append((node, nm, scope, evs))
    out.sort(key=lambda x: (getattr(x[0], "lineno", 0), x[1]))
    return out


def _txt(st, n=60):
    try:
        return ast.unparse(st).split("\n")[0][:n]
    except Exception:
        return "?"


def d3_feasible(ctx):
    rule = RULE9
    B = mk("sym", "bounds")
    box = _box(B)
    # ---- project returns a box point of [bounds[:,0], bounds[:,1]]
    pj = ctx.need(f"{SPG}:project")
    pp = pj.params()
    Bp = mk("sym", pp[1])
    I = _interp(ctx)
    I.compact_above = 10 ** 6
    res, fr = I.run(pj, {})
    for ev in [e for e in I.events if e["kind"] == "return" and e["frame"] == fr.id]:
        ok, why = _in_box(ev["value"], _box(Bp), interp=I, pc=ev["pc"])
        if ok is True:
            ls = [l for (_, l) in leaves(ev["value"])]
            if not all(l.k == "clamp" for l in ls):
                ok, why = None, f"`{S.brief(ev['value'], 100, 3)}` is feasible but not a single clamp (closest point not decided)"
            elif not all(l.a[0].key == mk("sym", pp[0]).key for l in ls):
                ok = False if S.understood(ev["value"]) and S.no_carried_unknown(ev["value"]) else None
                why = f"`{S.brief(ev['value'], 100, 3)}` clamps something else than the argument `{pp[0]}`"
        ctx.decide(rule, ok, pj, ev["node"], construct="project-is-clamp",
                   detail=f"returns the argument clamped between {pp[1]}[:,0] and {pp[1]}[:,1]",
                   bad_detail=f"project returns {why or show(ev['value'])[:120]}: not max(lower, min(x, upper)) with lower={pp[1]}[:,0], upper={pp[1]}[:,1]")
    # ---- bounds = column_stack((scaled lower, scaled upper)) in solve, scaled like the start point
    sv = ctx.need(f"{SPG}:solve")
    drv = ctx.need(f"{SPG}:{DRIVER}")
    dps = drv.params()
    sps = sv.params()
    lowp = [p for p in sps if "lower" in p.lower()] or sps[3:4]
    upp = [p for p in sps if "upper" in p.lower()] or sps[4:5]
    if len(lowp) != 1 or len(upp) != 1:
        raise Incomplete("solve(): lower/upper bound parameters not identified")
    I, fr, _ = TR.solve_run(ctx, SPG, "solve", drv)
    calls = [e for e in I.events if e["kind"] == "call" and e.get("callee_scope") is drv]
    if not calls:
        raise Incomplete("solve(): call of the minimizer not found")
    for e in calls:
        b = (e.get("bound") or {})
        bt, x0t = b.get(dps[2]), b.get(dps[1])
        ok, shown = False, "?"
        if bt is not None and x0t is not None:
            lo, hi = S.col(bt, 0), S.col(bt, 1)
            cl, cu = _factor(lo, mk("sym", lowp[0])), _factor(hi, mk("sym", upp[0]))
            cx = _coefficient(x0t, mk("sym", sps[1]))
            shown = f"lower column `{show(lo)[:60]}`, upper column `{show(hi)[:60]}`, start point `{show(x0t)[:80]}`"
            if cl is None and cu is None and _factor(lo, mk("sym", upp[0])) is not None and _factor(hi, mk("sym", lowp[0])) is not None:
                ok = False         # the lower column is built from the upper bounds and vice versa
                shown += " (columns exchanged)"
            elif cl is None or cu is None or cx is None:
                ok = None          # a form of scaling this rule does not read
            else:
                ok = cl == cu == cx and not cl.is_zero()
                if not ok and not S.understood(lo, hi, x0t):
                    ok = None
        else:
            ok = None
        ctx.decide(rule, ok, sv, e["node"], construct="bounds-columns-and-scaling",
                   detail="bounds = column_stack((scaling*lower, scaling*upper)) with the scaling of the start point",
                   bad_detail=f"bounds passed to the minimizer: {shown}; expected columns (c*{lowp[0]}, c*{upp[0]}) with the factor c that scales the start point {sps[1]}")
    # ---- project_onto_tr returns only box points
    pt = ctx.need(f"{SPG}:project_onto_tr")
    I = _interp(ctx)
    Bt = mk("sym", pt.params()[2])
    res, fr = I.run(pt, {})
    for ev in [e for e in I.events if e["kind"] == "return" and e["frame"] == fr.id]:
        ok, why = _in_box(ev["value"], _box(Bt), interp=I, pc=ev["pc"])
        ctx.decide(rule, ok, pt, ev["node"], construct=f"project_onto_tr-return:{_txt(ev['node'].value, 40) if ev['node'].value is not None else ''}",
                   detail="returns a box projection",
                   bad_detail=f"project_onto_tr returns {why}, which is not a box projection (the point may leave the feasible set)")
    # ---- generalized Cauchy point: x + step is a box point, for every definition of the step that reaches the return
    gc = ctx.need(f"{SPG}:find_generalized_cauchy_point")
    gps = gc.params()
    Bg = mk("sym", gps[3])
    Xg = mk("feas", gps[0], *_box(Bg))
    I = _interp(ctx)
    res, fr = I.run(gc, {gps[0]: Xg})
    _step_function(ctx, I, fr, gc, 1, Xg, _box(Bg), "cauchy", f"{gps[0]} + step is a box projection")
    # ---- SPG subproblem: x + z stays a convex combination of box points
    sp = ctx.need(f"{SPG}:solve_spg_subproblem")
    ss = sp.params()
    Bs = mk("sym", ss[3])
    Xs = mk("feas", ss[0], *_box(Bs))
    Cs = mk("feas", f"{ss[0]}+{ss[1]}", *_box(Bs))
    I = _interp(ctx)
    res, fr = I.run(sp, {ss[0]: Xs, ss[1]: S.sub(Cs, Xs)})
    _step_function(ctx, I, fr, sp, 0, Xs, _box(Bs), "spg", f"{ss[0]} + step is a convex combination of box points")
    _step_lengths(ctx, I, fr, sp, Xs, _box(Bs))
    # every projection onto box-and-trust-region made for the subproblem is centred at the subproblem's x, with its bounds and radius
    pcalls = [e for e in I.events if e["kind"] == "call" and e.get("callee_scope") is pt and e.get("bound")]
    seen = set()
    for e in pcalls:
        key = (e["scope"].qualname, getattr(e["node"], "lineno", 0))
        if key in seen:
            continue
        seen.add(key)
        b = e["bound"]
        tp = pt.params()
        centre, bnds, radius = b.get(tp[1]), b.get(tp[2]), b.get(tp[3])
        def agrees(got, want):
            """True: the same term; False: another fully understood value (a derived difference); None: not read by this analysis"""
            if got is None:
                return None
            if S.same(got, want):
                return True
            return False if S.understood(got) and S.no_carried_unknown(got) else None
        parts = [agrees(centre, Xs), agrees(bnds, Bs), agrees(radius, mk("sym", ss[6])) if len(ss) > 6 else None]
        ctx.decide(rule, False if False in parts else (None if None in parts else True), e["scope"], e["node"],
                   construct=f"spg:projection-centre:{_txt(e['node'], 50)}",
                   detail=f"project_onto_tr(., {ss[0]}, {ss[3]}, {ss[6] if len(ss) > 6 else '?'})",
                   bad_detail=f"the projection is made around `{S.brief(centre, 60, 2) if centre is not None else '?'}` with bounds `{S.brief(bnds, 40, 2) if bnds is not None else '?'}` "
                              f"and radius `{S.brief(radius, 40, 2) if radius is not None else '?'}`; expected the subproblem's {ss[0]}, {ss[3]} and {ss[6] if len(ss) > 6 else 'radius'} "
                              f"(the step would be measured from another centre or leave the trust region)")
    # ---- the driver with everything inlined: trial point, iterate (by induction) and returned points are box points
    Bd = mk("sym", dps[2])
    X0 = mk("feas", dps[1], *_box(Bd))
    I = _interp(ctx)
    res, fr = I.run(drv, {dps[1]: X0})
    if I.notes:
        raise Incomplete(I.notes[0])
    R = TR.get_run(ctx, SPG, DRIVER)
    accepts = [e for e in I.events if e["frame"] == fr.id and e["kind"] == "assign" and e["name"] == R.iterate
               and any(n is e["node"] for n in ast.walk(R.loop.node))]
    if not accepts:
        ctx.undecided(rule, drv, None, construct="driver:trial-point", detail="replacement of the iterate not found")
    for e in accepts:
        ok, why = _in_box(e["value"], _box(Bd), interp=I, pc=e["pc"])
        if ok is not False:
            # the first iteration of the main loop starts from the feasible start itself (exact values, no induction hypothesis)
            for f in _all_events(I):
                if f is not e and f["kind"] == "assign" and f["node"] is e["node"] and f["name"] == e["name"] and f["frame"] == fr.id:
                    o1, w1 = _in_box(f["value"], _box(Bd), interp=I, pc=f["pc"])
                    if o1 is False:
                        ok, why = False, w1 + " (first iteration)"
        ctx.decide(rule, ok, drv, e["node"], construct="driver:trial-point",
                   detail=f"the accepted point is a convex combination of projections onto `{dps[2]}` (Cauchy step and SPG step computed for the iterate)",
                   bad_detail=f"the accepted point is {why}; it is not provably inside `{dps[2]}`")
    for e in [e for e in I.events if e["frame"] == fr.id and e["kind"] == "return"]:
        ptv, _ = TR._point_flag(e["value"])
        if ptv is None:
            continue
        ok, why = _in_box(ptv, _box(Bd), interp=I, pc=e["pc"])
        ctx.decide(rule, ok, drv, e["node"], construct=f"driver:returned-point:{TR._short(e['node'])}",
                   detail="the returned point is the feasible start, a box point or the iterate (a box point by induction over the main loop)",
                   bad_detail=f"the returned point is {why}; it is not provably inside `{dps[2]}`")


# ------------------------------------------------------------------ D3 the bracket handed to a bracketing root finder

RULE_BRACKET = "D3/T2-root-finder-bracket"
_NONNEG_KINDS = ("norm", "sqrt", "abs")


def _syntactic_sign(p):
    """(certainly >= 0, certainly <= 0) of a polynomial over atoms: every monomial is a product of even powers / squared lengths /
    norms, so its sign is the sign of its coefficient."""
    ge = le = True
    for m, c in p.t.items():
        for (a, e) in m:
            t = term(a)
            if e % 2 and not (t.k in _NONNEG_KINDS or (t.k == "dot" and t.a[0].key == t.a[1].key)):
                return False, False
        if c > 0:
            le = False
        elif c < 0:
            ge = False
    return ge, le


def _ordering_facts(lits):
    """[(D, strict)]: polynomials D with D > 0 (strict) / D >= 0 on a path, read off the ordered comparisons among its literals
    (NaN operands are the business of D4, not of this rule)."""
    out = []
    for (c, pol) in lits:
        if c.k != "cmp" or c.a[0] not in ("lt", "le") or not (S.is_num(c.a[1]) and S.is_num(c.a[2])):
            continue
        a, b = poly(c.a[1]), poly(c.a[2])
        if pol:
            out.append((b - a, c.a[0] == "lt"))
        else:
            out.append((a - b, c.a[0] == "le"))
    return out


def _end_sign(v, facts):
    """(v >= 0 is implied, v <= 0 is implied) by the facts of the path, for the value v of the callable at one bracket end"""
    if v is None or not S.is_num(v):
        return False, False
    p = poly(v)
    ge, le = _syntactic_sign(p)
    for (D, _strict) in facts:
        if _syntactic_sign(p - D)[0]:          # v = D + (something >= 0) with D >= 0
            ge = True
        if _syntactic_sign(p + D)[1]:          # v = -D + (something <= 0)
            le = True
    return ge, le


def _scalar_value(t, val, memo):
    """Exact value of a term in a ONE-dimensional instance (every vector has one component, `@` is the product); None when the term
    has a part this evaluator has no model for.  val: key of an input term -> Fraction."""
    from fractions import Fraction
    if t.key in val:
        return val[t.key]
    if t.key in memo:
        return memo[t.key]
    k, r = t.k, None
    if k == "num":
        r = Fraction(0)
        for m, c in t.a[0].t.items():
            x = Fraction(c)
            for (a, e) in m:
                y = _scalar_value(term(a), val, memo)
                if y is None:
                    x = None
                    break
                x *= y ** e
            if x is None:
                r = None
                break
            r += x
    elif k in ("clamp", "dot", "min", "max", "norm", "abs"):
        ops = list(t.a[0]) if k in ("min", "max") else list(t.a)
        xs = [_scalar_value(o, val, memo) for o in ops]
        if all(x is not None for x in xs):
            if k == "clamp":
                r = max(xs[1], min(xs[0], xs[2]))
            elif k == "dot":
                r = xs[0] * xs[1]
            elif k == "min":
                r = min(xs)
            elif k == "max":
                r = max(xs)
            else:
                r = abs(xs[0])
    memo[t.key] = r
    return r


def _bracket_witness(fa, fb, lits, roles):
    """A one-dimensional admissible input (lower <= centre <= upper, radius > 0) on which every literal of the path holds and the
    callable has the same strict sign at both bracket ends, or None.  roles: (trial point, centre, bounds, radius) input terms."""
    from fractions import Fraction as F
    from itertools import product
    x, xk, B, tr = roles
    lo, hi = _box(B)
    inputs = {x.key, xk.key, B.key, lo.key, hi.key, tr.key}
    free = set()
    for t in [fa, fb] + [c for (c, _) in lits]:
        for a in S.atoms_of(t):
            ta = term(a)
            if ta.k in ("sym", "col", "sub", "item", "attr", "feas", "phiF", "call", "opq", "unk", "root") and a not in inputs:
                free.add(a)
    if free or any(c.k != "cmp" or c.a[0] not in ("lt", "le", "eq") for (c, _) in lits):
        return None
    grid = [F(-3), F(-1), F(0), F(1, 2), F(1), F(3)]
    for (l, h), r, c, p in product([(F(-1), F(1)), (F(0), F(1)), (F(0), F(0))], [F(2), F(1), F(1, 2)], grid, grid):
        if not (l <= c <= h):
            continue
        val = {x.key: p, xk.key: c, lo.key: l, hi.key: h, tr.key: r}
        memo = {}
        ok = True
        for (cnd, pol) in lits:
            u, v = _scalar_value(cnd.a[1], val, memo), _scalar_value(cnd.a[2], val, memo)
            if u is None or v is None:
                return None
            holds = {"lt": u < v, "le": u <= v, "eq": u == v}[cnd.a[0]]
            if holds != pol:
                ok = False
                break
        if not ok:
            continue
        va, vb = _scalar_value(fa, val, memo), _scalar_value(fb, val, memo)
        if va is None or vb is None:
            return None
        if va * vb > 0:
            return dict(point=p, centre=c, lower=l, upper=h, radius=r, fa=va, fb=vb)
    return None


def _finder_calls(ctx, scope):
    """call nodes of `scope` (nested defs included) whose callee resolves to a bracketing root finder of an external library"""
    out = []
    for s in [scope] + list(scope.descendants()):
        for n in S.walk_local(s.node):
            if isinstance(n, ast.Call):
                for v in ctx.repo.resolve(n.func, s):
                    if isinstance(v, S.ExtVal) and v.name.split(".")[-1] in S._ROOT_FINDERS:
                        out.append(n)
                        break
    return out


def d3_root_bracket(ctx):
    """Every call `finder(f, a, b)` of a bracketing root finder reached in the projection onto box-and-trust-region (and in any
    other function of the module) is made with f(a), f(b) of opposite (weak) signs on every path that reaches it: otherwise the
    finder raises and NO point is returned."""
    rule = RULE_BRACKET
    pt = ctx.need(f"{SPG}:project_onto_tr")
    tp = pt.params()
    if len(tp) < 4:
        raise Incomplete("project_onto_tr: (point, centre, bounds, radius) parameters not identified")
    roles = tuple(mk("sym", p) for p in tp[:4])
    x, xk, B, tr = roles
    lo, hi = _box(B)
    centre_fix = {mk("clamp", xk, lo, hi).key: xk}
    covered = set()

    def judge(I, scope_top, with_roles):
        seen = set()
        for e in [e for e in _all_events(I) if e["kind"] == "rootfind"]:
            covered.add(id(e["node"]))
            fa, fb = e["fa"], e["fb"]
            key = (id(e["node"]), tuple((c.key, p) for (c, p) in e["pc"]), fa.key if fa is not None else None, fb.key if fb is not None else None)
            if key in seen:
                continue
            seen.add(key)
            construct = f"bracket:{_txt(e['node'], 60)}"
            if fa is None or fb is None:
                ctx.undecided(rule, e["scope"], e["node"], construct=construct,
                              detail="the callable handed to the root finder could not be evaluated at the bracket ends")
                continue
            if with_roles:
                fa, fb = S.subst(fa, centre_fix), S.subst(fb, centre_fix)
                if fa.key != e["fa"].key or fb.key != e["fb"].key:
                    ctx.assume(f"project({tp[1]}, {tp[2]}) == {tp[1]}: the centre of the trust region is a feasible iterate (used for the bracket of the root finder)")
            verdict, detail = True, ""
            for lits in S.pc_scenarios(e["pc"]):
                if with_roles:
                    lits = [(S.subst(c, centre_fix), p) for (c, p) in lits]
                facts = _ordering_facts(lits)
                (age, ale), (bge, ble) = _end_sign(fa, facts), _end_sign(fb, facts)
                if (ale and bge) or (age and ble):
                    continue
                verdict = None
                detail = (f"f({S.brief(e['a'], 20, 2)}) = `{S.brief(fa, 90, 3)}` and f({S.brief(e['b'], 20, 2)}) = `{S.brief(fb, 90, 3)}`: opposite signs are not implied by the "
                          f"conditions under which the call is reached ({'; '.join(('' if p else 'not ') + S.brief(c, 80, 3) for (c, p) in lits) or 'none'})")
                if with_roles and S.understood(fa, fb, *[c for (c, _) in lits]) and S.no_carried_unknown(fa, fb):
                    w = _bracket_witness(fa, fb, lits, roles)
                    if w is not None:
                        verdict = False
                        detail += (f"; witness (1-D): {tp[1]} = {w['centre']}, {tp[2]} = [{w['lower']}, {w['upper']}], {tp[0]} = {w['point']}, {tp[3]} = {w['radius']}: the call is reached, "
                                   f"f({S.brief(e['a'], 20, 2)}) = {w['fa']} and f({S.brief(e['b'], 20, 2)}) = {w['fb']} have the same sign, the root finder raises and no point is returned")
                break
            ctx.decide(rule, verdict, e["scope"], e["node"], construct=construct,
                       detail="the guard that lets the call be reached makes f change sign over the bracket (f at one end is the negated guard, at the other -radius^2)",
                       bad_detail=detail)

    I = _interp(ctx)
    I.run(pt, {})
    judge(I, pt, True)
    # any other function of the module with a bracketing root finder of its own: only what its own path conditions imply
    mod = ctx.need_module(SPG)
    for sc in mod.scope.descendants():
        if sc.kind != "function" or sc is pt or sc.parent is None or sc.parent.kind not in ("module", "class"):
            continue
        calls = [n for n in _finder_calls(ctx, sc) if id(n) not in covered]
        if not calls:
            continue
        I = _interp(ctx)
        I.run(sc, {})
        judge(I, sc, False)
        for n in calls:
            if id(n) not in covered:
                ctx.undecided(rule, sc, n, construct=f"bracket:{_txt(n, 60)}", detail="the call of the root finder was not reached by the symbolic execution")


def _factor(t, sym):
    """t == c * sym -> Poly c (in the other atoms) else None"""
    if not S.is_num(t) or t.k == "ite":
        return None
    p = poly(t)
    if len(p.t) != 1:
        return None
    return _coefficient(t, sym)


def _coefficient(t, sym):
    """coefficient polynomial of the first-degree occurrences of sym in the polynomial t (None when sym occurs otherwise or not at all)"""
    from optilint.expr import Poly
    if t.k == "ite":
        cs = [_coefficient(l, sym) for (_, l) in leaves(t)]
        return cs[0] if cs and all(c is not None and c == cs[0] for c in cs) else None
    if not S.is_num(t):
        return None
    c = Poly()
    found = False
    for m, k in poly(t).t.items():
        d = dict(m)
        if sym.key in d:
            if d[sym.key] != 1:
                return None
            found = True
            c = c + Poly({tuple((a, e) for (a, e) in m if a != sym.key): k})
    return c if found else None


def _step_function(ctx, I, fr, scope, index, X, box, tag, what):
    """Function returning (.., step, ..): every return satisfies X + step in box (the returned value is a decision tree over all the
    paths to the return, loops solved by induction), and so does every definition whose value flows into a returned step -- also
    inside helpers and on the first iteration of every loop, where the values are the exact initial ones."""
    rule = RULE9
    rets = [e for e in I.events if e["kind"] == "return" and e["frame"] == fr.id]
    if not rets:
        ctx.undecided(rule, scope, None, construct=f"{tag}-return", detail="no return")
    done = set()
    for ev in rets:
        v = ev["value"]
        step = item(v, index)
        ok, why = _in_box(step, box, offset=X, interp=I, pc=ev["pc"])
        ctx.decide(rule, ok, scope, ev["node"], construct=f"{tag}-return:{_txt(ev['node'], 50)}", detail=what,
                   bad_detail=f"the step returned here gives the point {why}")
        for (st, name, sc, evs) in _flow_defs(I, step):
            if (id(st), name) in done or not isinstance(st, ast.stmt) or isinstance(st, (ast.For, ast.While)):
                continue
            done.add((id(st), name))
            verdict, why = True, ""
            for e in evs:
                o, w = _in_box(e["value"], box, offset=X, interp=I, pc=e["pc"])
                if o is False and verdict is not False:
                    first = any(e is f for r in I.loops.values() for f in r.first_events) and not any(e is f for f in I.events)
                    verdict, why = o, w + (" (first iteration)" if first else "")
                elif o is None and verdict is True:
                    verdict, why = o, w
            ctx.decide(rule, verdict, sc, st, construct=f"{tag}-step:{_txt(st)}", detail=what,
                       bad_detail=f"a definition of the step that reaches the return, `{_txt(st, 80)}`, gives the point {why}")


def _step_lengths(ctx, I, fr, scope, X, box):
    """The weight a step update gives to the newly projected point is the step length: each of its definitions is bounded by 1.
    Looked at on the first iteration of each loop (exact initial values) and on the final pass."""
    rule = RULE9
    seen = set()
    sources = [[e for e in r.first_events if e["frame"] == fr.id] for r in I.loops.values() if r.frame == fr.id]
    sources.append([e for e in I.events if e["frame"] == fr.id])
    for evs in sources:
        assigns = [e for e in evs if e["kind"] == "assign"]
        for e in assigns:
            old, new = e.get("old"), e["value"]
            if old is None or old is S.UNBOUND:
                continue
            if not all(S.is_num(l) for (_, l) in leaves(old)) or not all(S.is_num(l) for (_, l) in leaves(new)):
                continue
            oldc = leaves(S.add(old, X))
            oldp = [l for (_, l) in oldc]
            fo = {a for l in oldp for a in poly(l).atoms() if term(a).k in S.F_KINDS}
            if not fo or not all(convex(l, facts=cs).ok for (cs, l) in oldc):
                continue                       # not an update of a feasible point
            weights = []                       # (conditions, weight term) of the newly projected point, per case
            for (cs, l) in leaves(S.add(new, X)):
                for m, c in poly(l).t.items():
                    fs = [a for (a, _) in m if term(a).k in S.F_KINDS]
                    if len(fs) == 1 and fs[0] not in fo:
                        weights.append((cs, S.num(type(poly(l))({tuple((a, k) for (a, k) in m if a != fs[0]): c}))))
            if not weights:
                continue
            failing = {}
            for (cs, w) in weights:
                lo, hi = S.interval(w, None, cs)
                if hi > 1:
                    failing[w.key] = w
            wkeys = {w.key for (_, w) in weights}
            named = False
            for d in assigns:
                dl = [l for (_, l) in leaves(d["value"])]
                if not dl or not all(l.key in wkeys for l in dl) or d["node"] is e["node"]:
                    continue
                named = True
                if id(d["node"]) in seen:
                    continue
                seen.add(id(d["node"]))
                bad = [failing[l.key] for l in dl if l.key in failing]
                verdict = True if not bad else (None if not (S.understood(*bad) and S.no_carried_unknown(*bad)) else False)
                ctx.decide(rule, verdict, scope, d["node"], construct=f"spg:step-length<=1:{_txt(d['node'])}",
                           detail=f"the step length defined by `{_txt(d['node'], 70)}` is bounded by 1 wherever it weights a new projected point",
                           bad_detail=(f"the step length defined by `{_txt(d['node'], 90)}` can be `{S.brief(bad[0], 140, 3)}`, which is not bounded by 1; "
                                       f"x+z+alpha*s can overshoot the projected point and leave the box / trust region") if bad else "")
            if not named and id(e["node"]) not in seen:
                # an update whose weight is not a named step length: judge the weight itself
                seen.add(id(e["node"]))
                bad = list(failing.values())
                verdict = True if not bad else (None if not (S.understood(*bad) and S.no_carried_unknown(*bad)) else False)
                ctx.decide(rule, verdict, scope, e["node"], construct=f"spg:step-length<=1:{_txt(e['node'])}",
                           detail=f"the weight `{_txt(e['node'], 70)}` gives to the new projected point is bounded by 1",
                           bad_detail=(f"in `{_txt(e['node'], 90)}` the weight of the new projected point can be `{S.brief(bad[0], 140, 3)}`, which is not bounded by 1") if bad else "")


# ------------------------------------------------------------------ T6: drivers agree on acceptance

def t6_siblings(ctx):
    rule = "T6-drivers-agree-on-acceptance"
    R1 = TR.get_run(ctx, SPG, DRIVER)
    R2 = TR.get_run(ctx, "optimism.EquationSolver", "trust_region_minimize")
    t1, t2 = TR.accept_table(ctx, R1), TR.accept_table(ctx, R2)
    if len(t1) != 1 or len(t2) != 1:
        ctx.undecided(rule, R1.scope, None, construct="acceptance-shape", detail=f"{len(t1)} / {len(t2)} places where the iterate is replaced")
        return
    a, b = t1[0], t2[0]
    diff = [k for k in a if a[k] is not None and b.get(k) is not None and a[k] != b[k]]
    unknown = [k for k in a if a[k] is None or b.get(k) is None]
    show_ = lambda t: ", ".join(f"{k[0]}{'' if k[1] else ' and no decrease of the optimality measure'}" for k in t if t[k])
    ctx.decide(rule, False if diff else (None if unknown else True), R1.scope, None, construct="acceptance-shape",
               detail=f"both drivers accept exactly when: {show_(a)}",
               bad_detail=(f"acceptance rules differ for [{diff[0][0]}, optimality measure {'decreased' if diff[0][1] else 'not decreased'}]: the bound-constrained driver "
                           f"{'accepts' if a[diff[0]] else 'rejects'}, the unconstrained driver {'accepts' if b[diff[0]] else 'rejects'}") if diff else
               f"the acceptance condition could not be evaluated for {unknown[:3]}")


def _chain(*pairs):
    """Edit: apply every (old, new) replacement; each `old` must occur exactly once, else the variant is inapplicable."""
    def f(src):
        for old, new in pairs:
            if src.count(old) != 1:
                return None
            src = src.replace(old, new)
        return src
    return f


_REFACTOR_A = [
    ('def bound_constrained_trust_region_minimize(objective, x, bounds, settings, callback=None):',
     "def _reduction_ratio(realObjective, modelObjective):\n    modelImprove = -modelObjective\n    realImprove = -realObjective\n    if modelObjective > 0:\n        print('Model objective increased.  Debug if you see this.')\n        return realImprove / -modelImprove\n    return realImprove / modelImprove\n\n\ndef _updated_trust_region_size(trSize, rho, stepType, settings):\n    if not rho >= settings.eta2:  # write it this way to handle NaNs\n        return trSize * settings.t1\n    if rho > settings.eta3 and is_on_boundary(stepType):\n        return trSize * settings.t2\n    return trSize\n\n\ndef _step_is_acceptable(rho, optimality, previousOptimality, settings):\n    sufficientDecrease = rho >= settings.eta1\n    optimalityDecrease = rho >= 0 and optimality <= previousOptimality\n    return sufficientDecrease or optimalityDecrease\n\n\ndef bound_constrained_trust_region_minimize(objective, x, bounds, settings, callback=None):"),
    ("        modelImprove = -modelObjective\n        realImprove = -realObjective\n\n        rho = realImprove / modelImprove\n\n        if modelObjective > 0:\n            print('Model objective increased.  Debug if you see this.')\n            rho = realImprove / -modelImprove\n            #exit(1)\n            \n        if not rho >= settings.eta2:  # write it this way to handle NaNs\n            trSize *= settings.t1\n        elif rho > settings.eta3 and is_on_boundary(stepType):\n            trSize *= settings.t2\n\n        willAccept = rho >= settings.eta1 or (rho >= 0 and realOptimality <= prevOptimality)\n",
     '        rho = _reduction_ratio(realObjective, modelObjective)\n        trSize = _updated_trust_region_size(trSize, rho, stepType, settings)\n        willAccept = _step_is_acceptable(rho, realOptimality, prevOptimality, settings)\n'),
    ('        y = x + s\n        realObjective = incremental_objective(s)\n        gy = gradient(y)\n        R = project(y - gy, bounds) - y\n        realOptimality = np.linalg.norm(R)\n',
     '        xTrial = s + x\n        realObjective = incremental_objective(s)\n        gTrial = objective.gradient(xTrial)\n        realOptimality = np.sqrt((xTrial - project(xTrial - gTrial, bounds))@(xTrial - project(xTrial - gTrial, bounds)))\n'),
    ('        if is_converged(objective, y, realObjective, modelObjective,\n                        realOptimality, modelOptimality, spgIters, trSizeUsed,\n                        settings):\n            if callback: callback(y, objective)\n            return y, True\n',
     '        converged = is_converged(objective, xTrial, realObjective, modelObjective,\n                                 realOptimality, modelOptimality, spgIters, trSizeUsed,\n                                 settings)\n        if converged:\n            if callback:\n                callback(xTrial, objective)\n            result = (xTrial, True)\n            return result\n'),
    ('        if willAccept:\n            x = y\n            g = gy\n            o = objective.value(x)\n',
     '        if not willAccept:\n            pass\n        else:\n            x, g = xTrial, gTrial\n            o = objective.value(xTrial)\n'),
]

_REFACTOR_B = [
    ('    z = cauchyStep\n    xNew = x + z\n    Bz = hess_vec_func(z)\n    d = r + Bz\n    q = r@z + 0.5*z@Bz\n    chi2 = subproblem_optimality(xNew, x, d, bounds, trSize)\n',
     '    z = cauchyStep\n    Bz = hess_vec_func(z)\n    d = r + Bz\n    q = r@z + 0.5*z@Bz\n    chi = project_onto_tr(x + z - d, x, bounds, trSize) - (x + z)\n    chi2 = chi@chi\n'),
    ('    line_search = nonmonotone_line_search if settings.spg_use_nonmonotone else kouri_exact_line_search\n',
     ''),
    ('        s = project_onto_tr(xNew - lam*d, x, bounds, trSize) - xNew\n',
     '        base = x + z\n        target = project_onto_tr(base - lam*d, xk=x, bounds=bounds, trSize=trSize)\n        s = target - base\n'),
    ('        alpha = line_search(ds, sBs, q, qMax, settings)\n        alpha = min(1.0, alpha) if sBs > 0 else 1.0\n\n        z += alpha*s\n        d += alpha*Bs\n        q += alpha*(ds + 0.5*alpha*sBs)\n        xNew = x + z\n\n        chi2 = subproblem_optimality(xNew, x, d, bounds, trSize)\n',
     '        if sBs > 0:\n            if settings.spg_use_nonmonotone:\n                stepLength = nonmonotone_line_search(ds, sBs, q, qMax, settings)\n            else:\n                stepLength = kouri_exact_line_search(ds, sBs, q, qMax, settings)\n            if stepLength > 1.0:\n                stepLength = 1.0\n        else:\n            stepLength = 1.0\n\n        z = z + stepLength*s\n        d = d + stepLength*Bs\n        q += stepLength*(ds + 0.5*stepLength*sBs)\n\n        chi2 = subproblem_optimality(x + z, x, d, bounds, trSize)\n'),
]

_REFACTOR_C = [
    ('    lb = bounds[:,0]\n    ub = bounds[:,1]\n    x = np.maximum(lb, np.minimum(x, ub))\n    return x\n',
     '    return np.clip(x, bounds[:,0], bounds[:,1])\n'),
    ("    d = project(x, bounds) - xk\n    dd = d@d\n    if dd <= trSize*trSize:\n        return project(x, bounds)\n\n    def f(t):\n        r = project(xk + t*(x - xk), bounds) - xk\n        return r@r - trSize*trSize\n\n    #t = ScalarRootFind.rtsafe(f, x, np.array([0.0, 1.0]), rtsafeSettings)\n    t, results = optimize.brentq(f, 0.0, 1.0, full_output=True)\n    # print('Brent method iterations', results.iterations)\n    #if not results.converged:\n    #    raise RuntimeError('TrustRegionSPG: Root finder failed')\n    return project(xk + t*(x - xk), bounds)\n",
     '    xp = project(x, bounds)\n    d = xp - xk\n    if d@d > trSize*trSize:\n        ray = lambda t: project((1 - t)*xk + t*x, bounds)\n        residual = lambda t: (ray(t) - xk)@(ray(t) - xk) - trSize**2\n        t, results = optimize.brentq(residual, 0.0, 1.0, full_output=True)\n        xp = ray(t)\n    return xp\n'),
    ("        i = 0\n        search = True\n        while search:\n            # print('i', i)\n            alpha *= cutback\n            s = project(x - alpha*g, bounds) - x\n            i += 1\n            search = m(s) > mu0*g@s and i < maxLineSearchIters\n        if i == maxLineSearchIters:\n",
     '        i = 0\n        while True:\n            alpha = alpha*cutback\n            xProj = project(x - alpha*g, bounds)\n            s = xProj - x\n            i += 1\n            if not (m(s) > mu0*g@s and i < maxLineSearchIters):\n                break\n        if i == maxLineSearchIters:\n'),
]

_REFACTOR_D = [
    ('    xBar0 = objective.scaling * x0\n    lBar = objective.scaling * lowerBounds\n    uBar = objective.scaling * upperBounds\n',
     '    scaling = objective.scaling\n    xBar0 = x0 * scaling\n'),
    ('    bounds = np.column_stack((lBar, uBar))\n        \n    xBar, solverSuccess = bound_constrained_trust_region_minimize(objective, xBar0, bounds, settings,\n                                                   callback=callback)\n',
     '    xBar, solverSuccess = bound_constrained_trust_region_minimize(\n        objective, xBar0, settings=settings, callback=callback,\n        bounds=np.column_stack((scaling*lowerBounds, upperBounds*scaling)))\n'),
]

_REFACTOR_E = [
    ('    if realOptimality < settings.tol:\n        print_min_banner(realO,',
     '    converged = realOptimality < settings.tol\n    if converged:\n        print_min_banner(realO,'),
    ("        print('') # a bit of output formatting\n            \n        return True\n    return False\n",
     "        print('') # a bit of output formatting\n    return converged\n"),
]


_REFACTOR_F = [
    ('    trSize = settings.tr_size\n    triedNewPrecond = False\n    \n    gradient = objective.gradient\n\n    g = gradient(x)\n    o = objective.value(x)\n    R = project(x - g, bounds) - x\n    prevOptimality = np.linalg.norm(R)\n',
     '    trSize = settings.tr_size\n    triedNewPrecond = False\n\n    def report(point):\n        if callback:\n            callback(point, objective)\n\n    def optimality(point, gradientAtPoint):\n        return np.linalg.norm(point - project(point - gradientAtPoint, bounds))\n\n    gradient = objective.gradient\n\n    g = gradient(x)\n    o = objective.value(x)\n    prevOptimality = optimality(x, g)\n'),
    ('                    trSize, settings):\n        if callback: callback(x, objective)\n        return x, True\n',
     '                    trSize, settings):\n        report(x)\n        return x, True\n'),
    ('    for i in range(settings.max_trust_iters):\n        # minimize 0.5*(2*r + J_sd)*d = r + 0.5*dJd\n        \n        if settings.use_incremental_objective:',
     '    iteration = 0\n    while iteration < settings.max_trust_iters:\n        iteration += 1\n        o = objective.value(x)\n        if settings.use_incremental_objective:'),
    ('        gy = gradient(y)\n        R = project(y - gy, bounds) - y\n        realOptimality = np.linalg.norm(R)\n',
     '        gy = gradient(y)\n        realOptimality = optimality(y, gy)\n'),
    ('            if callback: callback(y, objective)\n            return y, True\n',
     '            report(y)\n            return y, True\n'),
    ('            x = y\n            g = gy\n            o = objective.value(x)\n            prevOptimality = realOptimality\n            triedNewPrecond = False\n            if callback: callback(x, objective)\n',
     '            x, g, prevOptimality = y, gy, realOptimality\n            triedNewPrecond = False\n            report(x)\n'),
    ('                print("The trust region is still too small.  Accepting, but be careful.")\n                if callback: callback(x, objective)\n                return x, False\n',
     '                print("The trust region is still too small.  Accepting, but be careful.")\n                report(x)\n                return x, False\n'),
]

_REFACTOR_G = [
    ('    for i in range(settings.max_spg_iters):\n',
     '    i = -1\n    while i + 1 < settings.max_spg_iters:\n        i += 1\n'),
    ('        alpha = min(1.0, alpha) if sBs > 0 else 1.0\n',
     '        alpha = np.where(sBs > 0, np.minimum(alpha, 1.0), 1.0)\n'),
]

_REFACTOR_H = [
    ('    x = np.maximum(lb, np.minimum(x, ub))\n    return x\n',
     '    return np.clip(x, a_min=lb, a_max=ub)\n'),
    ('    bounds = np.column_stack((lBar, uBar))\n',
     '    bounds = np.vstack((lBar, uBar)).T\n'),
]

_REFACTOR_J = [
    ('        willAccept = rho >= settings.eta1 or (rho >= 0 and realOptimality <= prevOptimality)\n',
     '        if rho >= settings.eta1:\n            willAccept = True\n        elif rho >= 0 and realOptimality <= prevOptimality:\n            willAccept = True\n        else:\n            willAccept = False\n'),
]

_REFACTOR_K = [
    ('        willAccept = rho >= settings.eta1 or (rho >= 0 and realOptimality <= prevOptimality)\n',
     '        willAccept = (rho >= settings.eta1) | ((rho >= 0) & (prevOptimality >= realOptimality))\n'),
]

_REFACTOR_L = [
    ("        modelImprove = -modelObjective\n        realImprove = -realObjective\n\n        rho = realImprove / modelImprove\n\n        if modelObjective > 0:\n            print('Model objective increased.  Debug if you see this.')\n            rho = realImprove / -modelImprove\n",
     "        if modelObjective > 0:\n            print('Model objective increased.  Debug if you see this.')\n            rho = -realObjective / modelObjective\n        else:\n            rho = realObjective / modelObjective\n"),
    ('            x = y\n            g = gy\n            o = objective.value(x)\n            prevOptimality = realOptimality\n',
     '            prevOptimality = realOptimality\n            o = objective.value(y)\n            g = gy\n            x = y\n'),
]


_REFACTOR_M = [
    ('def bound_constrained_trust_region_minimize(objective, x, bounds, settings, callback=None):',
     'def _next_state(objective, accepted, x, g, o, optimality, y, gy, yOptimality, callback):\n    if not accepted:\n        return x, g, o, optimality\n    if callback: callback(y, objective)\n    return y, gy, objective.value(y), yOptimality\n\n\ndef bound_constrained_trust_region_minimize(objective, x, bounds, settings, callback=None):'),
    ('        if willAccept:\n            x = y\n            g = gy\n            o = objective.value(x)\n            prevOptimality = realOptimality\n            triedNewPrecond = False\n            if callback: callback(x, objective)\n',
     '        x, g, o, prevOptimality = _next_state(objective, willAccept, x, g, o, prevOptimality, y, gy, realOptimality, callback)\n        if willAccept:\n            triedNewPrecond = False\n'),
    ('                print("The trust region is still too small.  Accepting, but be careful.")\n                if callback: callback(x, objective)\n                return x, False\n                    \n    print("Reached the maximum number of trust region iterations.")\n    if settings.check_stability:\n        objective.check_stability(x)\n\n        if callback: callback(x, objective)\n    return x, False\n',
     '                print("The trust region is still too small.  Accepting, but be careful.")\n                if callback: callback(x, objective)\n                break\n    else:\n        print("Reached the maximum number of trust region iterations.")\n        if settings.check_stability:\n            objective.check_stability(x)\n\n            if callback: callback(x, objective)\n    return x, False\n'),
]


# the last block of find_generalized_cauchy_point: the step is cut back until it fits into the trust region
_CUTBACK = "            alpha *= cutback\n            s = project(x - alpha*g, bounds) - x\n            ss = s@s"
_CUTBACK_TAIL = ("            search = ss > deltaSquared and i < maxLineSearchIters\n        if i == maxLineSearchIters:\n"
                 "            raise RuntimeError('No acceptable Cauchy point found after maximum allowed line search iterations')\n")


def _cutback(new_body):
    return [(_CUTBACK, new_body)]


_TR_GUARD_HEAD = ("    d = project(x, bounds) - xk\n    dd = d@d\n    if dd <= trSize*trSize:\n        return project(x, bounds)\n\n"
                  "    def f(t):\n        r = project(xk + t*(x - xk), bounds) - xk\n        return r@r - trSize*trSize\n")
_TR_GUARD_BY_RESIDUAL = ("    def f(t):\n        r = project(xk + t*(x - xk), bounds) - xk\n        return r@r - trSize*trSize\n\n"
                         "    if f(1.0) <= 0.0:\n        return project(x, bounds)\n")


def variants(repo):
    from optilint.selftest import Variant, sub, sub_in_func, alpha_rename, reformat, commute
    from . import C05_variants as V2
    S = "optimism/TrustRegionSPG.py"
    T = DRIVER
    return [
        Variant("True at small-radius exit", S,
                sub_in_func(T, "                if callback: callback(x, objective)\n                return x, False",
                            "                if callback: callback(x, objective)\n                return x, True"), "D1/T1-guarded-success"),
        Variant("test on stale optimality", S,
                sub_in_func(T, "                        realOptimality, modelOptimality, spgIters, trSizeUsed,", "                        modelOptimality, realOptimality, spgIters, trSizeUsed,"),
                "D1/T1-guarded-success"),
        Variant("unprojected optimality", S,
                sub_in_func(T, "        R = project(y - gy, bounds) - y\n        realOptimality", "        R = (y - gy) - y\n        realOptimality"), "D1/T1-guarded-success"),
        Variant("tol compared with squared measure", S,
                sub_in_func("is_converged", "if realOptimality < settings.tol:", "if realOptimality**2 < settings.tol:"), "D1/T1-convergence-test"),
        Variant("drop rho>=0 conjunct", S,
                sub_in_func(T, "(rho >= 0 and realOptimality <= prevOptimality)", "(realOptimality <= prevOptimality)"), "D2/T8-descent"),
        Variant("drop o update", S, sub_in_func(T, "            o = objective.value(x)\n", ""), "D2/T8-descent"),
        Variant("rho < eta2", S, sub_in_func(T, "if not rho >= settings.eta2:", "if rho < settings.eta2:"), "D4/T12-nan-polarity"),
        Variant("remove step cap", S,
                sub_in_func("solve_spg_subproblem", "        alpha = min(1.0, alpha) if sBs > 0 else 1.0\n", "        alpha = alpha if sBs > 0 else 1.0\n"), "D3/T9-feasible-by-construction"),
        Variant("cap only in one line search", S,
                lambda s: None if s.count("        alpha = min(1.0, alpha) if sBs > 0 else 1.0\n") != 1 else
                s.replace("        alpha = min(1.0, alpha) if sBs > 0 else 1.0\n", "        alpha = alpha if sBs > 0 else 1.0\n")
                 .replace("    alpha = (-b + np.sqrt(b**2 - 2*sBs*(q - qMax))) / sBs\n    return alpha", "    alpha = (-b + np.sqrt(b**2 - 2*sBs*(q - qMax))) / sBs\n    return min(1.0, alpha)"),
                "D3/T9-feasible-by-construction"),
        Variant("unprojected return of project_onto_tr", S,
                sub_in_func("project_onto_tr", "    return project(xk + t*(x - xk), bounds)", "    return xk + t*(x - xk)"), "D3/T9-feasible-by-construction"),
        Variant("swap bound columns", S,
                sub_in_func("project", "    lb = bounds[:,0]\n    ub = bounds[:,1]", "    lb = bounds[:,1]\n    ub = bounds[:,0]"), "D3/T9-feasible-by-construction"),
        Variant("scale only lower bound", S, sub_in_func("solve", "    uBar = objective.scaling * upperBounds", "    uBar = upperBounds"), "D3/T9-feasible-by-construction"),
        Variant("unprojected cauchy backtrack", S,
                sub_in_func("find_generalized_cauchy_point", "            alpha *= cutback\n            s = project(x - alpha*g, bounds) - x\n            i += 1\n            search = m(s)",
                            "            alpha *= cutback\n            s = - alpha*g\n            i += 1\n            search = m(s)"), "D3/T9-feasible-by-construction"),
        Variant("p assigned before warm start", S,
                sub_in_func("solve", "        dxBar = WarmStart.warm_start_increment(objective,", "        objective.p = p\n        dxBar = WarmStart.warm_start_increment(objective,"),
                "D1/T2-parameters-before-solve"),
        # ---- further breaking edits
        Variant("trust region centred at the moving point", S,
                sub_in_func("solve_spg_subproblem", "s = project_onto_tr(xNew - lam*d, x, bounds, trSize) - xNew", "s = project_onto_tr(xNew - lam*d, xNew, bounds, trSize) - xNew"),
                "D3/T9-feasible-by-construction"),
        Variant("step cap 2 instead of 1", S, sub_in_func("solve_spg_subproblem", "alpha = min(1.0, alpha) if sBs > 0 else 1.0", "alpha = min(2.0, alpha) if sBs > 0 else 1.0"), "D3/T9-feasible-by-construction"),
        Variant("SPG direction from the wrong base point", S,
                sub_in_func("solve_spg_subproblem", "s = project_onto_tr(xNew - lam*d, x, bounds, trSize) - xNew", "s = project_onto_tr(xNew - lam*d, x, bounds, trSize) - x"),
                "D3/T9-feasible-by-construction"),
        Variant("Cauchy step and gradient exchanged at the SPG call", S,
                sub_in_func(T, "            x, cauchyPoint, g, bounds, hess_vec_func,", "            x, g, cauchyPoint, bounds, hess_vec_func,"), "D3/T9-feasible-by-construction"),
        Variant("success returns the old iterate", S,
                sub_in_func(T, "            if callback: callback(y, objective)\n            return y, True", "            if callback: callback(y, objective)\n            return x, True"),
                "D1/T1-guarded-success"),
        Variant("tolerance squared in the test", S, sub_in_func("is_converged", "if realOptimality < settings.tol:", "if realOptimality < settings.tol**2:"), "D1/T1-convergence-test"),
        Variant("NaN passes the convergence test", S, sub_in_func("is_converged", "if realOptimality < settings.tol:", "if not realOptimality >= settings.tol:"), "D1/T1-convergence-test"),
        Variant("both clamp bounds are the lower column", S, sub_in_func("project", "    ub = bounds[:,1]", "    ub = bounds[:,0]"), "D3/T9-feasible-by-construction"),
        Variant("negative acceptance threshold", S, sub_in_func(T, "willAccept = rho >= settings.eta1 or", "willAccept = rho >= -settings.eta1 or"), "D2/T8-descent"),
        Variant("accepted iterate not reported", S,
                sub_in_func(T, "            triedNewPrecond = False\n            if callback: callback(x, objective)\n", "            triedNewPrecond = False\n"), "D3/T2-reported-iterate"),
        Variant("reference objective updated for rejected steps too", S,
                sub_in_func(T, "        if willAccept:\n            x = y\n            g = gy\n            o = objective.value(x)\n",
                            "        o = objective.value(y)\n        if willAccept:\n            x = y\n            g = gy\n"), "D2/T8-descent"),
        Variant("NaN ratio accepted", S, sub_in_func(T, "willAccept = rho >= settings.eta1 or (rho >= 0 and realOptimality <= prevOptimality)",
                                                   "willAccept = not rho < settings.eta1 or (rho >= 0 and realOptimality <= prevOptimality)"), "D4/T12-nan-polarity"),
        Variant("bound columns exchanged in solve", S, sub_in_func("solve", "bounds = np.column_stack((lBar, uBar))", "bounds = np.column_stack((uBar, lBar))"),
                "D3/T9-feasible-by-construction"),
        Variant("start point not scaled", S, sub_in_func("solve", "    xBar0 = objective.scaling * x0", "    xBar0 = 1.0 * x0"), "D3/T9-feasible-by-construction"),
        Variant("trial point measured at another point", S, sub_in_func(T, "        gy = gradient(y)\n        R = project(y - gy, bounds) - y", "        gy = gradient(y)\n        R = project(x - gy, bounds) - x"),
                "D1/T1-guarded-success"),
        # ---- further behaviour-preserving refactorings (helpers, guard clauses, temporaries, equivalent forms, keywords)
        Variant("driver: ratio / radius / acceptance helpers, renamed trial point, tuple assignment", S, _chain(*_REFACTOR_A), None),
        Variant("SPG: no xNew, z = z + ..., line search in branches, cap by comparison", S, _chain(*_REFACTOR_B), None),
        Variant("projections: np.clip, inverted guard with lambdas, while True / break", S, _chain(*_REFACTOR_C), None),
        Variant("solve: temporaries, keyword call, bounds built inline", S, _chain(*_REFACTOR_D), None),
        Variant("is_converged returns the comparison", S, _chain(*_REFACTOR_E), None),
        Variant("driver: report helper, measure closure, while loop, reference value recomputed at the loop top", S, _chain(*_REFACTOR_F), None),
        Variant("SPG: while loop with counter, np.where / np.minimum cap", S, _chain(*_REFACTOR_G), None),
        Variant("np.clip with keywords, bounds = vstack(...).T", S, _chain(*_REFACTOR_H), None),
        Variant("acceptance as if / elif / else", S, _chain(*_REFACTOR_J), None),
        Variant("acceptance with | and &, comparison mirrored", S, _chain(*_REFACTOR_K), None),
        Variant("ratio with cancelled signs in if / else, accept block reordered", S, _chain(*_REFACTOR_L), None),
        Variant("callback tested with `is not None`", S,
                lambda s: s.replace("if callback: callback(", "if callback is not None: callback(") if s.count("if callback: callback(") >= 3 else None, None),
        Variant("accept block in a helper returning the new state, single failure exit via break / for-else", S, _chain(*_REFACTOR_M), None),
        # ---- breaking edits on top of refactored code
        Variant("refactored SPG without the cap", S, _chain(*(_REFACTOR_B + [("            if stepLength > 1.0:\n                stepLength = 1.0\n", "")])),
                "D3/T9-feasible-by-construction"),
        Variant("refactored acceptance helper without rho >= 0", S,
                _chain(*(_REFACTOR_A + [("    optimalityDecrease = rho >= 0 and optimality <= previousOptimality", "    optimalityDecrease = optimality <= previousOptimality")])),
                "D2/T8-descent"),
        Variant("state helper returns a stale objective value", S,
                _chain(*(_REFACTOR_M + [("    return y, gy, objective.value(y), yOptimality", "    return y, gy, objective.value(x), yOptimality")])), "D2/T8-descent"),
        Variant("report helper not called after acceptance", S,
                _chain(*(_REFACTOR_F + [("            triedNewPrecond = False\n            report(x)\n", "            triedNewPrecond = False\n")])), "D3/T2-reported-iterate"),
        Variant("radius helper does not shrink", S, _chain(*(_REFACTOR_A + [("        return trSize * settings.t1\n", "        return trSize\n")])), "D4/T12-nan-polarity"),
        Variant("radius helper tests rho < eta2", S,
                _chain(*(_REFACTOR_A + [("    if not rho >= settings.eta2:  # write it this way to handle NaNs\n        return trSize * settings.t1",
                                          "    if rho < settings.eta2:\n        return trSize * settings.t1")])), "D4/T12-nan-polarity"),
        Variant("ray lambda without projection", S,
                _chain(*(_REFACTOR_C + [("        ray = lambda t: project((1 - t)*xk + t*x, bounds)", "        ray = lambda t: (1 - t)*xk + t*x")])), "D3/T9-feasible-by-construction"),
        Variant("measure closure without projection", S,
                _chain(*(_REFACTOR_F + [("        return np.linalg.norm(point - project(point - gradientAtPoint, bounds))", "        return np.linalg.norm(gradientAtPoint)")])),
                "D1/T1-guarded-success"),
        Variant("all of the above together", S, _chain(*(_REFACTOR_A + _REFACTOR_B + _REFACTOR_C + _REFACTOR_D + _REFACTOR_E)), None),
        Variant("feasible but different: Cauchy cut-back scales the step", S,
                sub_in_func("find_generalized_cauchy_point", "            alpha *= cutback\n            s = project(x - alpha*g, bounds) - x\n            ss = s@s",
                            "            alpha *= cutback\n            s = cutback*s\n            ss = s@s"), None),
        # ---- round 3: one path of the Cauchy search builds the step without the projection every other path applies; the step length is a
        #      loop-carried value there (no exact first iteration): decided by the degenerate-box witness
        Variant("round 3: trust-region cut-back of the Cauchy step without the projection", S,
                _chain(*_cutback("            alpha *= cutback\n            s = -alpha*g\n            ss = s@s")), "D3/T9-feasible-by-construction"),
        Variant("round 3: cut-back step from a helper that does not project", S,
                _chain(("    deltaSquared = trSize*trSize\n", "    deltaSquared = trSize*trSize\n    def steepest(a): return -a*g\n"),
                       *_cutback("            alpha *= cutback\n            s = steepest(alpha)\n            ss = s@s")), "D3/T9-feasible-by-construction"),
        Variant("round 3: cut-back projects the base point instead of the trial point", S,
                _chain(*_cutback("            alpha *= cutback\n            s = project(x, bounds) - alpha*g - x\n            ss = s@s")),
                "D3/T9-feasible-by-construction"),
        Variant("round 3: forward-tracking trial step without the projection", S,
                sub_in_func("find_generalized_cauchy_point", "            alphaTry /= cutback\n            sTry = project(x - alphaTry*g, bounds) - x\n",
                            "            alphaTry /= cutback\n            sTry = -alphaTry*g\n"), "D3/T9-feasible-by-construction"),
        Variant("round 3: unprojected step rebuilt after the cut-back loop", S,
                _chain((_CUTBACK_TAIL + "\n    return alpha, s", _CUTBACK_TAIL + "        s = -alpha*g\n\n    return alpha, s")), "D3/T9-feasible-by-construction"),
        Variant("round 3: refactored Cauchy search, cut-back without the projection", S,
                _chain(*(_REFACTOR_C + _cutback("            alpha *= cutback\n            s = -alpha*g\n            ss = s@s"))), "D3/T9-feasible-by-construction"),
        Variant("round 3: cut-back with temporaries (still projected)", S,
                _chain(*_cutback("            alpha *= cutback\n            step = alpha*g\n            target = project(x - step, bounds)\n"
                                 "            s = target - x\n            ss = s@s")), None),
        Variant("round 3: cut-back as while True / break with np.clip (still projected)", S,
                _chain(("        i = 0\n        search = True\n        while search:\n" + _CUTBACK + "\n            i += 1\n"
                        "            search = ss > deltaSquared and i < maxLineSearchIters\n",
                        "        i = 0\n        while True:\n            alpha = cutback*alpha\n"
                        "            s = np.clip(x - alpha*g, bounds[:,0], bounds[:,1]) - x\n            ss = s@s\n            i += 1\n"
                        "            if not (ss > deltaSquared and i < maxLineSearchIters):\n                break\n")), None),
        # ---- round 4: the bracket handed to the root finder of project_onto_tr
        Variant("round 4: early-exit guard of project_onto_tr measured on the raw point (no sign change over the bracket)", S,
                sub_in_func("project_onto_tr", "    d = project(x, bounds) - xk\n    dd = d@d\n", "    d = x - xk\n    dd = d@d\n"), RULE_BRACKET),
        Variant("round 4: early-exit guard of project_onto_tr compares with the radius, not its square", S,
                sub_in_func("project_onto_tr", "    if dd <= trSize*trSize:\n", "    if dd <= trSize:\n"), RULE_BRACKET),
        Variant("round 4: early exit of project_onto_tr decided by the residual function at the far bracket end", S,
                sub_in_func("project_onto_tr", _TR_GUARD_HEAD, _TR_GUARD_BY_RESIDUAL), None),
        Variant("round 4: ... residual function of the raw point in the early exit", S,
                sub_in_func("project_onto_tr", _TR_GUARD_HEAD, _TR_GUARD_BY_RESIDUAL.replace("    if f(1.0) <= 0.0:", "    if (x - xk)@(x - xk) - trSize*trSize <= 0.0:")), RULE_BRACKET),
    ] + [Variant("round 2: " + nm, S, _chain(*V2.full_chain(key)), expect) for (nm, key, expect) in V2.EXPECT] + [
        Variant("round 2: " + " + ".join(keys), S, _chain(*[pr for k in keys for pr in V2.full_chain(k)]), None)
        for keys in (("n1", "n2", "p1", "q2", "v_split"), ("t3", "p4", "w17", "s1", "q4"), ("s7", "t2", "q3", "t1", "v_partial", "u10"))] + [
        Variant("reformat", S, reformat(), None),
        Variant("alpha-rename driver", S, alpha_rename(T), None),
        Variant("alpha-rename solve_spg_subproblem", S, alpha_rename("solve_spg_subproblem"), None),
        Variant("alpha-rename find_generalized_cauchy_point", S, alpha_rename("find_generalized_cauchy_point"), None),
        Variant("commute", S, commute(T), None),
    ]
