"""C07 -- solution sensitivities equal implicit-function-theorem derivatives (structural clauses).

  D1  the reverse rules can run: link integrity (arity, unpack width, attributes) over the cones of
      nonlinear_solve / nonlinear_solve_with_state, their _f/_b rules and the inverse helpers;
  D2  jax.custom_vjp contract of each decorated function: defvjp(f, b) exists; f returns
      (out, residuals); b takes (nondiff..., residuals, cotangent); residuals are unpacked with the
      width and the roles they were packed with; b returns one cotangent per differentiable argument;
      the objective's parameters are restored from the residuals before any Hessian / VJP use;
  D3  parameter-slot tables agree: Objective's jvp/vjp closures, param_index_update, the Params tuple
      returned by the reverse rule, and the vjp wrappers in MechanicsInverse;
  D4  adjoint sign: the adjoint system is solved as the minimiser of v.z + 1/2 z.H z (first CG
      direction -precond(v)), so lam = -H^-1 v, and lam^T dg/dp is returned unnegated;
  D5  the adjoint function space is built exactly like the ordinary one (modulo mesh.coords -> coords).
Not decided: numerical equality with a dense reference.
"""
from __future__ import annotations

import ast
import re

from optilint.model import FuncVal, ExtVal, walk_local, norm_src, dotted
from optilint.cfg import cfg_of
from optilint.core import Incomplete
from .common import Unifier, link_cone, calls_in, actual, src, expand, const_value

LEVEL = "other"
RULE_TEXT = ("obligations = (scope in cone x link-integrity) + (custom_vjp function x contract clause) + "
             "(parameter slot x table agreement) + adjoint sign + sibling constructor comparison")
EXPLANATION = ("Static analysis of optimism/inverse/*.py and optimism/Objective.py: link integrity of the reverse-rule "
               "cones, the custom_vjp packing/unpacking contract, slot-index agreement of the parameter tables, the "
               "sign convention of the adjoint solve, and sibling agreement of the adjoint function-space constructor. "
               "Numerical agreement with dense implicit-function-theorem derivatives is not decided.")

NS = "optimism.inverse.NonlinearSolve"
OBJ = "optimism.Objective"
MI = "optimism.inverse.MechanicsInverse"
AFS = "optimism.inverse.AdjointFunctionSpace"
ES = "optimism.EquationSolver"


def run(ctx):
    for m in (NS, OBJ, MI, AFS, ES):
        ctx.need_module(m)
    ctx.guard(d1, ctx)
    ctx.guard(d2, ctx)
    ctx.guard(d3, ctx)
    ctx.guard(d4, ctx)
    ctx.guard(d5, ctx)
    ctx.trust("jax.custom_vjp protocol: fwd returns (out, residuals); bwd(nondiff..., residuals, cotangent) returns a tuple "
              "with one entry per differentiable primal argument")
    ctx.trust("preconditioned CG started at z=0 with first direction -M r minimises r.z + 1/2 z.H z, i.e. z = -H^-1 r")
    ctx.assume("Hessian at the solution is non-singular (property text)")


# ------------------------------------------------------------------ D1

def d1(ctx):
    roots = []
    m = ctx.need_module(NS)
    for c in m.scope.children:
        if c.is_function():
            roots.append(c)
    roots.append(m.scope)
    for mod in (MI, AFS):
        mm = ctx.need_module(mod)
        roots += [c for c in mm.scope.children if c.is_function()]
    if len(roots) < 10:
        raise Incomplete("inverse modules expose fewer functions than on the reference tree")

    def stop(s):
        return s.module.name.startswith(("optimism.phasefield", "optimism.contact", "optimism.material"))
    link_cone(ctx, "D1/T10-link", roots, "reverse rules and inverse helpers", stop=stop, min_scopes=40)


# ------------------------------------------------------------------ D2

def _custom_vjp_functions(ctx):
    m = ctx.need_module(NS)
    out = []
    for c in m.scope.children:
        if c.kind != "function":
            continue
        nondiff = None
        for d in c.node.decorator_list:
            vals = ctx.repo.resolve(d, m.scope)
            if any(isinstance(v, ExtVal) and v.name == "jax.custom_vjp" for v in vals):
                nondiff = ()
                if isinstance(d, ast.Call):
                    for k in d.keywords:
                        if k.arg == "nondiff_argnums" and isinstance(k.value, ast.Tuple):
                            nondiff = tuple(const_value(e) for e in k.value.elts)
        if nondiff is not None:
            out.append((c, nondiff))
    return out


def d2(ctx):
    rule = "D2/T5-custom-vjp-contract"
    m = ctx.need_module(NS)
    fns = _custom_vjp_functions(ctx)
    if len(fns) < 2:
        raise Incomplete(f"{len(fns)} custom_vjp functions found in inverse.NonlinearSolve (2 on the reference tree)")
    # defvjp registrations at module level
    regs = {}
    for st in m.tree.body:
        if isinstance(st, ast.Expr) and isinstance(st.value, ast.Call) and isinstance(st.value.func, ast.Attribute) \
                and st.value.func.attr == "defvjp" and isinstance(st.value.func.value, ast.Name):
            regs[st.value.func.value.id] = st.value
    for (prim, nondiff) in fns:
        reg = regs.get(prim.name)
        if reg is None or len(reg.args) != 2:
            ctx.refuted(rule, prim, None, construct=f"{prim.name}:defvjp",
                        detail=f"{prim.name} is decorated with custom_vjp but no {prim.name}.defvjp(fwd, bwd) registration exists")
            continue
        fwd = _resolve_fn(ctx, reg.args[0], m.scope)
        bwd = _resolve_fn(ctx, reg.args[1], m.scope)
        if fwd is None or bwd is None:
            ctx.undecided(rule, prim, reg, construct=f"{prim.name}:defvjp", detail="cannot resolve fwd/bwd functions")
            continue
        ctx.touch(fwd)
        ctx.touch(bwd)
        pp = prim.params()
        ndiff = len(pp) - len(nondiff)
        # fwd signature
        ctx.decide(rule, fwd.params().__len__() == len(pp), fwd, None, construct=f"{prim.name}:fwd-signature",
                   detail=f"fwd has {len(fwd.params())} parameters, primal {len(pp)}",
                   bad_detail=f"forward rule {fwd.name} takes {len(fwd.params())} parameters but the primal takes {len(pp)}")
        # fwd returns (out, residuals)
        rets = fwd.returns()
        ok = len(rets) >= 1 and all(isinstance(r, ast.Tuple) and len(r.elts) == 2 for r in rets)
        ctx.decide(rule, ok, fwd, rets[0] if rets else None, construct=f"{prim.name}:fwd-returns-pair",
                   detail="fwd returns (out, residuals)", bad_detail="forward rule does not return a pair (out, residuals)")
        if not ok:
            continue
        res = rets[0].elts[1]
        outv = rets[0].elts[0]
        # fwd output must come from calling the primal with fwd's own parameters in order
        fcfg = cfg_of(fwd)
        rnode = fcfg.returns()[0]
        outx = expand(fcfg, rnode, outv)
        okp = isinstance(outx, ast.Call) and isinstance(outx.func, ast.Name) and outx.func.id == prim.name and \
            [a.id if isinstance(a, ast.Name) else None for a in outx.args] == fwd.params()
        ctx.decide(rule, okp, fwd, outv, construct=f"{prim.name}:fwd-calls-primal",
                   detail=f"out = {src(outx)}", bad_detail=f"forward output `{src(outx)}` is not the primal applied to the forward rule's own arguments in order")
        # bwd signature: nondiff..., residuals, cotangent
        bp = bwd.params()
        ctx.decide(rule, len(bp) == len(nondiff) + 2, bwd, None, construct=f"{prim.name}:bwd-signature",
                   detail=f"bwd parameters {bp}",
                   bad_detail=f"backward rule takes {len(bp)} parameters; expected {len(nondiff)} non-differentiable + residuals + cotangent")
        if len(bp) != len(nondiff) + 2:
            continue
        for i, nd in enumerate(nondiff):
            ctx.decide(rule, bp[i] == pp[nd], bwd, None, construct=f"{prim.name}:bwd-nondiff#{i}",
                       detail=f"bwd parameter {i} is {bp[i]}, primal nondiff argument {nd} is {pp[nd]}",
                       bad_detail=f"backward rule parameter {i} `{bp[i]}` does not correspond to non-differentiable primal argument `{pp[nd]}`")
        rname, vname = bp[-2], bp[-1]
        # residual packing: roles by position
        if not isinstance(res, ast.Tuple):
            ctx.undecided(rule, fwd, res, construct=f"{prim.name}:residual-pack", detail="residuals are not a literal tuple")
            continue
        pack_roles = []
        for e in res.elts:
            ex = expand(fcfg, rnode, e)
            if isinstance(ex, ast.Call) and isinstance(ex.func, ast.Name) and ex.func.id == prim.name:
                pack_roles.append("solution")
            elif isinstance(ex, ast.Name) and ex.id in fwd.params():
                pack_roles.append(f"primal-arg#{fwd.params().index(ex.id)}")
            else:
                pack_roles.append("other:" + src(ex))
        # unpack in bwd
        unpack = None
        for st in walk_local(bwd.node):
            if isinstance(st, ast.Assign) and isinstance(st.value, ast.Name) and st.value.id == rname \
                    and isinstance(st.targets[0], ast.Tuple):
                unpack = st
        if unpack is None:
            ctx.undecided(rule, bwd, None, construct=f"{prim.name}:residual-unpack", detail="no tuple unpack of the residuals found")
            continue
        names = [t.id if isinstance(t, ast.Name) else None for t in unpack.targets[0].elts]
        ctx.decide(rule, len(names) == len(res.elts), bwd, unpack, construct=f"{prim.name}:residual-width",
                   detail=f"packed {len(res.elts)}, unpacked {len(names)}",
                   bad_detail=f"residuals packed as {len(res.elts)}-tuple but unpacked into {len(names)} names")
        if len(names) != len(res.elts):
            continue
        # role of each unpacked name in bwd
        bsrc_calls = list(calls_in(bwd, local=False))
        for nm, role in zip(names, pack_roles):
            uses_sol = any(isinstance(c.func, ast.Attribute) and c.func.attr in ("hessian_vec", "vec_jacobian_p0", "vec_jacobian_p1", "vec_jacobian_p2", "vec_jacobian_p4")
                           and c.args and isinstance(c.args[0], ast.Name) and c.args[0].id == nm for c in bsrc_calls)
            # parameter role: flows into `<obj>.p = ...`
            uses_par = False
            for st in walk_local(bwd.node):
                if isinstance(st, ast.Assign) and isinstance(st.targets[0], ast.Attribute) and st.targets[0].attr == "p":
                    if nm in {n.id for n in ast.walk(st.value) if isinstance(n, ast.Name)}:
                        uses_par = True
            if role == "solution":
                ok = uses_sol and not uses_par
            elif role.startswith("primal-arg#"):
                ok = uses_par and not uses_sol
            else:
                ok = None
            ctx.decide(rule, ok, bwd, unpack, construct=f"{prim.name}:residual-role:{role}",
                       detail=f"`{nm}` packed as {role}; used as point={uses_sol}, as parameters={uses_par}",
                       bad_detail=f"residual packed as {role} is unpacked into `{nm}`, which the backward rule uses as "
                                  f"{'the linearisation point' if uses_sol else 'the parameters' if uses_par else 'nothing'}")
        # parameters restored before Hessian / VJP use (T2)
        bcfg = cfg_of(bwd)
        objname = bp[0]
        passign = [n for n in bcfg.nodes if n.kind == "stmt" and isinstance(n.ast, ast.Assign)
                   and isinstance(n.ast.targets[0], ast.Attribute) and n.ast.targets[0].attr == "p"
                   and isinstance(n.ast.targets[0].value, ast.Name) and n.ast.targets[0].value.id == objname]
        users = []
        for n in bcfg.nodes:
            if n.ast is None or n.kind not in ("stmt", "cond"):
                continue
            for c in ast.walk(n.ast):
                if isinstance(c, ast.Call) and isinstance(c.func, ast.Attribute) and isinstance(c.func.value, ast.Name) \
                        and c.func.value.id == objname and (c.func.attr.startswith(("vec_jacobian", "hessian", "jacobian"))):
                    users.append((n, c))
        # hessian_vec inside a lambda executes when the CG solver runs: the use site is the solver call
        for n in bcfg.nodes:
            if n.kind == "stmt" and n.ast is not None and "solve_trust_region_minimization" in src(n.ast):
                users.append((n, n.ast))
        if not users:
            ctx.undecided(rule, bwd, None, construct=f"{prim.name}:uses", detail="no Hessian/VJP use found in the backward rule")
        for (n, c) in users:
            ok = any(bcfg.dominates(a, n) and a is not n for a in passign)
            ctx.decide(rule, ok, bwd, c, construct=f"{prim.name}:params-restored-before:{src(c)[:50]}",
                       detail="objective parameters assigned from the residuals before this use",
                       bad_detail=f"`{objname}.p` is not assigned before `{src(c)[:60]}`; the reverse rule would linearise under stale parameters")
        for a in passign:
            names_in_rhs = {x.id for x in ast.walk(a.ast.value) if isinstance(x, ast.Name)}
            ok = bool(names_in_rhs & set(n for n in names if n))
            ctx.decide(rule, ok, bwd, a.ast, construct=f"{prim.name}:params-from-residuals",
                       detail=f"{src(a.ast)}", bad_detail=f"`{src(a.ast)}` does not use the saved forward parameters")
        # bwd returns one cotangent per differentiable argument
        for r in bwd.returns():
            ok = isinstance(r, ast.Tuple) and len(r.elts) == ndiff
            ctx.decide(rule, ok, bwd, r, construct=f"{prim.name}:bwd-return-width",
                       detail=f"returns {len(r.elts) if isinstance(r, ast.Tuple) else '?'} cotangents for {ndiff} differentiable arguments",
                       bad_detail=f"backward rule returns {len(r.elts) if isinstance(r, ast.Tuple) else 'a non-tuple'} but the primal has {ndiff} differentiable arguments")


def _resolve_fn(ctx, e, scope):
    for v in ctx.repo.resolve(e, scope):
        if isinstance(v, FuncVal):
            return v.scope
    return None


# ------------------------------------------------------------------ D3

def _piu_calls(node):
    return [c for c in ast.walk(node) if isinstance(c, ast.Call) and dotted(c.func) and dotted(c.func).endswith("param_index_update")]


def d3_param_index_update(ctx):
    rule = "D3/T5-parameter-slots"
    # param_index_update table
    piu = ctx.need(f"{OBJ}:param_index_update")
    pp = piu.params()
    nbranches = 0
    for st in piu.node.body:
        if isinstance(st, ast.If) and isinstance(st.test, ast.Compare) and isinstance(st.test.left, ast.Name) \
                and st.test.left.id == pp[1] and isinstance(st.test.ops[0], ast.Eq):
            k = const_value(st.test.comparators[0])
            ret = [s for s in st.body if isinstance(s, ast.Return)]
            if not ret or not isinstance(ret[0].value, ast.Call):
                ctx.undecided(rule, piu, st, construct=f"param_index_update:{k}", detail="branch does not return a constructor call")
                continue
            nbranches += 1
            args = ret[0].value.args
            ok = True
            why = []
            for j, a in enumerate(args):
                if j == k:
                    if not (isinstance(a, ast.Name) and a.id == pp[2]):
                        ok = False
                        why.append(f"slot {j} gets {src(a)} instead of the new value")
                else:
                    good = isinstance(a, ast.Subscript) and isinstance(a.value, ast.Name) and a.value.id == pp[0] \
                        and const_value(a.slice) == j
                    if not good:
                        ok = False
                        why.append(f"slot {j} gets {src(a)} instead of {pp[0]}[{j}]")
            ctx.decide(rule, ok, piu, ret[0], construct=f"param_index_update:index=={k}",
                       detail=f"index {k}: new value in slot {k}, others copied",
                       bad_detail=f"param_index_update(index=={k}): " + "; ".join(why))
    params_nt = None
    for v in ctx.repo.resolve(ast.Name(id="Params", ctx=ast.Load()), piu.module.scope):
        if hasattr(v, "fields"):
            params_nt = v
    if params_nt is None:
        raise Incomplete("Objective.Params namedtuple not found")
    if nbranches < len(params_nt.fields):
        ctx.refuted(rule, piu, None, construct="param_index_update:coverage",
                    detail=f"{nbranches} index branches for {len(params_nt.fields)} Params fields")


def d3_objective_closures(ctx, pattern=r"^(vec_jac_xp\d*|jac_xp\d*_vec)$", min_count=6):
    rule = "D3/T5-parameter-slots"
    # Objective.__init__ closures
    init = ctx.need(f"{OBJ}:Objective.__init__")
    n_cl = 0
    for st in walk_local(init.node):
        if not (isinstance(st, ast.Assign) and isinstance(st.targets[0], ast.Attribute)):
            continue
        attr = st.targets[0].attr
        if not re.match(pattern, attr):
            continue
        n_cl += 1
        mnum = re.search(r"xp(\d+)", attr)
        want = int(mnum.group(1)) if mnum else 0
        calls = _piu_calls(st.value)
        ks = [const_value(c.args[1]) for c in calls if len(c.args) >= 2]
        prim = []
        for c in ast.walk(st.value):
            if isinstance(c, ast.Call) and dotted(c.func) in ("jvp", "vjp"):
                # primal: 2nd positional (tuple for jvp)
                pa = c.args[1] if len(c.args) > 1 else None
                if isinstance(pa, ast.Tuple) and pa.elts:
                    pa = pa.elts[0]
                if isinstance(pa, ast.Subscript):
                    prim.append(const_value(pa.slice))
        ok = len(ks) == 1 and len(prim) == 1 and ks[0] == want and prim[0] == want
        # the replaced slot value must be the lambda's own variable
        lamvar_ok = True
        for c in calls:
            lam = None
            for w in ast.walk(st.value):
                if isinstance(w, ast.Lambda) and any(x is c for x in ast.walk(w.body)) and len(w.args.args) == 1:
                    lam = w
            if lam is None or not (len(c.args) >= 3 and isinstance(c.args[2], ast.Name) and c.args[2].id == lam.args.args[0].arg):
                lamvar_ok = False
        # the parameter tuple being updated must be the closure's own `p` argument (2nd lambda parameter),
        # not state captured at trace time
        outer = st.value.args[0] if isinstance(st.value, ast.Call) and st.value.args and isinstance(st.value.args[0], ast.Lambda) else None
        own_p = outer.args.args[1].arg if outer is not None and len(outer.args.args) >= 2 else None
        for c in calls:
            if not (c.args and isinstance(c.args[0], ast.Name) and c.args[0].id == own_p):
                lamvar_ok = False
        for c in ast.walk(st.value):
            if isinstance(c, ast.Call) and dotted(c.func) in ("jvp", "vjp"):
                pa = c.args[1] if len(c.args) > 1 else None
                if isinstance(pa, ast.Tuple) and pa.elts:
                    pa = pa.elts[0]
                if isinstance(pa, ast.Subscript) and not (isinstance(pa.value, ast.Name) and pa.value.id == own_p):
                    lamvar_ok = False
        ctx.decide(rule, ok and lamvar_ok, init, st, construct=f"Objective.{attr}",
                   detail=f"slot {want}: param_index_update index {ks}, primal p[{prim}]",
                   bad_detail=f"Objective.{attr} differentiates slot {ks} at primal p{prim} (name says slot {want})"
                              + ("" if lamvar_ok else "; the updated tuple / primal is not the closure's own parameter argument or the replaced value is not the differentiation variable"))
    if n_cl < min_count:
        raise Incomplete(f"{n_cl} parameter jvp/vjp closures found in Objective.__init__ ({min_count} on the reference tree)")
    # methods delegate to the same-numbered closure
    cls = ctx.need(f"{OBJ}:Objective")
    for meth in cls.children:
        mm = re.match(r"^(vec_jacobian_p(\d)|jacobian_p(\d?)_vec)$", meth.name)
        if not mm:
            continue
        if not re.match(pattern, "vec_jac_xp0" if meth.name.startswith("vec_") else "jac_xp_vec"):
            continue
        want = int(mm.group(2) or mm.group(3) or 0)
        rets = meth.returns()
        ok = False
        got = "?"
        if len(rets) == 1 and isinstance(rets[0], ast.Call) and isinstance(rets[0].func, ast.Attribute):
            got = rets[0].func.attr
            mnum = re.search(r"xp(\d+)", got)
            gotk = int(mnum.group(1)) if mnum else 0
            kind_ok = ("vec_jac" in got) == meth.name.startswith("vec_")
            ok = gotk == want and kind_ok
        ctx.decide(rule, ok, meth, rets[0] if rets else None, construct=f"Objective.{meth.name}",
                   detail=f"delegates to self.{got}", bad_detail=f"Objective.{meth.name} delegates to self.{got}")


def d3(ctx):
    rule = "D3/T5-parameter-slots"
    d3_param_index_update(ctx)
    d3_objective_closures(ctx)
    # nonlinear_solve_with_state_b : Params(dp0, dp1, dp2, None, dp4)
    b = ctx.need(f"{NS}:nonlinear_solve_with_state_b")
    bcfg = cfg_of(b)
    for rn in bcfg.returns():
        r = rn.ast.value
        if not (isinstance(r, ast.Tuple) and len(r.elts) == 2 and isinstance(r.elts[1], ast.Call)):
            ctx.undecided(rule, b, r, construct="with_state_b:return", detail="unexpected return shape")
            continue
        pc = r.elts[1]
        for k, a in enumerate(pc.args):
            if isinstance(a, ast.Constant) and a.value is None:
                continue
            if not isinstance(a, ast.Name):
                ctx.undecided(rule, b, a, construct=f"with_state_b:Params[{k}]", detail="non-name cotangent")
                continue
            defs = bcfg.reaching(rn, a.id)
            vals = []
            okk = True
            for d in defs:
                v = d.ast.value if isinstance(d.ast, ast.Assign) else None
                if isinstance(v, ast.Constant) and v.value is None:
                    continue
                s = src(v)
                mnum = re.search(r"vec_jacobian_p(\d)", s)
                vals.append(s)
                if not mnum or int(mnum.group(1)) != k:
                    okk = False
                # guarded by p[k]
                facts = bcfg.edge_facts(d)
                g = [src(c.ast) for (c, lab) in facts if lab is True]
                if not any(re.search(r"\[%d\]" % k, x) for x in g):
                    okk = False
            ctx.decide(rule, okk and bool(vals), b, a, construct=f"with_state_b:Params[{k}]",
                       detail=f"slot {k} <- {vals}",
                       bad_detail=f"cotangent for parameter slot {k} is computed as {vals} (must be vec_jacobian_p{k}, guarded by p[{k}])")
    # nonlinear_solve_b: design slot 2 both in the parameter update and the VJP
    b2 = ctx.need(f"{NS}:nonlinear_solve_b")
    prim = ctx.need(f"{NS}:nonlinear_solve")
    ks = [const_value(c.args[1]) for c in _piu_calls(prim.node)] + [const_value(c.args[1]) for c in _piu_calls(b2.node)]
    vj = [int(m) for m in re.findall(r"vec_jacobian_p(\d)", src(b2.node))]
    ok = len(set(ks + vj)) == 1 and len(ks) == 2 and len(vj) >= 1
    ctx.decide(rule, ok, b2, None, construct="nonlinear_solve:design-slot",
               detail=f"param_index_update slots {ks}, vec_jacobian slots {vj}",
               bad_detail=f"nonlinear_solve updates parameter slots {ks} but its reverse rule differentiates slots {vj}")
    # MechanicsInverse vjp wrappers: vjp(lambda z: F(..z..), P) -- z replaces the outer param that is P
    mi = ctx.need_module(MI)
    n_w = 0
    for sc in mi.scope.descendants():
        if sc.kind != "lambda":
            continue
        lam = sc.node
        body = lam.body
        # pattern vjp(lambda z: CALL, P)[1](cot)[0]
        for c in ast.walk(body):
            if isinstance(c, ast.Call) and dotted(c.func) == "vjp" and len(c.args) == 2 and isinstance(c.args[0], ast.Lambda):
                inner = c.args[0]
                if sc.parent is not None and any(inner is ch.node for ch in sc.children) is False:
                    continue
                z = inner.args.args[0].arg
                P = c.args[1]
                call = inner.body
                if not isinstance(call, ast.Call):
                    continue
                outer = [a.arg for a in lam.args.args]
                args = [a.id if isinstance(a, ast.Name) else None for a in call.args]
                if z not in args:
                    continue
                n_w += 1
                zi = args.index(z)
                others = [a for a in args if a != z]
                # the outer parameter missing from the inner call is the one z stands for
                missing = [o for o in outer if o not in others and o not in ("av", "vx", "dt")]
                # order check: inner args with z replaced by P must be a subsequence of outer params in order
                repl = [a if a != z else (P.id if isinstance(P, ast.Name) else "?") for a in args]
                in_order = [o for o in outer if o in repl] == [r for r in repl if r in outer]
                ok = isinstance(P, ast.Name) and P.id in missing and in_order
                # every parameter the wrapper accepts must reach the wrapped computation
                used = {n.id for n in ast.walk(body) if isinstance(n, ast.Name)}
                unused = [o for o in outer if o not in used]
                ctx.decide(rule, not unused, sc, lam, construct=f"vjp-wrapper-forwards:{src(call)[:60]}",
                           detail="all wrapper parameters are forwarded",
                           bad_detail=f"wrapper accepts {unused} but never forwards it to `{src(call)[:60]}` (the value silently falls back to the callee's default)")
                ctx.decide(rule, ok, sc, c, construct=f"vjp-wrapper:{src(call)[:60]}",
                           detail=f"differentiation variable replaces `{P.id if isinstance(P, ast.Name) else '?'}` (argument {zi})",
                           bad_detail=f"vjp primal is `{src(P)}` but the lambda variable stands for `{missing}` in `{src(call)}`")
    if n_w < 5:
        raise Incomplete(f"{n_w} vjp wrappers found in MechanicsInverse (5 on the reference tree)")


# ------------------------------------------------------------------ D4

def d4(ctx):
    rule = "D4/T7-adjoint-sign"
    cg = ctx.need(f"{ES}:solve_trust_region_minimization")
    ccfg = cfg_of(cg)
    ps = cg.params()
    rname, pname = ps[1], ps[3]
    # first definition of the search direction d before the loop: d = -precond(r)
    loops = [n for n in ccfg.nodes if n.kind == "for"]
    if not loops:
        raise Incomplete("CG loop not found")
    loop = loops[0]
    # roles of the CG locals, read off the call of the inner-product recurrence (its parameter names are the roles)
    rec = ctx.need(f"{ES}:cg_inner_products_preconditioned")
    rps = rec.params()        # alpha, beta, zd, dd, rPr, z, d
    role = {}
    for n in ccfg.nodes:
        if n.kind == "stmt" and n.ast is not None and loop in n.loops:
            for c in ast.walk(n.ast):
                if isinstance(c, ast.Call) and isinstance(c.func, ast.Name) and len(c.args) == len(rps) and all(isinstance(a, ast.Name) for a in c.args):
                    vals = ctx.repo.resolve(c.func, cg)
                    if any(isinstance(v, FuncVal) and v.scope.name.startswith("cg_inner_products") for v in vals):
                        role = {p: a.id for p, a in zip(rps, c.args)}
    if not role:
        raise Incomplete("CG recurrence call not found: roles of the CG locals unknown")
    dn, zn, an, rprn = role[rps[6]], role[rps[5]], role[rps[0]], role[rps[4]]
    ddefs = ccfg.reaching(loop, dn)
    pre = [d for d in ddefs if loop not in d.loops]
    ok = False
    shown = "?"
    if len(pre) == 1:
        e = expand(ccfg, pre[0], pre[0].ast.value)
        shown = src(e)
        ok = isinstance(e, ast.UnaryOp) and isinstance(e.op, ast.USub) and isinstance(e.operand, ast.Call) \
            and isinstance(e.operand.func, ast.Name) and e.operand.func.id == pname \
            and isinstance(e.operand.args[0], ast.Name) and e.operand.args[0].id == rname
    ctx.decide(rule, ok, cg, pre[0].ast if pre else None, construct="cg-first-direction",
               detail=f"d0 = {shown}", bad_detail=f"first CG direction is `{shown}`, not -precond(r): the solver no longer minimises r.z + 1/2 z.H z")
    # step: z + alpha*d with alpha = rPr/curvature, curvature = d.(H d)
    u = Unifier(cg)
    u.bind = {"z": zn, "d": dn, "alpha": an, "rPr": rprn}
    hv = ps[2]
    c1 = u.assigns(f"d @ {hv}(d)", target="curvature")
    c2 = u.assigns("rPr / curvature", target="alpha")
    c3 = u.assigns("z + alpha * d", target="zNp1")
    ok = len(c1) == 1 and len(c2) == 1 and len(c3) == 1
    ctx.decide(rule, ok, cg, c3[0] if c3 else None, construct="cg-step",
               detail="z_{k+1} = z + (rPr/curvature) d, curvature = d.(H d)",
               bad_detail="CG step is not z + (rPr/curvature)*d with curvature = d.(H d)")
    # residual recurrence r += alpha*H d
    rs = [n for n in ccfg.nodes if n.kind == "stmt" and isinstance(n.ast, ast.AugAssign) and isinstance(n.ast.target, ast.Name)
          and n.ast.target.id == rname]
    ok = len(rs) == 1 and isinstance(rs[0].ast.op, ast.Add) and u.match(rs[0].ast.value, f"alpha * {hv}(d)")
    ctx.decide(rule, ok, cg, rs[0].ast if rs else None, construct="cg-residual-recurrence",
               detail="r += alpha*H d", bad_detail="CG residual recurrence is not r += alpha*hess_vec_func(d)")
    # both reverse rules: rhs is the cotangent itself, lam = results[0] unnegated, cotangent unnegated
    for q in ("nonlinear_solve_b", "nonlinear_solve_with_state_b"):
        b = ctx.need(f"{NS}:{q}")
        bcfg = cfg_of(b)
        vname = b.params()[-1]
        calls = [c for c in calls_in(b) if dotted(c.func) and dotted(c.func).endswith("solve_trust_region_minimization")]
        if len(calls) != 1:
            ctx.undecided(rule, b, None, construct=f"{q}:adjoint-solve", detail=f"{len(calls)} adjoint solves found")
            continue
        c = calls[0]
        r = actual(c, ps, rname)
        x0 = actual(c, ps, ps[0])
        node = [n for n in bcfg.nodes if n.ast is not None and any(x is c for x in ast.walk(n.ast))][0]
        x0s = src(expand(bcfg, node, x0))
        ok = isinstance(r, ast.Name) and r.id == vname
        ctx.decide(rule, ok, b, c, construct=f"{q}:adjoint-rhs", detail=f"linear term is the cotangent `{src(r)}`",
                   bad_detail=f"adjoint solve uses `{src(r)}` as linear term instead of the cotangent `{vname}`")
        okz = ("zeros_like" in x0s) or x0s.startswith("0.0 *") or x0s.startswith("0 *")
        ctx.decide(rule, okz, b, c, construct=f"{q}:adjoint-start", detail=f"start {x0s}",
                   bad_detail=f"adjoint solve does not start from zero (`{x0s}`)")
        tr_ = actual(c, ps, ps[4])
        trx = src(expand(bcfg, node, tr_)) if tr_ is not None else "?"
        ok_tr = trx.replace(" ", "") in ("np.inf", "onp.inf", "numpy.inf", "jnp.inf", "float('inf')", 'float("inf")', "math.inf", "np.Inf")
        ctx.decide(rule, ok_tr, b, c, construct=f"{q}:adjoint-solve-unbounded", detail=f"trust-region radius of the adjoint solve is {trx}",
                   bad_detail=f"the adjoint (linear) solve is run with trust-region radius `{trx}`: the CG iteration stops at that boundary, so for a large "
                              f"cotangent or a soft Hessian the adjoint vector is not H^-1 v and every sensitivity is wrong")
        hv = actual(c, ps, ps[2])
        hvx = src(expand(bcfg, node, hv))
        okh = "hessian_vec" in hvx and "-" not in hvx
        ctx.decide(rule, okh, b, c, construct=f"{q}:adjoint-operator", detail=f"operator {hvx}",
                   bad_detail=f"adjoint operator is `{hvx}`, not the Hessian-vector product")
        # cotangents: vec_jacobian_pK(Uu, lam)[0] with lam = results[0]
        for n in bcfg.nodes:
            if n.ast is None or n.kind != "stmt":
                continue
            for cc in ast.walk(n.ast):
                if isinstance(cc, ast.Call) and isinstance(cc.func, ast.Attribute) and cc.func.attr.startswith("vec_jacobian_p"):
                    a1 = expand(bcfg, n, cc.args[1]) if len(cc.args) > 1 else None
                    s1 = src(a1)
                    ok = bool(re.fullmatch(r".*solve_trust_region_minimization\(.*\)\[0\]", s1.replace("\n", " "))) and not s1.startswith("-")
                    ctx.decide(rule, ok, b, cc, construct=f"{q}:{cc.func.attr}:adjoint-vector",
                               detail="contracted with lam = (CG solution)[0]",
                               bad_detail=f"parameter Jacobian is contracted with `{s1[:80]}` instead of the adjoint solution")
        # returned values not negated
        for r_ in b.returns():
            neg = [x for x in ast.walk(r_) if isinstance(x, ast.UnaryOp) and isinstance(x.op, ast.USub)]
            ctx.decide(rule, not neg, b, r_, construct=f"{q}:return-sign", detail="cotangents returned unnegated",
                       bad_detail="a returned cotangent is negated although lam already carries the IFT minus sign")


# ------------------------------------------------------------------ D5

def _canon_ctor(fn_node, coords_expr):
    """Canonical text of the statements that build shapes / shapeGrads / vols / mode table."""
    out = []
    for st in fn_node.body:
        if isinstance(st, ast.Expr) and isinstance(st.value, ast.Constant):
            continue
        s = norm_src(st)
        s = s.replace("jax.vmap", "vmap").replace(coords_expr, "COORDS")
        out.append(s)
    return out


def _clone(u):
    v = Unifier(u.scope)
    v.locals = set(u.locals)
    v.bind = dict(u.bind)
    return v


def d5(ctx):
    rule = "D5/T6-adjoint-function-space"
    a = ctx.need(f"{AFS}:construct_function_space_for_adjoint")
    f = ctx.need("optimism.FunctionSpace:construct_function_space_from_parent_element")
    # delegation is agreement
    for c in calls_in(a):
        if dotted(c.func) and dotted(c.func).endswith("construct_function_space_from_parent_element"):
            ctx.proved(rule, a, c, construct="delegates", detail="adjoint constructor delegates to the ordinary constructor")
            return
    # sibling agreement statement by statement: the ordinary constructor's statements, with `mesh.coords` replaced by the adjoint
    # constructor's coordinate parameter, must each unify (names of locals are pattern variables, bound consistently) with
    # exactly one statement of the adjoint constructor; the returned FunctionSpace must then unify as well.
    import copy
    fmesh = f.params()[0]
    cpar = a.params()[0]

    class _Sub(ast.NodeTransformer):
        def visit_Attribute(self, n):
            if n.attr == "coords" and isinstance(n.value, ast.Name) and n.value.id == fmesh:
                return ast.Name(id=cpar, ctx=ast.Load())
            return self.generic_visit(n)

        def visit_Call(self, n):
            n = self.generic_visit(n)
            if isinstance(n.func, ast.Attribute) and isinstance(n.func.value, ast.Name) and n.func.value.id == "jax" and n.func.attr == "vmap":
                n.func = ast.Name(id="vmap", ctx=ast.Load())
            return n
    u = Unifier(a, extra_locals=())
    # the rebuilt mesh shadows the parameter `mesh`: it is a local of the adjoint constructor only after its rebuild statement
    u.locals.discard(a.params()[2])
    a_stmts = [st for st in a.node.body if not (isinstance(st, ast.Expr) and isinstance(st.value, ast.Constant))]
    roles = ("shapes", "shapeGrads", "mode-table", "vols")
    k = 0
    for st_f in f.node.body:
        if isinstance(st_f, ast.Expr) and isinstance(st_f.value, ast.Constant):
            continue
        if isinstance(st_f, ast.Return):
            tf = _Sub().visit(copy.deepcopy(st_f.value))
            if isinstance(tf, ast.Call):
                tf.func = ast.Attribute(value=ast.Name(id="FunctionSpace", ctx=ast.Load()), attr="FunctionSpace", ctx=ast.Load()) \
                    if isinstance(tf.func, ast.Name) else tf.func
            ra = a.returns()
            ok = len(ra) == 1 and u.match(ra[0], tf)
            ctx.decide(rule, ok, a, ra[0] if ra else None, construct="return-fields",
                       detail="FunctionSpace(shapes, vols, shapeGrads, mesh, quadratureRule, isAxisymmetric) with the same wiring as the ordinary constructor",
                       bad_detail=f"adjoint constructor returns `{src(ra[0]) if ra else '?'}`: the FunctionSpace fields are not filled like in the ordinary constructor `{src(st_f.value)}`")
            continue
        tf = _Sub().visit(copy.deepcopy(st_f))
        hits = [st_a for st_a in a_stmts if Unifier.match(_clone(u), st_a, tf)]
        role = roles[k] if k < len(roles) else f"stmt{k}"
        k += 1
        if len(hits) == 1:
            u.match(hits[0], tf)
        ctx.decide(rule, len(hits) == 1, a, hits[0] if hits else None, construct=f"stmt:{role}",
                   detail="identical to the ordinary constructor modulo mesh.coords -> coords and names of locals",
                   bad_detail=f"no statement of the adjoint constructor agrees with the ordinary constructor's `{src(st_f)[:140]}` (modulo mesh.coords -> {cpar} and "
                              f"names of locals): the rebuilt function space differs from one built on the moved mesh")
    # rebuilt mesh carries the perturbed coordinates and every other field of the input mesh
    for st in walk_local(a.node):
        if isinstance(st, ast.Assign) and isinstance(st.value, ast.Call) and dotted(st.value.func) and dotted(st.value.func).endswith("Mesh"):
            for k in st.value.keywords:
                if k.arg == "coords":
                    ok = isinstance(k.value, ast.Name) and k.value.id == a.params()[0]
                else:
                    ok = src(k.value) == f"mesh.{k.arg}"
                ctx.decide(rule, ok, a, k.value, construct=f"mesh-field:{k.arg}", detail=f"{k.arg} = {src(k.value)}",
                           bad_detail=f"rebuilt mesh field {k.arg} = {src(k.value)}")


# ------------------------------------------------------------------ selftest variants

def variants(repo):
    from optilint.selftest import Variant, sub, sub_in_func, alpha_rename, reformat
    N = "optimism/inverse/NonlinearSolve.py"
    O = "optimism/Objective.py"
    MIp = "optimism/inverse/MechanicsInverse.py"
    A = "optimism/inverse/AdjointFunctionSpace.py"
    E = "optimism/EquationSolver.py"
    return [
        Variant("extra solver parameter (arity drift)", E,
                sub("def solve_trust_region_minimization(x, r, hess_vec_func, precond, trSize, settings):",
                    "def solve_trust_region_minimization(x, r, hess_vec_func, precond, mult_by_approx_hessian, trSize, settings):"),
                "D1/T10-link"),
        Variant("solver returns 3-tuple at one exit", N,
                sub_in_func("nonlinear_solve_with_state_b", "results = EquationSolver", "results, _ = EquationSolver"),
                "D1/T10-link"),
        Variant("swap residual order in bwd", N,
                sub_in_func("nonlinear_solve_b", "Uu,designParams = rdata", "designParams,Uu = rdata"),
                "D2/T5-custom-vjp-contract"),
        Variant("drop parameter restore in bwd", N,
                sub_in_func("nonlinear_solve_with_state_b", "    mechanicalEnergy.p = p\n", "    pass\n"),
                "D2/T5-custom-vjp-contract"),
        Variant("dp1 from vec_jacobian_p2", N,
                sub("dp1 = mechanicalEnergy.vec_jacobian_p1(Uu, lam)[0]", "dp1 = mechanicalEnergy.vec_jacobian_p2(Uu, lam)[0]"),
                "D3/T5-parameter-slots"),
        Variant("param_index_update wrong slot", O,
                sub("return Params(p[0], p[1], newParam, p[3], p[4], p[5])", "return Params(p[0], newParam, p[2], p[3], p[4], p[5])"),
                "D3/T5-parameter-slots"),
        Variant("vec_jac_xp1 differentiates slot 2", O,
                sub("vjp(lambda q1: self.grad_x(x, param_index_update(p,1,q1)), p[1])", "vjp(lambda q1: self.grad_x(x, param_index_update(p,2,q1)), p[1])"),
                "D3/T5-parameter-slots"),
        Variant("vjp wrapper wrong primal", MIp,
                sub("vjp(lambda z: grad(energyFunction, 0)(u, q, z, x), iv)", "vjp(lambda z: grad(energyFunction, 0)(u, q, iv, z), iv)"),
                "D3/T5-parameter-slots"),
        Variant("closure captures self.p", O,
                sub("vjp(lambda q1: self.grad_x(x, param_index_update(p,1,q1)), p[1])", "vjp(lambda q1: self.grad_x(x, param_index_update(self.p,1,q1)), p[1])"),
                "D3/T5-parameter-slots"),
        Variant("wrapper drops dt", MIp,
                sub("vjp(lambda z: compute_ivs_update(z, ivs, dt), x)", "vjp(lambda z: compute_ivs_update(z, ivs), x)"),
                "D3/T5-parameter-slots"),
        Variant("negated adjoint rhs", N,
                sub_in_func("nonlinear_solve_with_state_b", "                                                             v,\n",
                            "                                                             -v,\n"),
                "D4/T7-adjoint-sign"),
        Variant("adjoint solve inside a finite trust region", N,
                sub_in_func("nonlinear_solve_with_state_b", "np.inf", "settings.tr_size"), "D4/T7-adjoint-sign"),
        Variant("adjoint space: axisymmetric branch copies the cartesian one", A,
                sub("        el_vols = compute_element_volumes_axisymmetric\n", "        el_vols = compute_element_volumes\n"), "D5/T6-adjoint-function-space"),
        Variant("alpha-rename adjoint function space", A, alpha_rename("construct_function_space_for_adjoint"), None),
        Variant("adjoint space uses mesh.coords for volumes", A,
                sub("vols = vmap(el_vols, (None, 0, None, 0, None))(coords,", "vols = vmap(el_vols, (None, 0, None, 0, None))(mesh.coords,"),
                "D5/T6-adjoint-function-space"),
        Variant("adjoint space mode table swapped", A,
                sub("        el_vols = compute_element_volumes\n        isAxisymmetric = False",
                    "        el_vols = compute_element_volumes_axisymmetric\n        isAxisymmetric = False"),
                "D5/T6-adjoint-function-space"),
        Variant("reformat NonlinearSolve", N, reformat(), None),
        Variant("reformat Objective", O, reformat(), None),
        Variant("reformat MechanicsInverse", MIp, reformat(), None),
        Variant("alpha-rename nonlinear_solve_with_state_b", N, alpha_rename("nonlinear_solve_with_state_b"), None),
    ]
