"""C07 -- solution sensitivities equal implicit-function-theorem derivatives (structural clauses).

  D1  the reverse rules can run: link integrity (arity, unpack width, attributes) over the cones of
      nonlinear_solve / nonlinear_solve_with_state, their _f/_b rules and the inverse helpers;
  D2  jax.custom_vjp contract of each decorated function: defvjp(f, b) exists; f returns
      (out, residuals) with out = the primal applied to f's own arguments; b takes (nondiff..., residuals, cotangent);
      what b unpacks from the residuals plays the role it was packed with (the solution is the linearisation point,
      the saved arguments are the parameters); b returns one cotangent per differentiable argument;
      the objective's parameters are restored to the parameters of the forward solve before any Hessian / VJP use;
  D3  parameter-slot tables agree: Objective's jvp/vjp closures and public methods, param_index_update, the cotangent
      structure returned by the reverse rule, and the vjp wrappers in MechanicsInverse;
  D4  adjoint sign: the adjoint system is solved as the minimiser of v.z + 1/2 z.H z (first CG
      direction -precond(v)), so lam = -H^-1 v, and lam^T dg/dp is returned unnegated;
  D5  the adjoint function space equals the ordinary one built on the moved mesh: both constructors interpreted on symbols, parameters
      matched by role (mode literal comparisons, record types read off them, result field they are kept in), the mesh parameter and its
      coordinate field found by anti-unification (the input of the ordinary constructor that the adjoint one replaces by its extra argument);
      mapped computations (vmap) and broadcasts are compared in a normal form, so `broadcast_to` / a vmapped identity / `repeat` of a new
      axis, closing over / partial-binding / in_axes=None arguments, delegation to the ordinary constructor are one and the same value.
Not decided: numerical equality with a dense reference.

How it is decided (rules/C07_sym.py): the functions are *interpreted on symbols* -- the forward rule, the primal (down to the call
of the minimiser) and the backward rule of every custom_vjp function, Objective's constructor and methods, param_index_update, the
MechanicsInverse factories, both function-space constructors.  Verdicts are read off the resulting values (terms), never off the
spelling of the code: local names, temporaries, extracted helpers, lambda/def, decorators, keyword arguments, unpacking styles,
statement order, swapped branches with negated tests and loops over constant ranges are executed away.
"""
from __future__ import annotations

import ast
import re

from optilint.model import FuncVal, ExtVal
from optilint.core import Incomplete
from .common import link_cone, src, const_value
from . import C07_sym as S

LEVEL = "other"
RULE_TEXT = ("obligations = (scope in cone x link-integrity) + (custom_vjp function x contract clause, decided on the symbolic value of the "
             "forward / backward rule) + (parameter slot x table agreement) + adjoint sign + (mode x function-space field) agreement of the "
             "adjoint constructor with the ordinary one on the moved mesh")
EXPLANATION = ("Static analysis of optimism/inverse/*.py and optimism/Objective.py by symbolic interpretation of the source (nothing is "
               "imported or executed): link integrity of the reverse-rule cones, the custom_vjp packing/unpacking contract by roles of the "
               "values, slot agreement of the parameter tables, the sign convention of the adjoint solve, and equality of the adjoint "
               "function space with the ordinary constructor applied to the moved mesh. "
               "Numerical agreement with dense implicit-function-theorem derivatives is not decided.")

NS = "optimism.inverse.NonlinearSolve"
OBJ = "optimism.Objective"
MI = "optimism.inverse.MechanicsInverse"
AFS = "optimism.inverse.AdjointFunctionSpace"
ES = "optimism.EquationSolver"
FS = "optimism.FunctionSpace"

SOLVER = f"{ES}:solve_trust_region_minimization"
STOP = {SOLVER}


def _g(fn):
    """rule function whose interpreter failures (construct not interpretable, path budget) mean `undecided`, never a crash of the check"""
    def wrapped(*a, **kw):
        try:
            return fn(*a, **kw)
        except (S.EvalError, S.Crash, S.Raised, RecursionError) as ex:
            raise Incomplete(f"{fn.__name__}: the code cannot be interpreted symbolically ({type(ex).__name__}: {str(ex)[:120]})")
    wrapped.__name__ = getattr(fn, "__name__", "rule")
    return wrapped


def run(ctx):
    for m in (NS, OBJ, MI, AFS, ES):
        ctx.need_module(m)
    ctx.guard(d1, ctx)
    ctx.guard(_g(d2), ctx)
    ctx.guard(_g(d3), ctx)
    ctx.guard(_g(d4), ctx)
    ctx.guard(_g(d5), ctx)
    ctx.trust("jax.custom_vjp protocol: fwd returns (out, residuals); bwd(nondiff..., residuals, cotangent) returns a tuple "
              "with one entry per differentiable primal argument")
    ctx.trust("preconditioned CG started at z=0 with first direction -M r minimises r.z + 1/2 z.H z, i.e. z = -H^-1 r")
    ctx.trust("the objective handed to nonlinear_solve / nonlinear_solve_with_state is an optimism.Objective.Objective whose derivative "
              "operators are not overridden; functions that are not interpreted (minimiser, warm start, preconditioner) do not "
              "reassign its parameters")
    ctx.assume("Hessian at the solution is non-singular (property text)")


# ------------------------------------------------------------------ shared: interpreter set-up

def _straight_line(sc):
    """no `while` loop in the function's own body: a helper, not an iterative algorithm (`for` loops over literal sequences, `with` blocks and
    `try` blocks whose body completes are interpreted; a loop over data makes the interpretation fail and the call opaque)"""
    key = "_c07_straight"
    if not hasattr(sc, key):
        from optilint.model import walk_local
        ok = not any(isinstance(n, (ast.While, ast.AsyncFor, ast.AsyncWith)) or type(n).__name__ == "TryStar"
                     for n in walk_local(sc.node))
        setattr(sc, key, ok)
    return getattr(sc, key)


def _inline(sc):
    """Interpretation policy.  Functions of the modules the property is about (optimism.inverse.*, optimism.Objective, the ordinary
    function-space constructor's module) are always interpreted; any other function of the library is interpreted when it is a
    helper without a `while` loop, so that moving code into a helper -- in whatever module -- changes nothing.
    Algorithms (minimisers, linear solvers, warm start) are opaque applications.  A body the interpreter cannot follow makes that
    call an opaque application as well, with heap and decisions rolled back.  The adjoint CG solver is opaque on purpose: its call
    is the event the sign rule looks at."""
    if sc.qualname in STOP:
        return False
    mn = sc.module.name
    if mn.startswith("optimism.inverse.") or mn in (OBJ, FS):
        return True
    return _straight_line(sc)


def _interp(ctx, plan=(), duck=None, stubs=None, types=None, inline=None):
    I = S.Interp(ctx.repo, inline or _inline, plan, touch=ctx.touch)
    if duck:
        I.duck = dict(duck)
    if stubs:
        I.stubs = dict(stubs)
    if types:
        I.sym_types = dict(types)
    return I


def _match(pat, term, holes, b):
    """first-order matching of canonical keys: `holes` are canonical symbols of the pattern"""
    if pat in holes:
        if pat in b:
            return b[pat] == term
        b[pat] = term
        return True
    if isinstance(pat, tuple) and isinstance(term, tuple) and len(pat) == len(term):
        return all(_match(x, y, holes, b) for x, y in zip(pat, term))
    return pat == term


def _strip_sign(c):
    """(sign, core) of a canonical term: unary minus and multiplication by a negative constant are peeled off"""
    sign = 1
    while True:
        if isinstance(c, tuple) and c and c[0] == "un" and c[1] == ("c", "-"):
            sign, c = -sign, c[2]
            continue
        if isinstance(c, tuple) and c and c[0] == "bin" and c[1] == ("c", "*"):
            a, b = c[2], c[3]
            if a[0] == "c" and isinstance(a[1], (int, float)) and not isinstance(a[1], bool) and a[1] in (-1, -1.0):
                sign, c = -sign, b
                continue
            if b[0] == "c" and isinstance(b[1], (int, float)) and not isinstance(b[1], bool) and b[1] in (-1, -1.0):
                sign, c = -sign, a
                continue
        return sign, c


def _is_zero(c):
    """True: certainly zero; False: certainly a non-zero quantity of the analysis; None: unknown"""
    if not isinstance(c, tuple) or not c:
        return None
    if c[0] == "c":
        if c[1] is None:
            return True           # jax reads a None cotangent as zero
        return (c[1] == 0 and not isinstance(c[1], bool)) if isinstance(c[1], (int, float)) else None
    if c[0] == "app" and c[1][0] == "ext":
        last = c[1][1].split(".")[-1]
        if last in ("zeros_like", "zeros"):
            return True
        if last in ("tree_map", "tree_multimap") and len(c[2]) >= 2 and c[2][1][0] == "ext" and c[2][1][1].split(".")[-1] == "zeros_like":
            return True
        if last in ("tree_map", "tree_multimap") and len(c[2]) >= 2 and c[2][1][0] == "lam" and len(c[2][1]) == 5:
            return True if _is_zero(c[2][1][3]) is True else None          # every leaf is mapped to zero
        if last in ("full_like", "full") and len(c[2]) >= 3:
            return _is_zero(c[2][2])
        if last in ("ones_like", "ones"):
            return False
        if last in ("array", "asarray", "copy") and len(c[2]) == 2:
            return _is_zero(c[2][1])
        return None
    if c[0] == "un" and c[1] == ("c", "-"):
        return _is_zero(c[2])
    if c[0] == "bin":
        opn, a, b = c[1][1], c[2], c[3]
        za, zb = _is_zero(a), _is_zero(b)
        if opn in ("*", "@"):
            if za or zb:
                return True
            if za is False and zb is False:
                return False
            return None
        if opn == "/":
            return True if za else (False if za is False else None)
        if opn in ("+", "-"):
            if za and zb:
                return True
            if opn == "-" and a == b:
                return True
            if (za and zb is False) or (zb and za is False):
                return False
            return None
    if c[0] in ("sym", "vjp", "jvp"):
        return False
    if c[0] == "item":
        z = _is_zero(c[1])
        return True if z else (False if c[1][0] == "sym" else None)
    return None


class _Agg:
    """one obligation per construct: PROVED when every path agrees, REFUTED with the first counter-example otherwise"""

    def __init__(self, ctx):
        self.ctx = ctx
        self.items = {}
        self.order = []

    def add(self, rule, construct, ok, scope, node, detail, bad_detail=None):
        k = (rule, construct)
        if k not in self.items:
            self.items[k] = [ok, scope, node, detail, bad_detail]
            self.order.append(k)
            return
        cur = self.items[k]
        # REFUTED dominates UNDECIDED dominates PROVED
        rank = lambda v: 2 if v is False else (1 if v is None else 0)
        if rank(ok) > rank(cur[0]):
            self.items[k] = [ok, scope, node, detail, bad_detail]

    def flush(self):
        for (rule, construct) in self.order:
            ok, scope, node, detail, bad = self.items[(rule, construct)]
            self.ctx.decide(rule, ok, scope, node, construct=construct, detail=detail, bad_detail=bad or detail)
        self.items, self.order = {}, []


# ------------------------------------------------------------------ D1

def d1(ctx):
    roots = []
    m = ctx.need_module(NS)
    for c in m.scope.children:
        if c.is_function():
            roots.append(c)
    roots.append(m.scope)
    for mod in (MI, AFS):
        mm = ctx.need_module(mod)
        roots += [c for c in mm.scope.children if c.is_function()]
    if len(roots) < 10:
        raise Incomplete("inverse modules expose fewer functions than on the reference tree")

    def stop(s):
        return s.module.name.startswith(("optimism.phasefield", "optimism.contact", "optimism.material"))
    link_cone(ctx, "D1/T10-link", roots, "reverse rules and inverse helpers", stop=stop, min_scopes=40)


# ------------------------------------------------------------------ custom_vjp functions and their symbolic model

def _custom_vjp_functions(ctx):
    """[(primal scope, nondiff_argnums)] of NonlinearSolve: decorated with custom_vjp / partial(custom_vjp, nondiff_argnums=...), or
    rebound at module level as `f = custom_vjp(f, nondiff_argnums=...)`."""
    m = ctx.need_module(NS)

    def nondiff_of(call):
        nd = ()
        if isinstance(call, ast.Call):
            for k in call.keywords:
                if k.arg == "nondiff_argnums":
                    try:
                        v = _interp(ctx).eval(k.value, S.Env(m.scope, None))         # literal, or a module-level constant
                    except (S.EvalError, S.Crash, S.Raised):
                        return None
                    v = tuple(v) if isinstance(v, (tuple, list)) else (v,)
                    if not all(isinstance(i, int) and not isinstance(i, bool) for i in v):
                        return None
                    nd = v
        return nd

    def is_cvjp(e, scope):
        vals = ctx.repo.resolve(e, scope)
        return any(isinstance(v, ExtVal) and v.name == "jax.custom_vjp" for v in vals)

    out = []
    aliases = ctx.__dict__.setdefault("_c07_cvjp_alias", {})
    for c in m.scope.children:
        if c.kind != "function":
            continue
        nondiff = None
        for d in c.node.decorator_list:
            if is_cvjp(d, m.scope) or (isinstance(d, ast.Call) and (is_cvjp(d.func, m.scope) or any(is_cvjp(a, m.scope) for a in d.args))):
                nondiff = nondiff_of(d)
                if nondiff is None:
                    raise Incomplete(f"nondiff_argnums of {c.name} is not a literal")
        if nondiff is None:
            # `g = custom_vjp(f, nondiff_argnums=...)` / `g = partial(custom_vjp, nondiff_argnums=...)(f)` at module level (g may be f itself)
            for st in m.tree.body:
                if not (isinstance(st, ast.Assign) and len(st.targets) == 1 and isinstance(st.targets[0], ast.Name) and isinstance(st.value, ast.Call)
                        and len(st.value.args) >= 1 and isinstance(st.value.args[0], ast.Name) and st.value.args[0].id == c.name):
                    continue
                call = st.value
                if isinstance(call.func, ast.Call) and any(is_cvjp(a_, m.scope) for a_ in call.func.args):
                    nondiff = nondiff_of(call.func)               # partial(custom_vjp, nondiff_argnums=...)(f)
                elif not isinstance(call.func, ast.Call) and is_cvjp(call.func, m.scope):
                    nondiff = nondiff_of(call)                    # custom_vjp(f, nondiff_argnums=...)
                else:
                    continue
                if nondiff is None:
                    raise Incomplete(f"nondiff_argnums of {c.name} is not a literal")
                aliases.setdefault(c.qualname, set()).add(st.targets[0].id)
        if nondiff is not None:
            out.append((c, tuple(nondiff)))
    return out


def _resolve_fn(ctx, e, scope):
    for v in ctx.repo.resolve(e, scope):
        if isinstance(v, FuncVal):
            return v.scope
    return None


def _registration(ctx, prim):
    """(fwd scope, bwd scope, node) of `prim.defvjp(fwd, bwd)` at module level (positional or keyword), or None"""
    m = prim.module
    for st in ast.walk(m.tree):
        if isinstance(st, ast.Call) and isinstance(st.func, ast.Attribute) and st.func.attr == "defvjp":
            tgt = _resolve_fn(ctx, st.func.value, m.scope)
            alias = isinstance(st.func.value, ast.Name) and st.func.value.id in ctx.__dict__.get("_c07_cvjp_alias", {}).get(prim.qualname, ())
            if tgt is not prim and not alias:
                continue
            args = list(st.args)
            kw = {k.arg: k.value for k in st.keywords}
            f = args[0] if len(args) > 0 else kw.get("fwd")
            b = args[1] if len(args) > 1 else kw.get("bwd")
            if f is None or b is None:
                return (None, None, st)
            return (_resolve_fn(ctx, f, m.scope), _resolve_fn(ctx, b, m.scope), st)
    return None


class _VjpModel:
    """Symbolic model of one custom_vjp triple.  Symbols: nd<i> for the non-differentiable arguments (each may be an Objective),
    arg<j> for the differentiable ones, `cotangent`.  A symbol is *typed* as a record (see Interp.sym_types) when the code shows its
    type: a differentiable argument whose cotangent is returned as a record, the initial parameter cell of the objective when the
    primal stores a record there."""

    def __init__(self, ctx, prim, fwd, bwd, nondiff):
        self.ctx, self.prim, self.fwd, self.bwd, self.nondiff = ctx, prim, fwd, bwd, nondiff
        self.pp = prim.params()
        self.ndiff_idx = [i for i in range(len(self.pp)) if i not in nondiff]
        self.objcls = ctx.need(f"{OBJ}:Objective")
        self.types = {}            # symbol name -> (tname, fields, ndefaults)
        # the parameter cell of an objective holds a parameter record from the start: the constructor argument it is filled from is
        # typed with the parameter namedtuple of the objective's module (when there is exactly one)
        try:
            I, obj, _ = _objective_instance(ctx)
            cell = obj.attrs.get(_objective_param_attr(ctx, I, obj))
            nts = _params_class(ctx, I)
            if isinstance(cell, S.T) and cell.op == "sym" and cell.args[0].startswith("self.init.") and len(nts) == 1:
                for i in nondiff:
                    self.types[f"nd{i}.init.{cell.args[0][len('self.init.'):]}"] = (nts[0].name, nts[0].fields, len(nts[0].defaults))
        except Incomplete:
            pass

    def duck(self):
        return {f"nd{i}": self.objcls for i in self.nondiff}

    def arg_values(self, I):
        return [I.sym(f"nd{i}") if i in self.nondiff else I.sym(f"arg{i}") for i in range(len(self.pp))]

    def mk(self, stubs=None):
        return lambda plan: _interp(self.ctx, plan, duck=self.duck(), stubs=stubs, types=self.types)

    def run_primal(self):
        def run(I):
            f = S.Closure(self.prim, I.module_env(self.prim.module))
            return I.call_closure(f, self.arg_values(I), {}, force=True)
        return S.paths(self.mk(), run)

    def primal_stub(self):
        return {self.prim.qualname: lambda I, f, a, k: I.call_opaque_repo(f, a, k)}

    def run_fwd(self):
        def run(I):
            f = S.Closure(self.fwd, I.module_env(self.fwd.module))
            return I.call_closure(f, self.arg_values(I), {}, force=True)
        return S.paths(self.mk(self.primal_stub()), run)

    def run_bwd(self, residuals):
        def run(I):
            f = S.Closure(self.bwd, I.module_env(self.bwd.module))
            args = [I.sym(f"nd{i}") for i in self.nondiff] + [residuals, I.sym("cotangent")]
            return I.call_closure(f, args, {}, force=True)
        return S.paths(self.mk(self.primal_stub()), run)

    def pretty(self, c, oi=None, pattr=None):
        """rendering of a canonical key with the analyser's symbols replaced by the names of the primal's parameters"""
        t = S.show(c)
        for i, nm in enumerate(self.pp):
            t = re.sub(rf"\b(nd|arg){i}\b", nm, t)
        t = re.sub(r"(\w+)\.init\.(\w+)", r"\1.\2@entry", t)
        return t


def _obj_of(I, nondiff):
    """[(index, Obj)] of the non-differentiable arguments that were used as an Objective on this path"""
    return [(i, I.duck_obj[f"nd{i}"]) for i in nondiff if f"nd{i}" in I.duck_obj]


def _residual_pattern(I, obj, pattr):
    """canonical residual R(?U, ?P): what Objective.gradient(?U) evaluates to when the parameter cell holds ?P"""
    U, P = I.sym("?U"), I.sym("?P")
    saved = obj.attrs.get(pattr)
    obj.attrs[pattr] = P
    I.in_canon += 1
    try:
        r = I.call(I.getattr(obj, "gradient"), [U], {})
    except (S.EvalError, S.Crash, S.Raised) as ex:
        raise Incomplete(f"Objective.gradient cannot be interpreted: {ex}")
    finally:
        I.in_canon -= 1
        obj.attrs[pattr] = saved
    c = I.canon(r)
    if not (S.occurs(c, U.c) and S.occurs(c, P.c)):
        raise Incomplete("Objective.gradient(x) does not depend on both x and the stored parameters")
    return c, U.c, P.c


def _analyse_deriv(c, pattern):
    """c: canonical vjp / jvp term.  dict describing which derivative of the residual it is, or a string (why it is none)."""
    pat, U, P = pattern
    kind = c[0]
    F, primals = c[1], c[2][1:]
    if len(primals) != 1:
        return "differentiates with respect to several primal arguments at once"
    X = primals[0]
    if kind == "vjp":
        other, idx = c[3], c[4][1]
    else:
        tang = c[3][1:]
        other, idx = (tang[0] if len(tang) == 1 else None), 0
    if not (isinstance(F, tuple) and F and F[0] == "lam" and F[1] == 1):
        return "the differentiated callable cannot be interpreted"
    fbody, Z = F[3], F[4][0]
    b = {}
    if not _match(pat, fbody, {U, P}, b) or U not in b or P not in b:
        return "the differentiated function is not the residual"
    ub, pb = b[U], b[P]
    info = dict(kind=kind, X=X, other=other, index=idx, Z=Z, U=ub, P=pb, wrt=None)
    if ub == Z and not S.occurs(pb, Z):
        info["wrt"] = "x"
    elif not S.occurs(ub, Z):
        if pb == Z:
            info["wrt"] = "p-all"
        elif pb[0] == "rec":
            fields = pb[2:]
            slots = [j for j, f in enumerate(fields) if f == Z]
            rest = [f for j, f in enumerate(fields) if j not in slots]
            if len(slots) == 1 and not any(S.occurs(f, Z) for f in rest):
                info.update(wrt="p", slot=slots[0], fields=fields, tname=pb[1])
            else:
                info["wrt"] = "p-mixed"
        elif S.occurs(pb, Z):
            info["wrt"] = "p-mixed"
    return info


# ------------------------------------------------------------------ D2 (+ the reverse-rule parts of D3 and D4)

def _vjp_models(ctx):
    key = "_c07_models"
    if hasattr(ctx, key):
        return getattr(ctx, key)
    fns = _custom_vjp_functions(ctx)
    setattr(ctx, key, fns)
    return fns


def d2(ctx):
    fns = _vjp_models(ctx)
    if len(fns) < 2:
        raise Incomplete(f"{len(fns)} custom_vjp functions found in inverse.NonlinearSolve (2 on the reference tree)")
    for (prim, nondiff) in fns:
        ctx.guard(_g(_reverse_rule), ctx, prim, nondiff, ("D2",))


def _reverse_rule(ctx, prim, nondiff, parts):
    """All obligations about one custom_vjp triple; `parts` selects the rule families that are emitted (D2 / D3 / D4), so that the three
    rule functions share one analysis."""
    cache = ctx.__dict__.setdefault("_c07_reverse", {})
    if prim.qualname not in cache:
        rec, err = [], None
        try:
            _reverse_rule_body(ctx, prim, nondiff, lambda *a: rec.append(a))
        except Incomplete as e:
            err = e
        cache[prim.qualname] = (rec, err)
    rec, err = cache[prim.qualname]
    agg = _Agg(ctx)
    for (part, rule, construct, ok, scope, node, detail, *bad) in rec:
        if part in parts:
            agg.add(rule, construct, ok, scope, node, detail, bad[0] if bad else None)
    agg.flush()
    if err is not None:
        raise Incomplete(str(err))


def _why(ps):
    return "; ".join(sorted({f"{p.kind}: {p.info}" for p in ps if p.kind != "return"}))[:220]


def _reverse_rule_body(ctx, prim, nondiff, emit):
    R2, R3, R4 = "D2/T5-custom-vjp-contract", "D3/T5-parameter-slots", "D4/T7-adjoint-sign"
    name = prim.name
    reg = _registration(ctx, prim)
    if reg is None:
        # registrations of the module whose receiver is not one of the (other) custom_vjp functions: possibly this one, in an idiom not recognised
        known = {c.qualname for c, _ in _vjp_models(ctx)}
        aliases = {a_ for q, names in ctx.__dict__.get("_c07_cvjp_alias", {}).items() for a_ in names}
        other = []
        for n in ast.walk(prim.module.tree):
            if isinstance(n, ast.Attribute) and n.attr == "defvjp":
                tgt = _resolve_fn(ctx, n.value, prim.module.scope)
                if not ((tgt is not None and tgt.qualname in known) or (isinstance(n.value, ast.Name) and n.value.id in aliases)):
                    other.append(n)
        emit("D2", R2, f"{name}:defvjp", None if other else False, prim, None,
             f"no {name}.defvjp(fwd, bwd) registration was recognised among the {len(other)} defvjp calls of the module",
             f"{name} is decorated with custom_vjp but no {name}.defvjp(fwd, bwd) registration exists")
        return
    fwd, bwd, regnode = reg
    if fwd is None or bwd is None:
        emit("D2", R2, f"{name}:defvjp", None, prim, regnode, "cannot resolve the fwd / bwd functions of the registration")
        return
    emit("D2", R2, f"{name}:defvjp", True, prim, regnode, f"{name}.defvjp({fwd.name}, {bwd.name})")
    ctx.touch(fwd)
    ctx.touch(bwd)
    pp = prim.params()
    ndiff = len(pp) - len(nondiff)
    M = _VjpModel(ctx, prim, fwd, bwd, nondiff)
    P_ = M.pretty

    # ---- signatures (arity is what jax checks; names are free)
    nf = len(fwd.params())
    okf = fwd.n_required() <= len(pp) and (len(pp) <= nf or fwd.has_varargs())
    emit("D2", R2, f"{name}:fwd-signature", okf, fwd, None,
         f"fwd has {nf} parameters, primal {len(pp)}", f"forward rule {fwd.name} takes {nf} parameters but the primal takes {len(pp)}")
    nb = len(bwd.params())
    okb = bwd.n_required() <= len(nondiff) + 2 and (len(nondiff) + 2 <= nb or bwd.has_varargs())
    emit("D2", R2, f"{name}:bwd-signature", okb, bwd, None, f"bwd takes {nb} parameters: {len(nondiff)} non-differentiable + residuals + cotangent",
         f"backward rule takes {nb} parameters; expected {len(nondiff)} non-differentiable + residuals + cotangent")
    if not okb or not okf:
        return

    # ---- interpretation; repeated while it reveals record types of symbols (cotangent records, parameter cell)
    st = None
    for _round in range(4):
        st = _evaluate(M, ndiff)
        if st.get("stop") or not st.get("new_types"):
            break
        M.types.update(st["new_types"])
    if st.get("stop"):
        construct, verdict, scope, detail = st["stop"]
        emit("D2", R2, f"{name}:{construct}", verdict, scope, None, detail, detail)
        return
    fv, good, bps, pgood = st["fv"], st["good"], st["bps"], st["pgood"]
    emit("D2", R2, f"{name}:fwd-returns-pair", True, fwd, None, "fwd returns (out, residuals)")

    # ---- forward rule: out is the primal applied to the rule's own arguments, in order
    I0 = good[0].I
    args0 = M.arg_values(I0)
    outc = I0.canon(fv[0])
    pvals = {p.I.canon(p.value) for p in pgood}
    want = ("app", ("func", prim.qualname), I0.canon(tuple(args0)), ("tuple",))

    def out_verdict(o):
        if o[:4] == want or o in pvals:
            return True
        # positively another value: a named value (an argument, a constant), or a term of the same shape that differs in a named value
        if _atomic(o) or any(_differs(o[:4] if o[0] == "app" else o, w)[0] is False for w in [want] + sorted(pvals, key=repr)):
            return False
        return None
    verdicts = [out_verdict(o) for o in st["fwd_outs"]]
    okout = False if any(v is False for v in verdicts) else (None if any(v is None for v in verdicts) else True)
    emit("D2", R2, f"{name}:fwd-calls-primal", okout, fwd, None, f"out = {P_(outc)[:120]}",
         f"forward output `{P_(outc)[:160]}` is not the primal applied to the forward rule's own arguments in order (nor the value the primal computes for them)")
    SOL = outc            # what jax hands out as the solution; the backward rule must linearise there
    V = ("sym", "cotangent")

    oi, pattr, PF = st["oi"], st["pattr"], st["PF"]
    emit("D2", R2, f"{name}:primal", True, prim, None, f"the minimiser runs with {pp[oi]}.{pattr} = {P_(PF)[:120]}")

    # which differentiable argument sits where in the parameters
    where = {}
    for j in M.ndiff_idx:
        a = I0.canon(args0[j])
        if PF == a:
            where[j] = "all"
        elif PF[0] == "rec" and a in PF[2:]:
            where[j] = PF[2:].index(a)
        elif S.occurs(PF, a):
            where[j] = "mixed"
        else:
            where[j] = None                           # not a parameter: the initial guess

    # ---- backward rule, path by path
    n_ret = 0
    for p in bps:
        I = p.I
        if p.kind == "crash":
            unpack = "unpack" in p.info
            emit("D2", R2, f"{name}:residual-width" if unpack else f"{name}:bwd-executes", False, bwd, None, "",
                 (f"residuals packed by {fwd.name} as `{P_(I.canon(fv[1]))[:80]}` but the backward rule fails to unpack them: {p.info}" if unpack
                  else f"the backward rule raises on the values handed over by jax: {p.info}"))
            continue
        if p.kind == "raise":
            continue
        if p.kind == "error":
            emit("D2", R2, f"{name}:bwd-executes", None, bwd, None, f"backward rule cannot be interpreted: {p.info}")
            continue
        n_ret += 1
        emit("D2", R2, f"{name}:residual-width", True, bwd, None, "residuals are unpacked with the width they were packed with")
        emit("D2", R2, f"{name}:bwd-executes", True, bwd, None, "the backward rule runs on (nondiff..., residuals, cotangent)")
        rv = p.value
        okw = isinstance(rv, tuple) and len(rv) == ndiff
        emit("D2", R2, f"{name}:bwd-return-width", okw, bwd, None, f"returns {len(rv) if isinstance(rv, tuple) else '?'} cotangents for {ndiff} differentiable arguments",
             f"backward rule returns {len(rv) if isinstance(rv, tuple) else 'a non-tuple'} but the primal has {ndiff} differentiable arguments")
        # the objective of the backward rule is the objective of the primal
        bobjs = _obj_of(I, nondiff)
        for pos, i in enumerate(nondiff):
            if i == oi:
                ok = [k for k, _ in bobjs] == [oi]
                emit("D2", R2, f"{name}:bwd-nondiff#{pos}", ok, bwd, None, f"argument {pos} of the backward rule is used as the objective, like primal argument `{pp[i]}`",
                     f"the backward rule uses its argument(s) {[nondiff.index(k) for k, _ in bobjs]} as the objective; the objective of the primal is non-differentiable argument {pos} `{pp[oi]}`")
            else:
                s = ("sym", f"nd{i}")
                roles = lambda J: {(ev.extra or {}).get("params")[k] for ev in J.events if (ev.extra or {}).get("params")
                                   for k, a in enumerate(ev.c[2][1:]) if a == s and k < len(ev.extra["params"])}
                roles_b, roles_p = roles(I), roles(pgood[0].I)
                # positively wrong only when the backward rule treats this argument as the objective; the callee parameter names it is
                # handed to are reported, not compared (they belong to other modules and may be renamed there)
                ok = f"nd{i}" not in I.duck_obj
                emit("D2", R2, f"{name}:bwd-nondiff#{pos}", ok, bwd, None,
                     f"argument {pos} is forwarded as {sorted(roles_b) or 'nothing'} (primal: {sorted(roles_p) or 'nothing'})",
                     f"the backward rule uses its argument {pos} (primal argument `{pp[i]}`) as an objective; the primal hands it on as {sorted(roles_p)}")
        if len(bobjs) != 1 or bobjs[0][0] != oi:
            continue
        obj = bobjs[0][1]
        pattern = _residual_pattern(I, obj, pattr)
        stale = ("sym", f"{obj.label}.init.{pattr}")

        def check_point_and_params(tag, info):
            """shared by the Hessian operator and the parameter VJPs: linearisation point = solution, parameters = forward parameters"""
            Uc = info["U"] if info["wrt"] != "x" else info["X"]
            emit("D2", R2, f"{name}:residual-role:solution", True if Uc == SOL else (None if S.occurs(Uc, SOL) else False), bwd, None, "the saved solution is the linearisation point of every derivative",
                 f"the {tag} is linearised at `{P_(Uc)[:100]}`, not at the solution returned by the primal: the residuals are not unpacked in the roles they were packed with")
            Pc = info["P"]
            if info["wrt"] == "p":
                # parameters with the differentiation variable put back
                Pc = I.canon_rec(info["tname"], tuple(info["X"] if j == info["slot"] else f for j, f in enumerate(info["fields"])))
            is_stale = Pc == stale or (Pc[0] == "rec" and all(f == ("item", stale, ("c", j)) for j, f in enumerate(Pc[2:])))
            emit("D2", R2, f"{name}:params-restored-before:{tag}", not is_stale, bwd, None, "objective parameters assigned from the residuals before this use",
                 f"`{pp[oi]}.{pattr}` is not assigned before the {tag} is evaluated; the reverse rule would linearise under stale parameters")
            if not is_stale:
                okp = _differs(Pc, PF)[0]
                emit("D2", R2, f"{name}:params-from-residuals", okp, bwd, None, f"{pp[oi]}.{pattr} = the parameters of the forward solve",
                     f"the {tag} is evaluated with parameters `{P_(Pc)[:140]}`; the forward solve used `{P_(PF)[:140]}`")
                for j in M.ndiff_idx:
                    if where[j] is not None:
                        emit("D2", R2, f"{name}:residual-role:primal-arg#{j}", okp, bwd, None, f"saved argument `{pp[j]}` is used as the parameters it was in the forward solve",
                             f"saved primal argument `{pp[j]}` does not play the role it had in the forward solve: parameters are `{P_(Pc)[:140]}` instead of `{P_(PF)[:140]}`")

        # ---- the adjoint solve
        solves = [ev for ev in I.events if ev.c[1] == ("func", SOLVER)]
        if len(solves) != 1:
            emit("D4", R4, f"{bwd.name}:adjoint-solve", None, bwd, None, f"{len(solves)} adjoint solves found on a path of the backward rule")
            emit("D2", R2, f"{name}:uses", None, bwd, None, "no Hessian/VJP use found in the backward rule")
            continue
        ev = solves[0]
        a = ev.c[2][1:]
        if len(a) != 6:
            emit("D4", R4, f"{bwd.name}:adjoint-solve", None, bwd, None, "the CG solver does not have the 6 parameters (x, r, hess_vec, precond, trSize, settings)")
            continue
        emit("D4", R4, f"{bwd.name}:adjoint-solve", True, bwd, None, "one CG solve of the adjoint system")
        x0, rhs, hv, precond, trs, sett = a
        LAM = ("item", ev.c, ("c", 0))
        s_rhs, core = _strip_sign(rhs)
        emit("D4", R4, f"{bwd.name}:adjoint-rhs", True if core == V else (None if S.occurs(core, V) else False), bwd, None, "linear term is the cotangent",
             f"adjoint solve uses `{P_(rhs)[:80]}` as linear term instead of the cotangent")
        z0 = _is_zero(x0)
        emit("D4", R4, f"{bwd.name}:adjoint-start", True if z0 else (_solver_ignores_start(ctx) or (False if z0 is False else None)), bwd, None,
             f"start {P_(x0)[:60]}", f"adjoint solve does not start from zero (`{P_(x0)[:80]}`)")
        ok_tr = _unbounded(trs)
        emit("D4", R4, f"{bwd.name}:adjoint-solve-unbounded", ok_tr, bwd, None, f"trust-region radius of the adjoint solve is {P_(trs)}",
             f"the adjoint (linear) solve is run with trust-region radius `{P_(trs)[:60]}`: the CG iteration stops at that boundary, so for a large "
             f"cotangent or a soft Hessian the adjoint vector is not H^-1 v and every sensitivity is wrong")
        # operator
        if hv[0] == "lam" and hv[1] == 1:
            W = hv[4][0]
            sgn, body = _strip_sign(hv[3])
            if body[0] in ("vjp", "jvp"):
                opinfo = _analyse_deriv(body, pattern)
            elif body[0] == "tuple" and len(body) == 2 and body[1][0] == "vjp":
                opinfo = "the operator returns the 1-tuple of a vjp pullback instead of a vector"
            else:
                opinfo = "the operator is not a derivative of the residual"
            if isinstance(opinfo, dict):
                okh = opinfo["wrt"] == "x" and opinfo["other"] == W and sgn == 1 and opinfo["index"] == 0
                emit("D4", R4, f"{bwd.name}:adjoint-operator", okh, bwd, None, "operator w -> H(solution, parameters) w",
                     f"adjoint operator is `{P_(hv[3])[:120]}`, not the (positive) Hessian-vector product")
                if opinfo["wrt"] == "x":
                    check_point_and_params("hessian-vector product of the adjoint solve", opinfo)
            else:
                emit("D4", R4, f"{bwd.name}:adjoint-operator", False if body[0] in ("vjp", "jvp", "tuple", "sym", "c") else None, bwd, None, "",
                     f"adjoint operator `{P_(hv[3])[:120]}`: {opinfo}")
        else:
            emit("D4", R4, f"{bwd.name}:adjoint-operator", None, bwd, None, f"adjoint operator `{P_(hv)[:100]}` cannot be interpreted")

        # ---- returned cotangents
        if not okw:
            continue
        for pos, j in enumerate(M.ndiff_idx):
            cot = rv[pos]
            cname = pp[j]
            if where[j] is None:
                z = _is_zero(_strip_sign(I.canon(cot))[1])
                emit("D4", R4, f"{bwd.name}:guess-cotangent", True if z else (False if z is False else None), bwd, None,
                     f"cotangent of `{cname}` (not a parameter of the equilibrium) is zero",
                     f"the cotangent returned for `{cname}` is `{P_(I.canon(cot))[:100]}`; the solution does not depend on the initial guess, the cotangent must vanish")
                continue
            if where[j] == "mixed":
                emit("D3", R3, f"{bwd.name}:{cname}", None, bwd, None, f"`{cname}` enters the parameters in a way this rule cannot follow")
                continue
            if where[j] == "all":
                if I.typed(cot) is not None:
                    cot = I.as_rec(cot)
                if isinstance(cot, (S.Rec, tuple, list)):
                    vals = list(cot.values) if isinstance(cot, S.Rec) else list(cot)
                    label = cot.tname if isinstance(cot, S.Rec) else "tuple"
                    entries = [(k, v, f"{bwd.name}:{label}[{k}]") for k, v in enumerate(vals)]
                    ty = I.sym_types.get(PF[1]) if PF[0] == "sym" else None
                    nfields = len(PF) - 2 if PF[0] == "rec" else (len(ty[1]) if ty else None)
                    if nfields is not None and len(vals) != nfields:
                        emit("D3", R3, f"{bwd.name}:{label}:width", False, bwd, None, "", f"cotangent of `{cname}` has {len(vals)} entries, the parameters {nfields}")
                        continue
                else:
                    emit("D3", R3, f"{bwd.name}:{cname}", None, bwd, None, f"cotangent of `{cname}` is `{P_(I.canon(cot))[:80]}`, not a record / tuple")
                    continue
            else:
                entries = [(where[j], cot, f"{name}:design-slot")]
            for (k, v, construct) in entries:
                c = I.canon(v)
                pk = PF[2 + k] if PF[0] == "rec" else ("item", PF, ("c", k))
                nonekey = _none_key(pk)
                okdetail = f"slot {k} <- lam . d residual / d parameter[{k}] at parameter[{k}] (None exactly when the parameter is None)"
                if c == ("c", None):
                    always = all(q.kind != "return" or not isinstance(q.value, tuple) or len(q.value) != ndiff or
                                 q.I.canon(_entry(q.I, q.value[pos], k)) == ("c", None) for q in bps)
                    if always:
                        # slot never differentiated (not one of the property's parameter slots): recorded, not an obligation
                        note = f"{bwd.name}: parameter slot {k} receives no sensitivity (constant None)"
                        if note not in ctx.notes:
                            ctx.notes.append(note)
                        continue
                    emit("D3", R3, construct, p.decided(nonekey) is True, bwd, None, okdetail,
                         f"cotangent for parameter slot {k} is None on a path where parameter slot {k} is not known to be None (guarded by another slot?)")
                    continue
                s_ret, core = _strip_sign(c)
                if core[0] != "vjp":
                    emit("D3", R3, construct, False if (core[0] in ("jvp", "sym", "c", "tuple", "rec") or (core[0] == "item" and core[1][0] == "sym")) else None, bwd, None, "",
                         f"cotangent for parameter slot {k} is `{P_(core)[:120]}`, not a vector-Jacobian product of the residual")
                    continue
                info = _analyse_deriv(core, pattern)
                if not isinstance(info, dict):
                    emit("D3", R3, construct, None, bwd, None, f"cotangent for slot {k}: {info}")
                    continue
                ok = info["wrt"] == "p" and info.get("slot") == k and info["X"] == pk and info["index"] == 0
                emit("D3", R3, construct, ok, bwd, None, okdetail,
                     f"cotangent for parameter slot {k} is the derivative with respect to "
                     f"{'slot ' + str(info.get('slot')) if info['wrt'] == 'p' else info['wrt']} at primal `{P_(info['X'])[:60]}` (must be slot {k} at parameter[{k}])")
                s_lam, ct = _strip_sign(info["other"])
                emit("D4", R4, f"{bwd.name}:slot{k}:adjoint-vector", True if ct == LAM else (None if S.occurs(ct, LAM) else False), bwd, None, "contracted with lam = (CG solution)[0]",
                     f"parameter Jacobian is contracted with `{P_(info['other'])[:80]}` instead of the adjoint solution")
                emit("D4", R4, f"{bwd.name}:return-sign", s_ret * s_lam * s_rhs == 1, bwd, None, "lam = -H^-1 v and lam . dR/dp is returned with that sign",
                     f"the signs do not combine to the implicit-function-theorem sign: cotangent {'negated' if s_ret < 0 else 'as is'}, adjoint vector "
                     f"{'negated' if s_lam < 0 else 'as is'}, linear term of the adjoint solve {'negated' if s_rhs < 0 else 'as is'}")
                if info["wrt"] == "p":
                    check_point_and_params(f"vjp-slot{info.get('slot')}", info)
    if n_ret == 0 and not any(p.kind in ("crash", "error") for p in bps):
        emit("D2", R2, f"{name}:bwd-executes", None, bwd, None, "no path of the backward rule returns")


def _evaluate(M, ndiff):
    """One round of interpretation of forward rule, backward rule and primal under the current symbol types."""
    out = {"new_types": {}}
    fps = M.run_fwd()
    good = [p for p in fps if p.kind == "return"]
    if not good:
        bad = any(p.kind == "crash" for p in fps)
        out["stop"] = ("fwd-returns-pair", False if bad else None, M.fwd, f"forward rule cannot be evaluated ({_why(fps)})")
        return out
    fv = good[0].value
    if any(not (isinstance(p.value, tuple) and len(p.value) == 2) for p in good):
        opaque = any(isinstance(p.value, S.T) for p in good)          # the value of a call that is not interpreted: its width is unknown
        out["stop"] = ("fwd-returns-pair", None if opaque else False, M.fwd, "forward rule does not return a pair (out, residuals)")
        return out
    # path-dependent forward values: every one of them must be the primal's value; the backward rule is analysed on the first
    out["fwd_outs"] = [p.I.canon(p.value[0]) for p in good]
    bps = M.run_bwd(fv[1])
    for p in bps:
        if p.kind == "return" and isinstance(p.value, tuple) and len(p.value) == ndiff:
            for pos, j in enumerate(M.ndiff_idx):
                v = p.value[pos]
                if isinstance(v, S.Rec) and f"arg{j}" not in M.types:
                    out["new_types"][f"arg{j}"] = (v.tname, v.fields, v.ndefaults)
    pps = M.run_primal()
    pgood = [p for p in pps if p.kind == "return"]
    if not pgood:
        out["stop"] = ("primal", False if any(p.kind == "crash" for p in pps) else None, M.prim, f"the primal cannot be evaluated ({_why(pps)})")
        return out
    facts = set()
    live = None
    for p in pgood:
        objs = _obj_of(p.I, M.nondiff)
        if len(objs) != 1:
            facts.add(("?", None, None))
            continue
        oi, obj = objs[0]
        args0 = M.arg_values(p.I)
        argsyms = [("sym", f"arg{j}") for j in M.ndiff_idx]
        # parameter cell: the attribute of the objective holding (something built from) a differentiable argument when the primal returns
        cells = [a for a, v in obj.attrs.items() if isinstance(v, (S.T, S.Rec, tuple)) and any(S.occurs(p.I.canon(v), s) for s in argsyms)]
        facts.add((oi, tuple(sorted(cells)), tuple(p.I.canon(obj.attrs[a]) for a in sorted(cells))))
        live = obj
    if len(facts) != 1 or ("?", None, None) in facts:
        out["stop"] = ("primal", None, M.prim, "cannot identify the objective argument / its parameter cell in the primal")
        return out
    oi, cells, cellvals = next(iter(facts))
    if len(cells) == 0:
        hidden = sorted({q for p in pgood for q in _may_store_on(M.ctx, p.I, ("sym", f"nd{oi}"), [("sym", f"arg{j}") for j in M.ndiff_idx])})
        out["stop"] = ("primal", None if hidden else False, M.prim,
                       (f"the primal hands the objective and its differentiable arguments to {hidden}, which is not interpreted and assigns attributes of the objective"
                        if hidden else
                        "the primal never stores (a function of) its differentiable arguments in the parameters of the objective "
                        "before the minimiser runs: the equilibrium that is returned does not depend on them, every sensitivity is meaningless"))
        return out
    if len(cells) != 1:
        out["stop"] = ("primal", None, M.prim, f"the primal stores differentiable arguments in {len(cells)} attributes of the objective")
        return out
    pattr = cells[0]
    val = live.attrs[pattr]
    stale_name = f"{live.label}.init.{pattr}"
    if stale_name not in M.types:
        if isinstance(val, S.Rec):
            out["new_types"][stale_name] = (val.tname, val.fields, val.ndefaults)
        else:
            # the cell is not rebuilt as a literal record (p._replace(...), list(p), ...): its type is the parameter record of the
            # module that defines the objective (the only namedtuple defined there)
            nts = _params_class(M.ctx, pgood[0].I)
            if len(nts) == 1:
                out["new_types"][stale_name] = (nts[0].name, nts[0].fields, len(nts[0].defaults))
    # a differentiable argument that is stored as the parameter cell, whole, is a parameter record (it can then be iterated, zipped, unpacked)
    c0 = cellvals[0]
    if c0[0] == "sym" and c0[1] in {f"arg{j}" for j in M.ndiff_idx} and c0[1] not in M.types:
        nts = _params_class(M.ctx, pgood[0].I)
        if len(nts) == 1:
            out["new_types"][c0[1]] = (nts[0].name, nts[0].fields, len(nts[0].defaults))
    out.update(fv=fv, good=good, bps=bps, pgood=pgood, oi=oi, pattr=pattr, PF=cellvals[0])
    return out


def _may_store_on(ctx, I, objsym, argsyms):
    """qualified names of the un-interpreted repository functions that were called with the objective and with (a function of) a differentiable
    argument, and whose own body assigns an attribute of the parameter the objective was bound to"""
    out = []
    for ev in I.events:
        if ev.c[1][0] != "func" or not (ev.extra or {}).get("params"):
            continue
        args = ev.c[2][1:]
        if not any(S.occurs(x, s_) for x in args for s_ in argsyms):
            continue
        sc = ctx.repo.find(ev.c[1][1])
        if sc is None:
            continue
        for q, x in zip(ev.extra["params"], args):
            if x == objsym and any(isinstance(n, ast.Attribute) and isinstance(n.ctx, ast.Store) and isinstance(n.value, ast.Name) and n.value.id == q
                                   for n in ast.walk(sc.node)):
                out.append(ev.c[1][1])
    return out


def _unbounded(c):
    """True: the radius is +infinity (or a constant beyond any iterate); False: a finite constant or a data-dependent radius; None: unknown"""
    while c[0] == "app" and c[1][0] == "ext" and c[1][1].split(".")[-1] in ("float", "array", "asarray", "float64", "float32") and len(c[2]) == 2:
        c = c[2][1]
    if c[0] == "ext":
        return c[1] in S.INF_NAMES
    if c[0] == "c":
        if isinstance(c[1], (int, float)) and not isinstance(c[1], bool):
            return c[1] >= 1e15
        return False
    if c[0] in ("attr", "item", "sym"):
        return False          # a setting / data value: finite in general
    if c[0] == "un" and c[1] == ("c", "-"):
        return False
    return None


def _entry(I, v, k):
    if I.typed(v) is not None:
        v = I.as_rec(v)
    if isinstance(v, S.Rec):
        return v.values[k] if k < len(v.values) else None
    if isinstance(v, tuple):
        return v[k] if k < len(v) else None
    return v


def _none_key(pk_canon):
    """decision key of the atom `pk == None` (see Interp.atom)"""
    lo, hi = sorted([pk_canon, ("c", None)], key=repr)
    return ("eq", lo, hi)


def _cg_paths(ctx):
    """paths of the CG solver interpreted on symbols, its loop body run once on generic data (shared by the sign rule and the start rule)"""
    key = "_c07_cg_paths"
    if key not in ctx.__dict__:
        cg = ctx.need(SOLVER)
        ps = cg.params()

        def mk(plan):
            I = _interp(ctx, plan)
            I.loop_once = True
            return I

        def run(I):
            f = S.Closure(cg, I.module_env(cg.module))
            return I.call_closure(f, [I.sym(p_) for p_ in ps], {}, force=True)
        ctx.__dict__[key] = S.paths(mk, run, limit=64)
    return ctx.__dict__[key]


def _occurs_nonzero(c, x):
    """x occurs in the canonical term c outside every sub-term that is certainly zero (0*x, zeros_like(x))"""
    if _is_zero(c) is True:
        return False
    if c == x:
        return True
    if isinstance(c, tuple):
        if len(c) == 5 and c[0] == "lam" and isinstance(c[4], tuple) and x in c[4]:
            return False
        return any(_occurs_nonzero(y, x) for y in c)
    return False


def _solver_ignores_start(ctx):
    """True when the CG solver uses its first parameter only as a shape donor (0*x, zeros_like(x)): on every interpreted path -- early exits
    and one generic iteration -- neither the returned iterate nor anything handed to the Hessian or the preconditioner depends on it
    through a non-zero term.  The iteration then starts from zero whatever is passed.  None: not established."""
    key = "_c07_cg_start"
    if key in ctx.__dict__:
        return ctx.__dict__[key]
    res = None
    try:
        cg = ctx.repo.find(SOLVER)
        ps = cg.params() if cg is not None else []
        paths = _cg_paths(ctx) if len(ps) >= 4 else []
        rets = [p for p in paths if p.kind == "return"]
        if rets and any(len(p.I.loop_done) == 1 for p in rets) and not any(p.kind == "error" for p in paths):
            X = ("sym", ps[0])
            dep = False
            for p in rets:
                rv = p.value
                z = p.I.canon(rv[0]) if isinstance(rv, tuple) and rv else p.I.canon(rv)
                terms = [z] + [ev.c for ev in p.I.events if ev.c[1] in (("sym", ps[2]), ("sym", ps[3]))]
                dep = dep or any(_occurs_nonzero(t, X) for t in terms)
            res = True if not dep else None
    except (S.EvalError, S.Crash, S.Raised, Incomplete, RecursionError):
        res = None
    ctx.__dict__[key] = res
    return res


# ------------------------------------------------------------------ D3

def _objective_instance(ctx):
    """(interpreter, Obj): a symbolic Objective whose constructor has been interpreted on fresh symbols"""
    cls = ctx.need(f"{OBJ}:Objective")
    I = _interp(ctx, duck={"self": cls})
    try:
        obj = I.commit_duck("self")
    except (S.EvalError, S.Crash, S.Raised) as ex:
        raise Incomplete(f"Objective.__init__ cannot be interpreted: {ex}")
    return I, obj, cls


def _params_class(ctx, I):
    m = ctx.need_module(OBJ)
    out = []
    for nm, bs in m.scope.bindings.items():
        if bs and bs[-1].kind == "assign":
            try:
                v = I.module_value(m, nm)
            except (S.EvalError, S.Crash, S.Raised):
                continue
            if isinstance(v, S.NTClass):
                out.append(v)
    return out


def d3_param_index_update(ctx):
    """param_index_update(p, k, new) evaluates, for every slot k of the parameter record, to a record with `new` in slot k and p[j] in
    every other slot j (decided on the value the function returns for a symbolic p, whatever the control flow looks like)."""
    rule = "D3/T5-parameter-slots"
    piu = ctx.need(f"{OBJ}:param_index_update")
    if len(piu.params()) < 3:
        raise Incomplete("param_index_update does not take (parameters, index, new value)")
    I0 = _interp(ctx)
    nts = _params_class(ctx, I0)
    types = {"p": (nts[0].name, nts[0].fields, len(nts[0].defaults))} if len(nts) == 1 else {}
    NEW = I0.sym("new")

    def call(k):
        return S.paths(lambda plan: _interp(ctx, plan, types=types),
                       lambda J: J.call_closure(J.module_value(piu.module, piu.name), [J.sym("p"), k, J.sym("new")], {}, force=True))
    first = call(0)
    rec = [p.value for p in first if p.kind == "return" and isinstance(p.value, S.Rec)]
    if not rec:
        ctx.decide(rule, False if any(p.kind == "crash" for p in first) else None, piu, None, construct="param_index_update:index==0",
                   detail=f"param_index_update(p, 0, new) does not evaluate to a record ({_why(first)})")
        return
    n = len(rec[0].fields)
    for k in range(n):
        ps = call(k)
        rets = [p for p in ps if p.kind == "return"]
        bad = [p for p in ps if p.kind != "return"]
        if bad:
            p0 = bad[0]
            ctx.decide(rule, False if p0.kind in ("crash", "raise") else None, piu, None, construct=f"param_index_update:index=={k}",
                       detail=f"param_index_update(p, {k}, new) {p0.kind}: {p0.info}")
            continue
        ok, why = True, []
        for p in rets:
            v = p.value
            if p.I.typed(v) is not None:
                v = p.I.as_rec(v)
            if not isinstance(v, S.Rec) or len(v.values) != n:
                ok = False
                why.append(f"returns {S.show(p.I.canon(v))[:60]} instead of a {n}-field record")
                continue
            for j, x in enumerate(v.values):
                want = NEW.c if j == k else p.I.canon(p.I.getitem(p.I.sym("p"), j))
                if p.I.canon(x) != want:
                    ok = False
                    why.append(f"slot {j} gets {S.show(p.I.canon(x))[:40]} instead of {'the new value' if j == k else S.show(want)[:40]}")
        ctx.decide(rule, ok, piu, None, construct=f"param_index_update:index=={k}",
                   detail=f"index {k}: new value in slot {k}, others copied",
                   bad_detail=f"param_index_update(index=={k}): " + "; ".join(why[:4]))
    if nts and all(len(nt.fields) != n for nt in nts):
        ctx.refuted(rule, piu, None, construct="param_index_update:coverage",
                    detail=f"param_index_update builds {n}-slot records but the parameter tuple of Objective has {[len(nt.fields) for nt in nts]} fields")


def _kinds_of(pattern):
    kinds = set()
    if pattern is None or re.match(pattern, "vec_jac_xp0"):
        kinds.add("vjp")
    if pattern is None or re.match(pattern, "jac_xp_vec"):
        kinds.add("jvp")
    return kinds


def _deriv_terms(c):
    """derivative terms a callable returns: the value itself, or the elements of a returned tuple"""
    sg, core = _strip_sign(c)
    if core[0] in ("vjp", "jvp"):
        return [(core, False)]
    if core[0] == "tuple":
        return [(x, True) for x in core[1:] if isinstance(x, tuple) and x and x[0] in ("vjp", "jvp")]
    return []


def d3_objective_closures(ctx, pattern=None, min_count=6):
    """Every derivative operator that Objective's constructor stores on the instance (callables that return a vjp / jvp of the residual)
    must differentiate at *its own* parameter argument: the slot that is varied is the slot whose current value is the primal, all other
    slots are read from the same argument (not from state captured when the closure was built / traced).  Every method that returns such
    a derivative must take it either at the parameters stored on the object or -- an operator written as a method instead of a stored
    closure -- at its own parameter argument, and must agree with the slot number and the side (vec_ = left, _vec = right) announced by
    its name."""
    rule = "D3/T5-parameter-slots"
    kinds = _kinds_of(pattern)
    I, obj, cls = _objective_instance(ctx)
    init = ctx.need(f"{OBJ}:Objective.__init__")
    pattr = _objective_param_attr(ctx, I, obj)
    pattern_r = _residual_pattern(I, obj, pattr)
    stored = obj.attrs.get(pattr)
    storedc = I.canon(stored)
    # record type of the parameters (the namedtuple of the Objective module): closure arguments are typed with it, so that
    # p[k], p.<field>, p._replace(...) and tuple unpacking all denote the same slots
    nts = _params_class(ctx, I)
    ty = (nts[0].name, nts[0].fields, len(nts[0].defaults)) if len(nts) == 1 else None
    if ty is not None and storedc[0] == "sym":
        I.sym_types[storedc[1]] = ty
    n_cl = 0
    closures = []
    for attr in sorted(obj.attrs):
        v = obj.attrs[attr]
        if isinstance(v, (S.Closure, S.Partial)):
            closures.append((attr, v))
        elif isinstance(v, dict):
            closures += [(f"{attr}[{k!r}]", x) for k, x in v.items() if isinstance(x, (S.Closure, S.Partial))]
        elif isinstance(v, (list, tuple)):
            closures += [(f"{attr}[{k}]", x) for k, x in enumerate(v) if isinstance(x, (S.Closure, S.Partial))]
    for attr, v in closures:
        if isinstance(v, S.Partial):
            n = I.arity(v)
            if n is None:
                continue
            ps = [f"a{i}" for i in range(n)]
        else:
            sc = v.scope
            if sc.has_varargs() or sc.has_kwargs():
                continue
            ps = sc.params()
        syms = [I.sym(f"{attr}.{p_}") for p_ in ps]
        if ty is not None:
            for s_ in syms:
                I.sym_types[s_.args[0]] = ty
        I.in_canon += 1
        snap = I.snapshot()
        try:
            res = I.canon(I.call(v, list(syms), {}))
        except (S.EvalError, S.Crash, S.Raised):
            continue
        finally:
            I.in_canon -= 1
            I.restore(snap)
        for (t, _) in _deriv_terms(res):
            info = _analyse_deriv(t, pattern_r)
            if not isinstance(info, dict) or info["wrt"] is None:
                continue
            symc = [s_.c for s_ in syms]
            if info["wrt"] == "x":
                ok = info["X"] in symc and info["P"] in symc and info["P"] != info["X"]
                why = ""
                if S.occurs(info["P"], storedc) or info["P"] == storedc:
                    why = f"the Hessian action reads the parameters stored on the object (`self.{pattr}`) instead of its own argument"
                if "vjp" in kinds and "jvp" in kinds:
                    ctx.decide(rule, ok, init, None, construct=f"Objective.{attr}:hessian-at-own-parameters",
                               detail="second derivative at the closure's own (x, p)",
                               bad_detail=f"Objective.{attr}: {why or 'the second derivative is not taken at the closure own arguments'}")
                continue
            if info["kind"] not in kinds:
                continue
            if info["wrt"] == "p-all":
                continue            # derivative with respect to the whole parameter record: not a slot operator
            n_cl += 1
            if info["wrt"] != "p":
                ctx.undecided(rule, init, None, construct=f"Objective.{attr}",
                              detail=f"Objective.{attr}: the differentiation variable enters the parameters in more than one place; slot not identified")
                continue
            k = info["slot"]
            fields = info["fields"]
            # own parameter argument: the closure parameter B with primal == B[k] and every other slot == B[j]
            own = [b for b in symc if info["X"] == ("item", b, ("c", k)) and all(f == ("item", b, ("c", j)) for j, f in enumerate(fields) if j != k)]
            slot_ok = any(info["X"] == ("item", b, ("c", k)) for b in symc)
            point_ok = info["U"] in symc
            ok = bool(own) and point_ok and info["index"] == 0
            why = []
            if not slot_ok:
                prim_slots = [f"{S.show(info['X'])}"]
                why.append(f"differentiates slot {k} at primal `{prim_slots[0]}` (must be the closure's own parameter[{k}])")
            elif not own:
                foreign = [j for j, f in enumerate(fields) if j != k and not any(f == ("item", b, ("c", j)) for b in symc)]
                if any(S.occurs(fields[j], storedc) for j in foreign):
                    why.append(f"slots {foreign} are read from `self.{pattr}`, i.e. from state captured when the closure is traced, not from the closure's own parameter argument")
                else:
                    why.append(f"slots {foreign} of the updated tuple are not the closure's own parameter argument")
            ctx.decide(rule, ok, init, None, construct=f"Objective.{attr}",
                       detail=f"slot {k}: varies parameter[{k}] of its own argument at primal parameter[{k}]",
                       bad_detail=f"Objective.{attr} " + "; ".join(why or ["is not an exact parameter derivative of the residual"]))
    # methods
    n_cl_methods = []
    for meth in cls.children:
        if meth.kind != "function" or meth.name.startswith("__"):
            continue
        ps = meth.params()
        if not ps or meth.has_varargs() or meth.has_kwargs():
            continue
        syms = [I.sym(f"{meth.name}.{p_}") for p_ in ps[1:]]
        I.in_canon += 1
        snap = I.snapshot()
        try:
            res = I.canon(I.call(I.getattr(obj, meth.name), list(syms), {}))
        except (S.EvalError, S.Crash, S.Raised):
            continue
        finally:
            I.in_canon -= 1
            I.restore(snap)
        for (t, _) in _deriv_terms(res):
            info = _analyse_deriv(t, pattern_r)
            if not isinstance(info, dict) or info["wrt"] != "p":
                continue
            if info["kind"] not in kinds:
                continue
            ctx.touch(meth)
            digits = re.findall(r"\d+", meth.name)
            want = int(digits[0]) if digits else (0 if re.fullmatch(r"jacobian_p_vec|vec_jacobian_p", meth.name) else None)
            side = "vjp" if meth.name.startswith("vec_") else ("jvp" if meth.name.endswith("_vec") else None)
            k = info.get("slot")
            exact = info["wrt"] == "p" and info["X"] == ("item", storedc, ("c", k)) and \
                all(f == ("item", storedc, ("c", j)) for j, f in enumerate(info["fields"]) if j != k)
            if not exact:
                # an operator written as a method that takes the parameters as an argument (what the constructor's closures do): it must
                # differentiate at that argument, like a closure
                symc = [s_.c for s_ in syms]
                exact = any(info["X"] == ("item", b, ("c", k)) and all(f == ("item", b, ("c", j)) for j, f in enumerate(info["fields"]) if j != k) for b in symc) \
                    and info["U"] in symc
                if exact:
                    n_cl_methods.append(meth.name)
            ok = exact and (want is None or want == k) and (side is None or side == info["kind"])
            ctx.decide(rule, ok, meth, None, construct=f"Objective.{meth.name}",
                       detail=f"{info['kind']} of the residual with respect to parameter slot {k} at the stored parameters",
                       bad_detail=f"Objective.{meth.name} returns the {info['kind']} with respect to parameter slot {k}"
                                  + (f" (the name announces slot {want})" if want is not None and want != k else "")
                                  + (f" (the name announces a {side})" if side and side != info["kind"] else "")
                                  + ("" if exact else " and not at the parameters stored on the object"))
    if n_cl + len(n_cl_methods) < min_count:
        raise Incomplete(f"{n_cl + len(n_cl_methods)} parameter jvp/vjp operators found in Objective ({min_count} on the reference tree)")


def _objective_param_attr(ctx, I, obj):
    """the attribute of Objective that holds the parameters: the one the constructor fills from a constructor argument and that
    `gradient` reads -- found by role: the reverse rules reassign it; here: the attribute whose replacement changes gradient(x)."""
    cands = []
    for a, v in obj.attrs.items():
        if isinstance(v, S.T) and v.op == "sym" and v.args[0].startswith(f"{obj.label}.init."):
            U = I.sym("?U")
            saved = obj.attrs[a]
            I.in_canon += 1
            try:
                obj.attrs[a] = I.sym("?probe")
                r = I.canon(I.call(I.getattr(obj, "gradient"), [U], {}))
            except (S.EvalError, S.Crash, S.Raised):
                r = None
            finally:
                I.in_canon -= 1
                obj.attrs[a] = saved
            if r is not None and S.occurs(r, ("sym", "?probe")):
                cands.append(a)
    if len(cands) != 1:
        raise Incomplete(f"cannot identify the parameter attribute of Objective (candidates {cands})")
    return cands[0]


def d3(ctx):
    rule = "D3/T5-parameter-slots"
    ctx.guard(_g(d3_param_index_update), ctx)
    ctx.guard(_g(d3_objective_closures), ctx)
    for (prim, nondiff) in _vjp_models(ctx):
        ctx.guard(_g(_reverse_rule), ctx, prim, nondiff, ("D3",))
    ctx.guard(_g(_d3_wrappers), ctx)


def _drop_static(c, x):
    """c with x.shape / x.dtype / x.size / x.ndim replaced by a constant: reading static information of the primal does not make the
    differentiated computation depend on it"""
    if isinstance(c, tuple):
        if len(c) == 3 and c[0] == "attr" and c[1] == x and c[2] in (("c", "shape"), ("c", "dtype"), ("c", "size"), ("c", "ndim")):
            return ("c", "<static>")
        return tuple(_drop_static(y, x) for y in c)
    return c


def _signature(val):
    """(positional parameter names, keyword-only names, names with a default, scope) of a callable created by interpreted code -- a closure, a
    bound method, a partial application of those -- or None when the signature is open (*args / **kwargs)"""
    if isinstance(val, S.Closure):
        sc = val.scope
        if sc.has_varargs() or sc.has_kwargs():
            return None
        pos, kw = list(sc.params()), list(sc.kwonly())
        return pos, kw, [q for q in pos + kw if sc.default_of(q) is not None], sc
    if isinstance(val, S.Bound):
        inner = _signature(val.func)
        if inner is None or not inner[0]:
            return None
        return inner[0][1:], inner[1], inner[2], inner[3]
    if isinstance(val, S.Partial):
        inner = _signature(val.f)
        if inner is None or len(val.args) > len(inner[0]):
            return None
        pos, kw, dfl, sc = inner
        pos = pos[len(val.args):]
        bound = [q for q in pos if q in val.kwargs]
        if bound:
            # parameters after the first one bound by keyword can only be passed by keyword
            i = pos.index(bound[0])
            pos, kw = pos[:i], [q for q in pos[i:] if q not in val.kwargs] + kw
        kw = [q for q in kw if q not in val.kwargs]
        return pos, kw, dfl, sc
    return None


def _d3_wrappers(ctx):
    """MechanicsInverse: every callable handed out by a factory (closure, def, partial application of a module-level function) that returns
    `vjp(F, P)[1](ct)[i]` must (1) differentiate F with respect to the argument whose current value is P -- P itself must not occur in F next
    to the differentiation variable, and every other argument of the callable (defaults included) must reach F; (2) use one of its own
    arguments as cotangent; (3) differ from every other product of the same record (component i of a pull-back with several primals is read as
    the single-primal pull-back with the other primals held fixed, so the spelling of the selection does not matter)."""
    rule = "D3/T5-parameter-slots"
    mi = ctx.need_module(MI)
    n_w = 0
    for fac in mi.scope.children:
        if fac.kind != "function":
            continue
        if fac.has_varargs() or fac.has_kwargs():
            continue

        def run(J, fac=fac):
            f = J.module_value(mi, fac.name)
            return J.call_closure(f, [J.sym(f"{fac.name}.{p_}") for p_ in fac.params()], {}, force=True)
        try:
            ps = S.paths(lambda plan: _interp(ctx, plan), run, limit=48)
        except S.EvalError:
            continue
        seen = set()
        products = {}              # record type -> [(field, canonical product with the wrapper's arguments numbered by position)]
        for p in ps:
            if p.kind != "return" or not isinstance(p.value, S.Rec):
                continue
            J = p.I
            for fld, val in zip(p.value.fields, p.value.values):
                if not isinstance(val, (S.Closure, S.Partial, S.Bound)):
                    continue
                sig = _signature(val)
                if sig is None:
                    continue
                pos, kwonly, defaults, sc = sig
                wid = f"{p.value.tname}.{fld}"
                if wid in seen:
                    continue
                params = pos + kwonly
                syms = [J.sym(f"{fld}.{q}") for q in pos]
                J.in_canon += 1
                snap = J.snapshot()
                try:
                    res = J.canon(J.call(val, list(syms), {q: J.sym(f"{fld}.{q}") for q in kwonly}))
                except (S.EvalError, S.Crash, S.Raised) as ex:
                    ctx.undecided(rule, sc, None, construct=f"vjp-wrapper:{wid}", detail=f"callable cannot be interpreted: {ex}")
                    seen.add(wid)
                    continue
                finally:
                    J.in_canon -= 1
                    J.restore(snap)
                seen.add(wid)
                symc = {("sym", f"{fld}.{q}"): q for q in params}
                sg, core = _strip_sign(res)
                if core[0] != "vjp":
                    # a plain function of its arguments (dense Jacobian ...): every argument must reach the result
                    unused = [q for s_, q in symc.items() if not S.occurs(core, s_)]
                    ctx.decide(rule, not unused, sc, None, construct=f"vjp-wrapper-forwards:{wid}", detail="all parameters reach the result",
                               bad_detail=f"{wid} accepts {unused} but never forwards it to the wrapped computation (the value silently falls back to a default)")
                    continue
                n_w += 1
                products.setdefault(p.value.tname, []).append(
                    (fld, S.subst_many(res, {("sym", f"{fld}.{q}"): ("sym", f"#{i}") for i, q in enumerate(params)}), len(params)))
                F, primals, ct, idx = core[1], core[2][1:], core[3], core[4][1]
                X = primals[idx] if idx < len(primals) else None
                if not (isinstance(F, tuple) and F[0] == "lam" and F[1] == len(primals)):
                    ctx.undecided(rule, sc, None, construct=f"vjp-wrapper:{wid}", detail="differentiated callable cannot be interpreted")
                    continue
                fbody, Zs = F[3], F[4]
                others = {s_: q for s_, q in symc.items() if s_ != ct and s_ not in primals}
                unused = [q for s_, q in others.items() if not S.occurs(fbody, s_)]
                if ct not in symc:
                    unused.append(f"(cotangent is `{S.show(ct)[:40]}`, not an argument)")
                ctx.decide(rule, not unused, sc, None, construct=f"vjp-wrapper-forwards:{wid}", detail="all wrapper parameters are forwarded",
                           bad_detail=f"{wid} accepts {unused} but never forwards it to the differentiated computation (the value silently falls back to the callee's default)")
                inside = [symc.get(x, S.show(x)[:30]) for x in primals if S.occurs(_drop_static(fbody, x), x)]
                notarg = [S.show(x)[:30] for x in primals if x not in symc]
                dead = [i for i, z in enumerate(Zs) if not S.occurs(fbody, z)]
                ok = False if (inside or dead) else (None if notarg else True)
                ctx.decide(rule, ok, sc, None, construct=f"vjp-wrapper:{wid}",
                           detail=f"differentiation variable replaces `{symc.get(X, '?')}` everywhere in the differentiated computation",
                           bad_detail=f"{wid}: vjp primal is `{symc.get(X, S.show(X)[:30] if X else '?')}` but "
                                      + (f"`{inside}` also occurs as a fixed argument of the differentiated computation, so the differentiation variable stands for another argument" if inside
                                         else (f"the primal {notarg} is not an argument of the wrapper" if notarg else "the differentiated computation ignores its variable")))
        # the products one factory hands out under different names are different derivatives: two fields that are one and the same function
        # of their (positional) arguments cannot both be what their names announce
        for tname, prods in products.items():
            if len(prods) < 2:
                continue
            same = [(f1, f2) for i, (f1, c1, n1) in enumerate(prods) for (f2, c2, n2) in prods[i + 1:] if c1 == c2 and n1 == n2]
            ctx.decide(rule, not same, fac, None, construct=f"vjp-wrapper-distinct:{tname}",
                       detail=f"the {len(prods)} vector-Jacobian products of {tname} differentiate with respect to different arguments",
                       bad_detail=f"{tname}: the products {same[0] if same else ''} are the same function of their arguments -- the same derivative is handed out under two names, "
                                  f"so one of them is not the derivative its name announces")
    if n_w < 5:
        raise Incomplete(f"{n_w} vjp wrappers found in MechanicsInverse (5 on the reference tree)")


# ------------------------------------------------------------------ D4

def d4(ctx):
    rule = "D4/T7-adjoint-sign"
    ctx.guard(_g(_d4_cg), ctx)
    for (prim, nondiff) in _vjp_models(ctx):
        ctx.guard(_g(_reverse_rule), ctx, prim, nondiff, ("D4",))


def _dots(c):
    """canonical key with every inner product of two vectors (a @ b, dot / vdot / inner (a, b)) written as a commutative `@`"""
    if not isinstance(c, tuple):
        return c
    c = tuple(_dots(x) for x in c)
    if len(c) == 4 and c[0] == "app" and c[1][0] == "ext" and c[1][1].split(".")[-1] in ("dot", "vdot", "inner") and len(c[2]) == 3 and c[3] == ("tuple",):
        c = ("bin", ("c", "@"), c[2][1], c[2][2])
    if len(c) == 4 and c[0] == "bin" and c[1] == ("c", "@"):
        a, b = sorted([c[2], c[3]], key=repr)
        c = ("bin", ("c", "@"), a, b)
    return c


class _ScalarModel:
    """Canonical terms read as rational functions in the one-dimensional instance of the computation: every inner product is an ordinary
    product, every opaque sub-term (application of an un-interpreted callable, symbol, attribute) an atom keyed by its normal form.
    Two vector expressions that are equal for all data are in particular equal in dimension one, so a *difference* of the two rational
    functions refutes the equality (the converse does not hold and is never used to prove)."""

    def __init__(self):
        from optilint.expr import Algebra
        self.A = Algebra()
        self.names = {}

    def atom(self, key):
        if key not in self.names:
            self.names[key] = f"t{len(self.names)}"
        return self.A.atom(self.names[key])

    def rat(self, c):
        A = self.A
        if not isinstance(c, tuple) or not c:
            return self.atom(repr(c))
        if c[0] == "c" and isinstance(c[1], (int, float)) and not isinstance(c[1], bool):
            return A.const(c[1])
        if c[0] == "un" and c[1] == ("c", "-"):
            return -self.rat(c[2])
        if c[0] == "bin":
            o = c[1][1]
            if o in ("+", "-", "*", "/", "@"):
                a, b = self.rat(c[2]), self.rat(c[3])
                return {"+": lambda: a + b, "-": lambda: a - b, "*": lambda: a * b, "@": lambda: a * b, "/": lambda: a / b}[o]()
            if o == "**" and c[3][0] == "c" and isinstance(c[3][1], int) and not isinstance(c[3][1], bool) and abs(c[3][1]) <= 6:
                return self.rat(c[2]).pow(c[3][1])
        if c[0] == "app" and c[1][0] == "ext" and c[1][1].split(".")[-1] in ("dot", "vdot", "inner") and len(c[2]) == 3:
            return self.rat(c[2][1]) * self.rat(c[2][2])
        if c[0] == "app":
            return self.atom(("app", c[1], tuple(repr(self.rat(x)) for x in c[2][1:]), c[3]))
        return self.atom(c)

    def differ(self, a, b):
        """True: the two terms denote different functions of the data; False: equal in the scalar model (no conclusion); None: model failed"""
        try:
            return not self.A.equal(self.rat(a), self.rat(b))
        except Exception:
            return None


def _same_value(a, b):
    """verdict for term `a` standing where `b` is expected: True (identical up to commutativity of +, * and of inner products), False (the
    values differ already in the one-dimensional instance), None (different spelling, equivalence not decided)"""
    if _dots(a) == _dots(b):
        return True, ""
    d = _ScalarModel().differ(a, b)
    if d is True:
        return False, "the two values differ already for one-dimensional data"
    return None, "a different computation whose equivalence is not decided"


def _d4_cg(ctx):
    """The CG solver minimises r.z + 1/2 z.H z: one generic iteration is interpreted from the initial state (the loop body runs once on
    symbolic data; the Hessian and the preconditioner are opaque callables).  Read off the values: the first vector the Hessian is applied
    to is -precond(r); after the iteration z = z0 + alpha d with z0 = 0 and alpha = r.precond(r) / d.(H d); the residual became r + alpha H d."""
    rule = "D4/T7-adjoint-sign"
    cg = ctx.need(SOLVER)
    ps = cg.params()
    if len(ps) != 6:
        raise Incomplete("the CG solver does not have the parameters (x, r, hess_vec, precond, trSize, settings)")

    paths = _cg_paths(ctx)
    full = [p for p in paths if p.kind == "return" and len(p.I.loop_done) == 1]
    if not full:
        ctx.undecided(rule, cg, None, construct="cg-first-direction", detail=f"no path through one complete CG iteration could be interpreted ({_why(paths)})")
        return
    agg = _Agg(ctx)
    for p in full:
        I = p.I
        X, R, HV, PRE = (I.sym(q) for q in ps[:4])
        Pr = ("app", PRE.c, ("tuple", R.c), ("tuple",))
        d0 = ("un", ("c", "-"), Pr)
        hv_calls = [ev for ev in I.events if ev.c[1] == HV.c]
        if not hv_calls:
            agg.add(rule, "cg-first-direction", None, cg, None, "the Hessian-vector product is never applied in the first iteration")
            continue
        first = hv_calls[0].c[2][1] if len(hv_calls[0].c[2]) > 1 else ("c", None)
        sg, core = _strip_sign(first)
        ok = True if (sg == -1 and core == Pr) else (False if core == Pr or not S.occurs(first, R.c) or core == R.c else None)
        agg.add(rule, "cg-first-direction", ok, cg, None, "d0 = -precond(r)",
                f"first CG direction is `{S.show(first)[:80]}`, not -precond(r): the solver no longer minimises r.z + 1/2 z.H z")
        # expected values after one iteration, built from what the code itself applied the Hessian to
        d = first
        Hd = hv_calls[0].c
        bin_ = lambda o, a, b: I.canon(I.binop(o, S.T("raw", (), a), S.T("raw", (), b)))
        curv = ("bin", ("c", "@"), d, Hd)
        alpha = ("bin", ("c", "/"), ("bin", ("c", "@"), R.c, Pr), curv)
        rv = p.value
        z1 = I.canon(rv[0]) if isinstance(rv, tuple) and rv else I.canon(rv)
        step = bin_("*", alpha, d)
        # z1 = z0 + alpha d with z0 zero
        zs = [c_ for c_ in (z1[2], z1[3])] if (z1[0] == "bin" and z1[1] == ("c", "+")) else []
        z0 = [c_ for c_ in zs if _is_zero(c_)]
        rest = [c_ for c_ in zs if not _is_zero(c_)]
        if len(zs) == 2 and len(z0) >= 1 and len(rest) == 1:
            okv, what = _same_value(rest[0], step)
        else:
            okv, what = _same_value(z1, step)
        agg.add(rule, "cg-step", okv, cg, None, "z_{k+1} = z + (rPr/curvature) d, curvature = d.(H d), z_0 = 0",
                f"after one iteration the CG iterate is `{S.show(z1)[:120]}`, not 0 + (r.precond(r) / d.(H d)) d ({what})")
        # the residual after the iteration, by role: what the preconditioner is applied to the second time (the first time it is the
        # initial residual); only when the preconditioner is applied once, the local that carries the parameter's name
        pre_calls = [ev for ev in I.events if ev.c[1] == PRE.c and len(ev.c[2]) > 1]
        if len(pre_calls) >= 2:
            r1 = pre_calls[1].c[2][1]
        else:
            env = I.loop_done[0]
            r1 = I.canon(env.get(ps[1])) if env.get(ps[1]) is not None else None
        want = bin_("+", R.c, bin_("*", alpha, Hd))
        if r1 is None or (r1 == R.c and len(pre_calls) < 2):
            agg.add(rule, "cg-residual-recurrence", None, cg, None, "the residual after one iteration could not be located (the preconditioner is applied once)")
            continue
        okr, what = _same_value(r1, want)
        agg.add(rule, "cg-residual-recurrence", okr, cg, None, "r += alpha*H d",
                f"after one iteration the CG residual is `{S.show(r1)[:120]}`, not r + alpha*H d ({what})")
    agg.flush()


# ------------------------------------------------------------------ D5

def _atomic(c):
    """constants, symbols, named functions, fields of data, tuples of those: values that are *named*, not computed"""
    if not isinstance(c, tuple) or not c:
        return True
    if c[0] in ("c", "sym", "ext", "func", "cls"):
        return True
    if c[0] in ("attr", "item"):
        return _atomic(c[1])
    if c[0] == "tuple":
        return all(_atomic(x) for x in c[1:])
    if c[0] == "rec":
        return all(_atomic(x) for x in c[2:])
    if c[0] in ("dim", "all") and len(c) == 2:
        return _atomic(c[1])          # segment of a shape: an extent / all extents of a named array
    return False


def _expand_shapes(c, ranks):
    """canonical key with every `all extents of x` segment of a broadcast shape written out as x.shape[0], ..., x.shape[k-1] when the number
    of axes of x is known (ranks: canonical array -> k)"""
    if not isinstance(c, tuple):
        return c
    if len(c) == 3 and c[0] == "bcast" and isinstance(c[2], tuple) and c[2][:1] == ("tuple",):
        parts = []
        for seg in c[2][1:]:
            if seg[0] == "all" and seg[1] in ranks:
                parts += [("dim", ("item", ("attr", seg[1], ("c", "shape")), ("c", j))) for j in range(ranks[seg[1]])]
            else:
                parts.append(seg)
        return ("bcast", _expand_shapes(c[1], ranks), ("tuple",) + tuple(parts))
    return tuple(_expand_shapes(x, ranks) for x in c)


def _first_diff(a, b):
    """innermost pair of differing sub-terms of two canonical keys (None when equal)"""
    if a == b:
        return None
    if isinstance(a, tuple) and isinstance(b, tuple) and len(a) == 3 and len(b) == 3 and a[0] == b[0] == "bcast" and a[1] == b[1]:
        # two broadcasts of one array: the target shapes decide.  Common leading / trailing segments are dropped; what is left is comparable
        # only when it is written extent by extent (`all extents of x` has an unknown number of entries)
        pa, pb = list(a[2][1:]), list(b[2][1:])
        while pa and pb and pa[0] == pb[0]:
            pa, pb = pa[1:], pb[1:]
        while pa and pb and pa[-1] == pb[-1]:
            pa, pb = pa[:-1], pb[:-1]
        if any(seg[0] != "dim" for seg in pa + pb):
            return (a, b)
        if len(pa) == len(pb) and sorted(map(repr, pa)) != sorted(map(repr, pb)):
            return (a, b)             # extents of different arrays: whether they agree is a fact about the data, not decided here
        return (("tuple",) + tuple(pa), ("tuple",) + tuple(pb))       # another number of axes, or the same extents in another order
    if isinstance(a, tuple) and isinstance(b, tuple) and a and b and a[0] == b[0] and len(a) == len(b) \
            and a[0] not in ("c", "sym", "ext", "func", "cls", "attr", "item"):
        diffs = [d for d in (_first_diff(x, y) for x, y in zip(a[1:], b[1:])) if d is not None]
        if len(diffs) == 1:
            return diffs[0]
        if diffs and all(_atomic(x) and _atomic(y) for x, y in diffs):
            return diffs[0]
    return (a, b)


def _differs(a, b):
    """verdict for `a` standing where `b` is expected: False (refuted) when the two terms have the same shape and differ in a named value
    (another function, another array, another constant); None (undecided) when they are different computations whose equivalence this
    rule cannot decide"""
    d = _first_diff(a, b)
    if d is None:
        return True, ""
    x, y = d
    if _atomic(x) and _atomic(y):
        return False, f"`{S.show(x)[:60]}` stands where `{S.show(y)[:60]}` is expected"
    return None, f"a different computation (`{S.show(x)[:60]}` vs `{S.show(y)[:60]}`): equivalence not decided"


def _namedtuples_of_repo(ctx, I):
    """[(NTClass)] of the module-level record types of the library: `X = namedtuple(...)` assignments and `class X(NamedTuple)` definitions
    (AST filter first, evaluated by the interpreter)"""
    key = "_c07_nts"
    if key in ctx.__dict__:
        return ctx.__dict__[key]
    out = []
    for m in ctx.repo.modules.values():
        if m.is_test:
            continue
        for st in m.tree.body:
            if isinstance(st, ast.Assign) and len(st.targets) == 1 and isinstance(st.targets[0], ast.Name) and isinstance(st.value, ast.Call) \
                    and (S.norm_src(st.value.func).split(".")[-1] == "namedtuple"):
                try:
                    v = I.module_value(m, st.targets[0].id)
                except (S.EvalError, S.Crash, S.Raised):
                    continue
                if isinstance(v, S.NTClass):
                    out.append(v)
            elif isinstance(st, ast.ClassDef) and any(S.norm_src(b).split(".")[-1] == "NamedTuple" for b in st.bases):
                flds = [x.target.id for x in st.body if isinstance(x, ast.AnnAssign) and isinstance(x.target, ast.Name)]
                ndef = len([x for x in st.body if isinstance(x, ast.AnnAssign) and x.value is not None])
                if flds:
                    out.append(S.NTClass(st.name, flds, (None,) * ndef))
    ctx.__dict__[key] = out
    return out


_RECORD_API = {"_replace", "_asdict", "_fields", "_make", "_field_defaults", "count", "index"}


def _attr_reads(c, out):
    """{symbol name: {attribute names}} read directly off symbols inside a canonical key (the record protocol -- _replace, _asdict, ... -- is
    not a field)"""
    if isinstance(c, tuple):
        if len(c) == 3 and c[0] == "attr" and isinstance(c[1], tuple) and c[1][:1] == ("sym",) and isinstance(c[2], tuple) and c[2][:1] == ("c",) \
                and c[2][1] not in _RECORD_API:
            out.setdefault(c[1][1], set()).add(c[2][1])
        for x in c:
            _attr_reads(x, out)
    return out


def _substituted(a, b, types, out):
    """anti-unification of two canonical keys: the pairs (sub-term of a, sub-term of b) at which the two first differ.  A symbol known to be
    a record is expanded into its fields when it stands against a record."""
    if a == b:
        return out
    if isinstance(a, tuple) and isinstance(b, tuple) and a and b:
        for x, y, flip in ((a, b, False), (b, a, True)):
            if x[0] == "sym" and x[1] in types and y[0] == "rec" and y[1] == types[x[1]][0] and len(y) - 2 == len(types[x[1]][1]):
                for j in range(len(y) - 2):
                    e = ("item", x, ("c", j))
                    _substituted(y[2 + j] if flip else e, e if flip else y[2 + j], types, out)
                return out
        if a[0] == b[0] and len(a) == len(b) and a[0] not in ("c", "sym", "ext", "func", "cls", "attr", "item"):
            for x, y in zip(a[1:], b[1:]):
                _substituted(x, y, types, out)
            return out
    out.append((a, b))
    return out


class _Ctor:
    """What one function-space constructor shows about its parameters when it is interpreted on symbols: the parameter that selects the mode
    (compared with string literals), the literals, the attributes read off every parameter, and the fields of the result in which a
    parameter is kept as it is.  Interpreted repeatedly while the attribute reads reveal record types of the parameters (a record-typed
    parameter can be sliced, unpacked, `_replace`d)."""

    def __init__(self, ctx, sc, nts):
        self.sc = sc
        self.params = sc.params()
        self.modes, self.mode_pars, self.reads, self.kept = set(), set(), {}, {}
        types = {}
        for _round in range(3):
            self._run(ctx, types)
            new = {par: (nt.name, nt.fields, len(nt.defaults)) for par, nt in self.record_types(nts).items()}
            if new == types:
                break
            types = new

    def _run(self, ctx, types):
        sc = self.sc
        ps = S.paths(lambda plan: _interp(ctx, plan, types=types),
                     lambda J: J.call_closure(J.module_value(sc.module, sc.name), [J.sym(q) for q in self.params], {}, force=True), limit=32)
        self.kept = {}
        for p in ps:
            for (key, d) in p.trace:
                if key[0] == "eq":
                    for x, y in ((key[1], key[2]), (key[2], key[1])):
                        if x[0] == "c" and isinstance(x[1], str) and y[0] == "sym" and y[1] in self.params:
                            self.modes.add(x[1])
                            self.mode_pars.add(y[1])
            for par, attrs in p.I.sym_reads.items():
                if par in self.params:
                    self.reads.setdefault(par, set()).update(x for x in attrs if x not in _RECORD_API)
            if p.kind == "return":
                _attr_reads(p.I.canon(p.value), self.reads)
                if isinstance(p.value, S.Rec):
                    # fields of the result in which a parameter is kept as it is
                    for fld, v in zip(p.value.fields, p.value.values):
                        c = p.I.canon(v)
                        if c[0] == "sym" and c[1] in self.params:
                            self.kept.setdefault(c[1], set()).add(fld)
            for ev in p.I.events:
                _attr_reads(ev.c, self.reads)

    def record_types(self, nts, extra_reads=None):
        """{parameter: record type} -- the unique record type of the library that has all the fields read off the parameter"""
        out = {}
        for par in self.params:
            attrs = set(self.reads.get(par, ())) | set((extra_reads or {}).get(par, ()))
            if attrs and par not in self.mode_pars:
                cands = [nt for nt in nts if attrs <= set(nt.fields)]
                if len(cands) == 1:
                    out[par] = cands[0]
        return out


def d5(ctx):
    """The function space returned by the adjoint constructor for (coords, shapeOnRef, mesh, quadratureRule, mode) must be, field by field,
    the value the ordinary constructor returns for the mesh moved to `coords` (same shapeOnRef, quadratureRule, mode) -- for every mode
    literal either constructor distinguishes.  Both constructors are interpreted on symbols; fields are compared as terms.

    Everything is located by role.  The parameters of the two constructors correspond by what is done with them (the one compared with mode
    literals; the ones read as the same record type), by name only when that says nothing.  The mesh parameter P and its coordinate field
    K are found by anti-unification: P.K is the input of the ordinary constructor that the adjoint constructor replaces by its extra
    argument.  Terms are compared with every straight-line helper interpreted (so that moving code between functions changes nothing); a
    difference is REFUTED only when, with the library's public functions kept as names, the two terms have the same shape and differ in a
    named value (another function, another array, another constant)."""
    rule = "D5/T6-adjoint-function-space"
    a = ctx.need(f"{AFS}:construct_function_space_for_adjoint")
    f = ctx.need(f"{FS}:construct_function_space_from_parent_element")
    I0 = _interp(ctx)
    nts = _namedtuples_of_repo(ctx, I0)
    ca, cf = _Ctor(ctx, a, nts), _Ctor(ctx, f, nts)
    modes_seen = ca.modes | cf.modes
    if len(ca.mode_pars) > 1 or len(cf.mode_pars) > 1 or not (ca.mode_pars or cf.mode_pars) or not modes_seen:
        raise Incomplete(f"mode parameter / mode literals of the function-space constructors not found ({sorted(ca.mode_pars)}, {sorted(cf.mode_pars)}, {sorted(modes_seen)})")

    # ---- correspondence of the parameters: adjoint parameter -> ordinary parameter
    a2f = {}
    if ca.mode_pars and cf.mode_pars:
        a2f[next(iter(ca.mode_pars))] = next(iter(cf.mode_pars))
    ta, tf = ca.record_types(nts), cf.record_types(nts)
    for q, nt in ta.items():
        same = [r for r, nt2 in tf.items() if nt2 is nt]
        if len(same) == 1 and len([q2 for q2, nt3 in ta.items() if nt3 is nt]) == 1 and q not in a2f and same[0] not in a2f.values():
            a2f[q] = same[0]
    def pair_up(sig_a, sig_f):
        """match the still unmatched parameters whose signature (a hashable role description) is the same and unique on both sides"""
        for q in ca.params:
            if q in a2f or sig_a(q) is None:
                continue
            same_f = [r for r in cf.params if r not in a2f.values() and sig_f(r) == sig_a(q)]
            same_a = [q2 for q2 in ca.params if q2 not in a2f and sig_a(q2) == sig_a(q)]
            if len(same_f) == 1 and len(same_a) == 1:
                a2f[q] = same_f[0]
    # the field of the result in which the parameter is kept; the set of attributes read off it; as a last resort the name
    pair_up(lambda q: tuple(sorted(ca.kept.get(q, ()))) or None, lambda r: tuple(sorted(cf.kept.get(r, ()))) or None)
    pair_up(lambda q: tuple(sorted(ca.reads.get(q, ()))) or None, lambda r: tuple(sorted(cf.reads.get(r, ()))) or None)
    for q in ca.params:
        if q not in a2f and q in cf.params and q not in a2f.values():
            a2f[q] = q
    extra = [q for q in ca.params if q not in a2f]
    missing = [r for r in cf.params if r not in a2f.values()]
    if len(extra) != 1 or missing:
        raise Incomplete(f"parameters of the adjoint constructor {ca.params} are not those of the ordinary constructor {cf.params} plus the coordinates "
                         f"(matched {a2f})")
    cpar = extra[0]
    cname = cpar if cpar not in cf.params else f"{cpar}'"
    C = ("sym", cname)
    sym_of_a = lambda q: cname if q == cpar else a2f[q]          # symbol name that stands for adjoint parameter q
    mpar_f = next(iter(cf.mode_pars)) if cf.mode_pars else a2f[next(iter(ca.mode_pars))]
    mpar_a = next(q for q in ca.params if q != cpar and a2f[q] == mpar_f)
    da, df = a.default_of(mpar_a), f.default_of(mpar_f)
    ctx.decide(rule, (da is None and df is None) or (da is not None and df is not None and const_value(da) == const_value(df)), a, da, construct="default-mode",
               detail=f"default {mpar_a} = {src(da)} in both constructors",
               bad_detail=f"default {mpar_a} is {src(da)} in the adjoint constructor and {src(df)} in the ordinary one")
    # record types of the (shared) argument symbols: the unique record type of the library that has all the fields either constructor reads
    reads_a = {a2f[q]: v for q, v in ca.reads.items() if q in a2f}
    tys = cf.record_types(nts, reads_a)
    for q, nt in ta.items():
        if q in a2f and a2f[q] not in tys and not cf.reads.get(a2f[q]):
            tys[a2f[q]] = nt
    types = {par: (nt.name, nt.fields, len(nt.defaults)) for par, nt in tys.items()}

    named = lambda sc: _inline(sc) and (sc is a or sc is f or sc.module is a.module or sc.name.startswith("_"))

    def run_ctor(sc, argmap, policy=None):
        def run(J):
            fn = J.module_value(sc.module, sc.name)
            return J.call_closure(fn, [argmap(J, p_) for p_ in sc.params()], {}, force=True)
        return S.paths(lambda plan: _interp(ctx, plan, types=types, inline=policy), run, limit=32)

    def args_a(mode, J, q):
        return mode if q == mpar_a else J.sym(sym_of_a(q))

    def pp(c):
        t = S.show(c)
        for par, (tn, flds, nd) in types.items():
            t = re.sub(rf"\b{re.escape(par)}\[(\d+)\]", lambda m, flds=flds, par=par: f"{par}.{flds[int(m.group(1))]}" if int(m.group(1)) < len(flds) else m.group(0), t)
        return t

    # ---- the mesh parameter and its coordinate field, by role
    mode0 = sorted(modes_seen)[0]
    firstp = run_ctor(a, lambda J, q: args_a(mode0, J, q))
    first = [p for p in firstp if p.kind == "return"]
    if not first or not isinstance(first[0].value, S.Rec):
        bad = any(p.kind == "crash" for p in firstp)
        ctx.decide(rule, False if bad else None, a, None, construct="adjoint-constructor", detail=f"adjoint constructor does not evaluate to a record ({_why(firstp)})")
        return
    fsrec, I1 = first[0].value, first[0].I
    ordp = [p for p in run_ctor(f, lambda J, r: mode0 if r == mpar_f else J.sym(r)) if p.kind == "return" and isinstance(p.value, S.Rec)]
    if not ordp:
        raise Incomplete("the ordinary constructor does not evaluate to a record")
    ordrec, I2 = ordp[0].value, ordp[0].I
    pairs = _substituted(I2.canon(ordrec), I1.canon(fsrec), types, [])
    cands = {x for (x, y) in pairs if y == C and x[0] == "item" and x[1][0] == "sym" and x[1][1] in types and x[2][0] == "c" and isinstance(x[2][1], int)}
    how = "the input of the ordinary constructor that the adjoint constructor replaces by its extra argument"
    if len(cands) != 1:
        # the record the adjoint constructor stores with its extra argument in exactly one field
        cands = set()
        for v in fsrec.values:
            if isinstance(v, S.Rec):
                for par, (tn, flds, nd) in types.items():
                    hits = [j for j, x in enumerate(v.values) if I1.canon(x) == C]
                    if tn == v.tname and len(hits) == 1 and sum(1 for j, x in enumerate(v.values) if I1.canon(x) == ("item", ("sym", par), ("c", j))) >= len(flds) - 1 - nd:
                        cands.add(("item", ("sym", par), ("c", hits[0])))
        how = "the field of the rebuilt record that holds the extra argument"
    if len(cands) != 1:
        # vocabulary: the field that carries the name of the extra parameter
        cands = {("item", ("sym", par), ("c", flds.index(cpar))) for par, (tn, flds, nd) in types.items() if cpar in flds}
        how = "the record field named like the extra parameter"
    if len(cands) != 1:
        raise Incomplete(f"cannot identify which input of the ordinary constructor the extra argument `{cpar}` of the adjoint constructor stands for (candidates {sorted(S.show(x) for x in cands)})")
    pk = next(iter(cands))
    mesh_par, kidx = pk[1][1], pk[2][1]
    mtname, mfields, mnd = types[mesh_par]
    kname = mfields[kidx]
    stored = [fld for fld, v in zip(ordrec.fields, ordrec.values) if I2.canon(v) == ("sym", mesh_par)]
    if len(stored) != 1 or stored[0] not in fsrec.fields:
        raise Incomplete(f"cannot identify the field in which the function space stores `{mesh_par}` (candidates {stored})")
    mesh_field = stored[0]
    ctx.notes.append(f"construct_function_space_for_adjoint: `{cpar}` stands for `{mesh_par}.{kname}` ({how}); the function space keeps `{mesh_par}` in field `{mesh_field}`") \
        if not any(n.startswith("construct_function_space_for_adjoint: `") for n in ctx.notes) else None
    mrec = fsrec.get(mesh_field)
    if I1.typed(mrec) is not None:
        mrec = I1.as_rec(mrec)
    if not isinstance(mrec, S.Rec) or mrec.tname != mtname or tuple(mrec.fields) != tuple(mfields):
        c = I1.canon(mrec)
        ctx.decide(rule, False if c == ("sym", mesh_par) else None, a, None, construct=f"mesh-field:{kname}",
                   detail=f"the mesh stored by the adjoint constructor is `{S.show(c)[:80]}`, not a record this rule can read",
                   bad_detail=f"the adjoint constructor stores the mesh it was given: its `{kname}` are the old coordinates, not `{cpar}`")
        return
    nreq = len(mrec.fields) - mrec.ndefaults
    field_of = lambda g: ("item", ("sym", mesh_par), ("c", mfields.index(g)))
    for i, (fld, v) in enumerate(zip(mrec.fields, mrec.values)):
        c = I1.canon(v)
        if fld == kname:
            ctx.decide(rule, True if c == C else (False if (_atomic(c) or any(c == field_of(g) for g in mfields)) else None), a, None, construct=f"mesh-field:{fld}",
                       detail=f"{fld} = {S.show(c)}",
                       bad_detail=f"the rebuilt mesh does not carry the perturbed coordinates: {fld} = {pp(c)[:80]}")
        elif c == C:
            ctx.refuted(rule, a, None, construct=f"mesh-field:{fld}", detail=f"rebuilt mesh field {fld} = {S.show(c)} (the perturbed coordinates belong in `{kname}`)")
        elif c == field_of(fld):
            ctx.proved(rule, a, None, construct=f"mesh-field:{fld}", detail=f"{fld} = {mesh_par}.{fld}")
        elif c == ("c", None) and i >= nreq:
            note = f"construct_function_space_for_adjoint: optional mesh field `{fld}` is not copied to the rebuilt mesh (left at its default)"
            if note not in ctx.notes:
                ctx.notes.append(note)
        else:
            other = [g for g in mrec.fields if g != fld and c == field_of(g)]
            ctx.decide(rule, False if (other or _atomic(c)) else None, a, None, construct=f"mesh-field:{fld}",
                       detail=f"rebuilt mesh field {fld} = {pp(c)[:80]} (expected {mesh_par}.{fld})")

    # ---- per mode literal, compare the two constructors field by field
    def moved_mesh(J):
        return S.Rec(mtname, mfields, [J.sym(cname) if g == kname else J.getitem(J.sym(mesh_par), j) for j, g in enumerate(mfields)], mnd)

    def args_f(mode, J, r):
        return mode if r == mpar_f else (moved_mesh(J) if r == mesh_par else J.sym(r))

    for mode in sorted(modes_seen):
        pa = run_ctor(a, lambda J, q: args_a(mode, J, q))
        pf = run_ctor(f, lambda J, r: args_f(mode, J, r))
        if len(pa) != 1 or len(pf) != 1:
            ctx.undecided(rule, a, None, construct=f"{mode}:paths", detail=f"{len(pa)} / {len(pf)} paths for a fixed mode (data-dependent branching)")
            continue
        qa, qf = pa[0], pf[0]
        if qa.kind == "error" or qf.kind == "error":
            ctx.undecided(rule, a, None, construct=f"{mode}:interpretation", detail=f"constructor cannot be interpreted: {qa.info or qf.info}")
            continue
        if qa.kind != "return" or qf.kind != "return":
            same = (qa.kind != "return") == (qf.kind != "return")
            ctx.decide(rule, same, a, None, construct=f"{mode}:accepted", detail="both constructors reject this mode",
                       bad_detail=f"mode '{mode}': adjoint constructor {qa.kind}s ({qa.info}), ordinary constructor {qf.kind}s ({qf.info})")
            continue
        va, vf = qa.value, qf.value
        if not (isinstance(va, S.Rec) and isinstance(vf, S.Rec) and va.fields == vf.fields and va.tname == vf.tname):
            ctx.decide(rule, False if (isinstance(va, S.Rec) and isinstance(vf, S.Rec)) else None, a, None, construct=f"{mode}:record",
                       detail=f"adjoint constructor returns {S.show(qa.I.canon(va))[:80]}, ordinary constructor {S.show(qf.I.canon(vf))[:80]}")
            continue
        # the same two computations with the library's public functions kept as names: the evidence for a refutation
        na = [p for p in run_ctor(a, lambda J, q: args_a(mode, J, q), named) if p.kind == "return" and isinstance(p.value, S.Rec)]
        nf = [p for p in run_ctor(f, lambda J, r: args_f(mode, J, r), named) if p.kind == "return" and isinstance(p.value, S.Rec)]
        named_ok = len(na) == 1 and len(nf) == 1 and na[0].value.fields == va.fields and nf[0].value.fields == va.fields
        for k, (fld, xa, xf) in enumerate(zip(va.fields, va.values, vf.values)):
            ca_, cf_ = qa.I.canon(xa), qf.I.canon(xf)
            if fld == mesh_field and qa.I.typed(xa) is not None:
                xa = qa.I.as_rec(xa)
            if fld == mesh_field and isinstance(xa, S.Rec) and isinstance(xf, S.Rec) and xa.fields == xf.fields:
                # optional fields left at their default are recorded above as a note
                diff = [g for j, (g, y1, y2) in enumerate(zip(xa.fields, xa.values, xf.values))
                        if qa.I.canon(y1) != qf.I.canon(y2) and not (qa.I.canon(y1) == ("c", None) and j >= nreq)]
                verdicts = [_differs(qa.I.canon(y1), qf.I.canon(y2))[0] for g, y1, y2 in zip(xa.fields, xa.values, xf.values) if g in diff]
                ok = True if not diff else (False if any(v is False for v in verdicts) else None)
                bad = f"a mesh whose fields {diff} differ from the moved mesh"
            elif ca_ == cf_:
                ok, bad = True, ""
            else:
                ok, what = None, "a different computation: equivalence not decided"
                if named_ok:
                    ranks = {}
                    for J in (qa.I, qf.I, na[0].I, nf[0].I):
                        ranks.update(J.ranks)
                    ya, yf = _expand_shapes(na[0].I.canon(na[0].value.values[k]), ranks), _expand_shapes(nf[0].I.canon(nf[0].value.values[k]), ranks)
                    if ya != yf:
                        ok, what = _differs(ya, yf)
                        swapped = [g for g, y in zip(nf[0].value.fields, nf[0].value.values) if g != fld and nf[0].I.canon(y) == ya]
                        if ok is not True and swapped:
                            ok, what = False, f"it is the value of the field `{swapped[0]}`"
                        if ok is True:
                            ok = None
                        ca_, cf_ = ya, yf
                bad = f"not the ordinary constructor's value: {what} (adjoint: `{pp(ca_)[:140]}`; ordinary constructor on the moved mesh: `{pp(cf_)[:140]}`)"
            ctx.decide(rule, ok, a, None, construct=f"{mode}:field:{fld}",
                       detail=f"mode '{mode}': {fld} equals the ordinary constructor's value on the moved mesh",
                       bad_detail=f"mode '{mode}': FunctionSpace.{fld} of the adjoint constructor is {bad}: the rebuilt function space differs from one built on the moved mesh")


# ------------------------------------------------------------------ selftest variants

def _multi(*edits):
    def f(src):
        for e in edits:
            src = e(src)
            if src is None:
                return None
        return src
    return f


def _replace_func(func, newtext):
    """edit: replace a whole top-level function (decorators included) by new source text"""
    def f(src):
        try:
            tree = ast.parse(src)
        except SyntaxError:
            return None
        for st in tree.body:
            if isinstance(st, ast.FunctionDef) and st.name == func:
                lines = src.split("\n")
                start = (st.decorator_list[0].lineno if st.decorator_list else st.lineno) - 1
                return "\n".join(lines[:start]) + "\n" + newtext + "\n" + "\n".join(lines[st.end_lineno:])
        return None
    return f


def variants(repo):
    from optilint.selftest import Variant, sub, sub_in_func, alpha_rename, reformat
    N = "optimism/inverse/NonlinearSolve.py"
    O = "optimism/Objective.py"
    MIp = "optimism/inverse/MechanicsInverse.py"
    A = "optimism/inverse/AdjointFunctionSpace.py"
    E = "optimism/EquationSolver.py"
    from .C07_variants import bold_variants
    return _refactoring_variants(Variant, sub, sub_in_func, N, O, MIp, A, E) + bold_variants(Variant) + [
        Variant("extra solver parameter (arity drift)", E,
                sub("def solve_trust_region_minimization(x, r, hess_vec_func, precond, trSize, settings):",
                    "def solve_trust_region_minimization(x, r, hess_vec_func, precond, mult_by_approx_hessian, trSize, settings):"),
                "D1/T10-link"),
        Variant("solver returns 3-tuple at one exit", N,
                sub_in_func("nonlinear_solve_with_state_b", "results = EquationSolver", "results, _ = EquationSolver"),
                "D1/T10-link"),
        Variant("swap residual order in bwd", N,
                sub_in_func("nonlinear_solve_b", "Uu,designParams = rdata", "designParams,Uu = rdata"),
                "D2/T5-custom-vjp-contract"),
        Variant("drop parameter restore in bwd", N,
                sub_in_func("nonlinear_solve_with_state_b", "    mechanicalEnergy.p = p\n", "    pass\n"),
                "D2/T5-custom-vjp-contract"),
        Variant("dp1 from vec_jacobian_p2", N,
                sub("dp1 = mechanicalEnergy.vec_jacobian_p1(Uu, lam)[0]", "dp1 = mechanicalEnergy.vec_jacobian_p2(Uu, lam)[0]"),
                "D3/T5-parameter-slots"),
        Variant("param_index_update wrong slot", O,
                sub("return Params(p[0], p[1], newParam, p[3], p[4], p[5])", "return Params(p[0], newParam, p[2], p[3], p[4], p[5])"),
                "D3/T5-parameter-slots"),
        Variant("vec_jac_xp1 differentiates slot 2", O,
                sub("vjp(lambda q1: self.grad_x(x, param_index_update(p,1,q1)), p[1])", "vjp(lambda q1: self.grad_x(x, param_index_update(p,2,q1)), p[1])"),
                "D3/T5-parameter-slots"),
        Variant("vjp wrapper wrong primal", MIp,
                sub("vjp(lambda z: grad(energyFunction, 0)(u, q, z, x), iv)", "vjp(lambda z: grad(energyFunction, 0)(u, q, iv, z), iv)"),
                "D3/T5-parameter-slots"),
        Variant("closure captures self.p", O,
                sub("vjp(lambda q1: self.grad_x(x, param_index_update(p,1,q1)), p[1])", "vjp(lambda q1: self.grad_x(x, param_index_update(self.p,1,q1)), p[1])"),
                "D3/T5-parameter-slots"),
        Variant("wrapper drops dt", MIp,
                sub("vjp(lambda z: compute_ivs_update(z, ivs, dt), x)", "vjp(lambda z: compute_ivs_update(z, ivs), x)"),
                "D3/T5-parameter-slots"),
        Variant("negated adjoint rhs", N,
                sub_in_func("nonlinear_solve_with_state_b", "                                                             v,\n",
                            "                                                             -v,\n"),
                "D4/T7-adjoint-sign"),
        Variant("adjoint solve inside a finite trust region", N,
                sub_in_func("nonlinear_solve_with_state_b", "np.inf", "settings.tr_size"), "D4/T7-adjoint-sign"),
        Variant("adjoint space: axisymmetric branch copies the cartesian one", A,
                sub("        el_vols = compute_element_volumes_axisymmetric\n", "        el_vols = compute_element_volumes\n"), "D5/T6-adjoint-function-space"),
        Variant("alpha-rename adjoint function space", A, alpha_rename("construct_function_space_for_adjoint"), None),
        Variant("adjoint space uses mesh.coords for volumes", A,
                sub("vols = vmap(el_vols, (None, 0, None, 0, None))(coords,", "vols = vmap(el_vols, (None, 0, None, 0, None))(mesh.coords,"),
                "D5/T6-adjoint-function-space"),
        Variant("adjoint space mode table swapped", A,
                sub("        el_vols = compute_element_volumes\n        isAxisymmetric = False",
                    "        el_vols = compute_element_volumes_axisymmetric\n        isAxisymmetric = False"),
                "D5/T6-adjoint-function-space"),
        Variant("reformat NonlinearSolve", N, reformat(), None),
        Variant("reformat Objective", O, reformat(), None),
        Variant("reformat MechanicsInverse", MIp, reformat(), None),
        Variant("alpha-rename nonlinear_solve_with_state_b", N, alpha_rename("nonlinear_solve_with_state_b"), None),
    ]


def _refactoring_variants(Variant, sub, sub_in_func, N, O, MIp, A, E):
    """Behaviour-preserving refactorings of the anchor functions (must stay silent) and subtle breaking edits, some of them applied to
    refactored code (must be reported): the rules decide values, so neither kind may depend on how the code is spelled."""
    D2, D3, D4, D5 = "D2/T5-custom-vjp-contract", "D3/T5-parameter-slots", "D4/T7-adjoint-sign", "D5/T6-adjoint-function-space"
    bwd_loop = '''
def nonlinear_solve_with_state_b(objective, solverSettings, saved, ct):
    sol, params = saved
    objective.p = params
    zero = np.zeros_like(sol)
    lam = EquationSolver.solve_trust_region_minimization(zero, ct, lambda w: objective.hessian_vec(sol, w),
                                                         objective.apply_precond, np.inf, solverSettings)[0]
    sens = [None]*6
    for k in (0, 1, 2, 4):
        if params[k] is not None:
            sens[k] = getattr(objective, f"vec_jacobian_p{k}")(sol, lam)[0]
    return zero, Objective.Params(*sens)
'''
    helper = '''
def _adjoint(objective, settings, point, v):
    def H(w):
        return objective.hessian_vec(point, w)
    out = EquationSolver.solve_trust_region_minimization(np.zeros_like(point), v, H, objective.apply_precond, RADIUS, settings)
    return out[0]
### new version'''
    use_helper = sub_in_func("nonlinear_solve_b", """    hess_vec_func = lambda w: mechanicalEnergy.hessian_vec(Uu, w)
    
    results = EquationSolver.solve_trust_region_minimization(0.0*Uu,
                                                             v,
                                                             hess_vec_func,
                                                             mechanicalEnergy.apply_precond,
                                                             np.inf,
                                                             settings)
    
    lam = results[0]
""", "    lam = _adjoint(mechanicalEnergy, settings, Uu, v)\n")
    factory = sub("""        self.vec_jac_xp0 = jit(lambda x, p, vx:
                               vjp(lambda q0: self.grad_x(x, param_index_update(p,0,q0)), p[0])[1](vx))
        
        self.vec_jac_xp1 = jit(lambda x, p, vx:
                               vjp(lambda q1: self.grad_x(x, param_index_update(p,1,q1)), p[1])[1](vx))
        
        self.vec_jac_xp2 = jit(lambda x, p, vx:
                               vjp(lambda q2: self.grad_x(x, param_index_update(p,2,q2)), p[2])[1](vx))

        self.vec_jac_xp4 = jit(lambda x, p, vx:
                               vjp(lambda q4: self.grad_x(x, param_index_update(p,4,q4)), p[4])[1](vx))
""", """        def make_vec_jac(slot):
            def vec_jac(x, p, vx):
                def residual_of_slot(q):
                    return self.grad_x(x, PARAMS_WITH_SLOT)
                _, pullback = vjp(residual_of_slot, p[slot])
                return pullback(vx)
            return jit(vec_jac)
        self.vec_jac = {slot: make_vec_jac(slot) for slot in (0, 1, 2, 4)}
""")
    use_factory = [sub(f"return self.vec_jac_xp{k}(x, self.p, vp)", f"return self.vec_jac[{k}](x, self.p, vp)") for k in (0, 1, 2, 4)]
    afs = '''
def construct_function_space_for_adjoint(coords, shapeOnRef, mesh, quadratureRule, mode2D='cartesian'):
    table = {'cartesian': (compute_element_volumes, False), 'axisymmetric': (VOLS_AXI, True)}
    el_vols, isAxisymmetric = table[mode2D]
    conns = mesh.conns
    parent = mesh.parentElement
    shapes = vmap(lambda elConns, elShape: elShape, (0, None))(conns, shapeOnRef.values)
    map_grads = vmap(map_element_shape_grads, in_axes=(None, 0, None, None))
    shapeGrads = map_grads(coords, conns, parent, shapeOnRef.gradients)
    vols = vmap(el_vols, (None, 0, None, 0, None))(coords, conns, parent, shapes, quadratureRule.wgauss)
    moved = mesh._replace(coords=coords)
    return FunctionSpace.FunctionSpace(shapes=shapes, vols=vols, shapeGrads=shapeGrads, mesh=moved, quadratureRule=quadratureRule,
                                       isAxisymmetric=isAxisymmetric)
'''
    wrapper_def = """    def compute_partial_ivs_update_partial_disp(x, ivs, av, dt=0.0):
        f = partial(compute_ivs_update, stateVariables=ivs, DT)
        _, pullback = vjp(f, x)
        out, = pullback(av)
        return out
    compute_partial_ivs_update_partial_disp = jit(compute_partial_ivs_update_partial_disp)
"""
    wrapper_old = """    compute_partial_ivs_update_partial_disp = jit(lambda x, ivs, av, dt=0.0: 
                                                  vjp(lambda z: compute_ivs_update(z, ivs, dt), x)[1](av)[0])
"""
    es_solve = '''
def _set_parameters_with_warm_start(objective, xBar0, p, updatePrecond):
    if updatePrecond:
        objective.update_precond(xBar0)
    dxBar = WarmStart.warm_start_increment(objective, xBar0, p)
    objective.p = p
    return xBar0 + dxBar


def nonlinear_equation_solve(objective, x0, p, settings,
                             solver_algorithm=trust_region_minimize,
                             callback=None,
                             useWarmStart=True,
                             updatePrecond=True):
    xBar0 = objective.scaling * x0
    if not useWarmStart:
        SET_PARAMETERS
    else:
        xBar0 = _set_parameters_with_warm_start(objective, xBar0, p, updatePrecond)
    if updatePrecond:
        objective.update_precond(xBar0)
    result = solver_algorithm(objective, xBar0, settings, callback=callback)
    xBar, solverSuccess = result
    return objective.invScaling * xBar, solverSuccess
'''
    cg_temps = lambda sign: _multi(
        sub_in_func("solve_trust_region_minimization", """        curvature = d@( hess_vec_func(d) )
        alpha = rPr / curvature
           
        zNp1 = z + alpha*d""", """        Hd = hess_vec_func(d)
        curvature = np.dot(Hd, d)
        alpha = rPr / curvature
        zNp1 = alpha*d + z"""),
        sub_in_func("solve_trust_region_minimization", "        r += alpha * hess_vec_func(d)\n", f"        r = r {sign} Hd * alpha\n"))
    R = lambda edit, old, new: (lambda src: (lambda t: None if t is None else t.replace(old, new))(edit(src)))
    return [
        # ---- preserving
        Variant("refactor: residuals as dict, read by key", N, _multi(
            sub_in_func("nonlinear_solve_with_state_f", "return Uu, (Uu, p)", "return Uu, {'solution': Uu, 'params': p}"),
            sub_in_func("nonlinear_solve_with_state_b", "    Uu, p = rdata\n", "    Uu = rdata['solution']\n    p = rdata['params']\n")), None),
        Variant("refactor: slots in a loop with getattr, renamed parameters", N, _replace_func("nonlinear_solve_with_state_b", bwd_loop), None),
        Variant("refactor: adjoint solve in a helper with nested def", N,
                _multi(sub("### new version", helper.replace("RADIUS", "float('inf')")), use_helper), None),
        Variant("refactor: double negation of the adjoint vector", N, _multi(
            sub_in_func("nonlinear_solve_b", "lam = results[0]", "lam = -results[0]"),
            sub_in_func("nonlinear_solve_b", "mechanicalEnergy.vec_jacobian_p2(Uu, lam)[0])", "-mechanicalEnergy.vec_jacobian_p2(Uu, lam)[0])")), None),
        Variant("refactor: _replace instead of param_index_update in primal and bwd", N, _multi(
            sub_in_func("nonlinear_solve", "p = Objective.param_index_update(mechanicalEnergy.p, 2, designParams)", "p = mechanicalEnergy.p._replace(design_data=designParams)"),
            sub_in_func("nonlinear_solve_b", "mechanicalEnergy.p = Objective.param_index_update(mechanicalEnergy.p, 2, designParams)",
                        "mechanicalEnergy.p = mechanicalEnergy.p._replace(design_data=designParams)")), None),
        Variant("refactor: Objective vjp closures from a factory, kept in a dict", O,
                _multi(R(factory, "PARAMS_WITH_SLOT", "param_index_update(p, slot, q)"), *use_factory), None),
        Variant("refactor: param_index_update through a list", O, _replace_func("param_index_update", '''
def param_index_update(p, index, newParam):
    if index not in range(6):
        print('invalid index passed to param_index_update = ', index)
        return None
    slots = list(p)
    slots[index] = newParam
    return Params(*slots)
'''), None),
        Variant("refactor: inverse wrapper as def with partial and unpacked pullback", MIp, sub(wrapper_old, wrapper_def.replace("DT", "dt=dt")), None),
        Variant("refactor: adjoint constructor with dispatch table, _replace, keywords", A,
                _replace_func("construct_function_space_for_adjoint", afs.replace("VOLS_AXI", "compute_element_volumes_axisymmetric")), None),
        Variant("refactor: nonlinear_equation_solve with extracted helper and guard clause", E,
                _replace_func("nonlinear_equation_solve", es_solve.replace("SET_PARAMETERS", "objective.p = p")), None),
        Variant("refactor: CG with temporaries, np.dot and commuted products", E, cg_temps("+"), None),
        # ---- breaking
        Variant("refactored helper solves inside the trust region", N,
                _multi(sub("### new version", helper.replace("RADIUS", "settings.tr_size")), use_helper), D4),
        Variant("factory closures read self.p", O,
                _multi(R(factory, "PARAMS_WITH_SLOT", "param_index_update(self.p, slot, q)"), *use_factory), D3),
        Variant("refactored wrapper drops dt", MIp, sub(wrapper_old, wrapper_def.replace(", DT", "")), D3),
        Variant("refactored adjoint constructor: axisymmetric entry of the table", A,
                _replace_func("construct_function_space_for_adjoint", afs.replace("VOLS_AXI", "compute_element_volumes")), D5),
        Variant("refactored nonlinear_equation_solve forgets the parameters", E,
                _replace_func("nonlinear_equation_solve", es_solve.replace("SET_PARAMETERS", "pass")), D2),
        Variant("refactored CG: residual recurrence sign", E, cg_temps("-"), D4),
        Variant("forward rule saves the guess instead of the solution", N,
                sub_in_func("nonlinear_solve_with_state_f", "return Uu, (Uu, p)", "return Uu, (UuGuess, p)"), D2),
        Variant("cotangent slots 1 and 2 exchanged", N,
                sub_in_func("nonlinear_solve_with_state_b", "Objective.Params(dp0, dp1, dp2, None, dp4)", "Objective.Params(dp0, dp2, dp1, None, dp4)"), D3),
        Variant("slot 1 guarded by slot 0", N, sub_in_func("nonlinear_solve_with_state_b", "    if p[1] != None:", "    if p[0] != None:"), D3),
        Variant("parameters restored after the adjoint solve", N, _multi(
            sub_in_func("nonlinear_solve_with_state_b", "    mechanicalEnergy.p = p\n", ""),
            sub_in_func("nonlinear_solve_with_state_b", "    lam = results[0]\n", "    lam = results[0]\n    mechanicalEnergy.p = p\n")), D2),
        Variant("adjoint vector negated once", N, sub_in_func("nonlinear_solve_with_state_b", "lam = results[0]", "lam = -results[0]"), D4),
        Variant("cotangent of the guess is the incoming cotangent", N, sub_in_func("nonlinear_solve_with_state_b", "    return (UuZeros,", "    return (v,"), D4),
        Variant("public method delegates to the closure of another slot", O,
                sub("return self.vec_jac_xp1(x, self.p, vp)", "return self.vec_jac_xp2(x, self.p, vp)"), D3),
        Variant("hessian closure reads self.p", O,
                sub("jvp(lambda z: self.grad_x(z,p), (x,), (vx,))[1])", "jvp(lambda z: self.grad_x(z,self.p), (x,), (vx,))[1])"), D3),
        Variant("wrapper contracts with its primal", MIp,
                sub("vjp(lambda z: grad(energyFunction, 0)(u, q, z), x)[1](vx)[0])", "vjp(lambda z: grad(energyFunction, 0)(u, q, z), x)[1](x)[0])"), D3),
        Variant("adjoint shape gradients on the old coordinates", A,
                sub("(None, 0, None, None))(coords, mesh.conns", "(None, 0, None, None))(mesh.coords, mesh.conns"), D5),
        Variant("rebuilt mesh takes conns from another field", A,
                sub("conns=mesh.conns, simplexNodesOrdinals", "conns=mesh.simplexNodesOrdinals, simplexNodesOrdinals"), D5),
        Variant("CG ascent direction", E, sub_in_func("solve_trust_region_minimization", "    d = -Pr\n    cauchyP", "    d = Pr\n    cauchyP"), D4),
    ]
