"""Row pivoting of the QR step in the closed-form symmetric 3x3 eigen solver (C12: O2/T7-eigen-solver-algebra, constructs
`pivot-row[k=s]`, `pivot-row[ties]`, `pivot-norm[k=s]`, `other-rows[k=s]`).

Everything is read off the *values* of the general-branch interpretation (rules/C12_eigen.py: Solver.P2), never off names or statements:

   candidate rows   three computed 3-vectors R_0, R_1, R_2 with R_s[j] = D[s][j] (j != s) and R_s[s] = D[s][s] - lam for one common,
                    non-input quantity lam (the rows of the symmetric matrix dev - lam I); Q_s = R_s . R_s their squared norms
   selections       a comparison is a *norm comparison* when, with named quantities replaced by their definitions, its difference is
                    mu (Q_i - Q_j); its truth is then fixed by a weak ordering of (k0, k1, k2).  All 13 weak orderings are enumerated;
                    under each one every select atom on norm comparisons is replaced by the branch it takes
   pivot vector     the computed 3-vector made of such selects that is most often a candidate row of largest norm; the other two
                    vectors of that kind are the rows orthogonalised against it; the scale is the computed scalar that is most often 1/Q_s
   obligations      for each s and each ordering in which row s alone is largest: pivot == R_s componentwise, scale == 1/Q_s, the two other
                    vectors are the two other candidate rows (any order);  for the orderings with a tie for the largest norm: the pivot is
                    one of the tied rows (so the three selections are exhaustive and exclusive on every ordering).
PROVED by exact polynomial identity; REFUTED only when the compared values contain nothing but input entries and lam; else undecided.
"""
from __future__ import annotations

import itertools
from fractions import Fraction

from optilint.expr import Rat, Poly, simplify
from optilint.tensoreval import Dual, Arr, EvalError, _A
from .C12_sym import proportional, subst
from .eigenalg import _as_poly


class _Open(Exception):
    """something on the way is not understood: the obligation stays undecided"""


ORDERINGS = [w for w in itertools.product(range(3), repeat=3) if set(w) == set(range(max(w) + 1))]      # the 13 weak orderings (ranks)


def _show_order(w):
    names = ["k0", "k1", "k2"]
    groups = {}
    for i, r in enumerate(w):
        groups.setdefault(r, []).append(names[i])
    return " > ".join(" = ".join(groups[r]) for r in sorted(groups, reverse=True))


def _zero(r: Rat):
    return simplify(_A.norm(r)).n.is_zero()


class Pivot:
    def __init__(self, sv):
        self.sv = sv
        self.I = sv.P2[0]
        self.D = [[simplify(_A.norm(x)) for x in row] for row in sv.D]
        self.rows = None          # [(name, [Rat, Rat, Rat], node)] for s = 0, 1, 2
        self.keep = set()         # atoms of lam: never expanded
        self.Q = None
        self._atom_cache = {}
        self._sel_ok = {}

    # ---- candidate rows
    def find_rows(self):
        I = self.I
        per = {0: [], 1: [], 2: []}
        for nm, v, node in I.vectors.values():
            xs = [x.a for x in v.data]
            for s in range(3):
                if all(_zero(xs[j] - self.D[s][j]) for j in range(3) if j != s):
                    lam = simplify(_A.norm(self.D[s][s] - xs[s]))
                    if not lam.n.is_zero() and not I.pure(lam):
                        per[s].append((nm, xs, node, lam))
        for a in per[0]:
            for b in per[1]:
                if not _zero(a[3] - b[3]):
                    continue
                for c in per[2]:
                    if _zero(a[3] - c[3]):
                        self.rows = [t[:3] for t in (a, b, c)]
                        self.keep = set(a[3].atoms())
                        self.Q = [simplify(_A.norm(sum((x * x for x in t[1][1:]), t[1][0] * t[1][0]))) for t in self.rows]
                        return True
        return False

    # ---- equality modulo the definitions of named quantities
    def unfold(self, r: Rat, levels=4, limit=2000, poly_only=False):
        """r with named quantities (other than lam) replaced by their definitions; raises _Open when that does not end, grows beyond
        `limit` terms or (poly_only) stops being a polynomial"""
        I = self.I
        r = simplify(_A.norm(r))
        for _ in range(levels):
            todo = sorted(a for a in r.atoms() if a in I.let and a not in self.keep)
            if not todo:
                return r
            for a in todo:
                r = subst(r, a, I.let[a])
                if len(r.n.t) + len(r.d.t) > limit:
                    raise _Open("expansion too large")
                if poly_only and not r.d.is_const():
                    raise _Open("not a polynomial")
            r = simplify(_A.norm(r))
        if any(a in I.let and a not in self.keep for a in r.atoms()):
            raise _Open("definitions nested too deeply")
        return r

    def understood(self, r: Rat):
        return all(a in self.I.inputs or a in self.keep for a in r.atoms())

    def equal(self, a: Rat, b: Rat):
        """True / False / None (None: equal could not be decided on understood values)"""
        d = simplify(_A.norm(a - b))
        if d.n.is_zero():
            return True
        try:
            d = self.unfold(d)
        except (_Open, EvalError):
            return None
        if d.n.is_zero():
            return True
        return False if self.understood(d) else None

    # ---- norm comparisons
    def atom_pair(self, c):
        """(i, j, mu) with  difference of the comparison == mu (Q_i - Q_j), else None"""
        if c.key in self._atom_cache:
            return self._atom_cache[c.key]
        res = None
        try:
            d = self.unfold(c.args[0], levels=2, limit=300, poly_only=True)
            p = _as_poly(d)
            if p is not None and self.understood(d):
                for i, j in itertools.combinations(range(3), 2):
                    q = _as_poly(simplify(_A.norm(self.Q[i] - self.Q[j])))
                    mu = proportional(p, q) if q is not None else None
                    if mu is not None and mu != 0:
                        res = (i, j, mu)
                        break
        except (_Open, EvalError):
            res = None
        self._atom_cache[c.key] = res
        return res

    def truth(self, c, w):
        if isinstance(c, bool):
            return c
        if c.kind in ("lt", "eq"):
            m = self.atom_pair(c)
            if m is None:
                raise _Open(f"condition {c.key[:60]} is not a comparison of two row norms")
            i, j, mu = m
            return (mu * (w[i] - w[j]) < 0) if c.kind == "lt" else (w[i] == w[j])
        if c.kind == "not":
            return not self.truth(c.args[0], w)
        if c.kind == "and":
            return all(self.truth(a, w) for a in c.args)
        if c.kind == "or":
            return any(self.truth(a, w) for a in c.args)
        raise _Open(f"condition {c.key[:60]}")

    def norm_select(self, a):
        """the select atom a is decided by norm comparisons only"""
        if a not in self._sel_ok:
            c = self.I.sel[a][0]
            self._sel_ok[a] = bool(c.atoms()) and all(t.kind in ("lt", "eq") and self.atom_pair(t) is not None for t in c.atoms())
        return self._sel_ok[a]

    def at(self, r: Rat, w):
        """value of r under the weak ordering w of the three squared norms"""
        I = self.I
        for _ in range(12):
            todo = [a for a in r.atoms() if a in I.sel]
            if not todo:
                return simplify(_A.norm(r))
            for a in todo:
                c, x, y = I.sel[a]
                r = subst(r, a, x if self.truth(c, w) else y)
        raise _Open("selections nested too deeply")

    def has_norm_select(self, r: Rat):
        sels = [a for a in r.atoms() if a in self.I.sel]
        return bool(sels) and all(self.norm_select(a) for a in sels)

    def which_row(self, vec):
        """index s with vec == R_s componentwise (exactly), else None"""
        for s in range(3):
            if all(self.equal(vec[j], self.rows[s][1][j]) is True for j in range(3)):
                return s
        return None


def run(ctx, rule, sv):
    nu = sv.nu
    if sv.P2 is None:
        return
    P = Pivot(sv)
    I = P.I
    if not getattr(I, "vectors", None) or not P.find_rows():
        ctx.undecided(rule, nu, None, construct="pivot-row", detail="the three rows of (deviator - root*I) were not found among the computed 3-vectors")
        return
    cand_keys = {tuple(repr(x) for x in t[1]) for t in P.rows}
    # ---- vectors made of selections on norm comparisons
    selvecs = []
    for nm, v, node in I.vectors.values():
        xs = [x.a for x in v.data]
        if tuple(repr(x) for x in xs) in cand_keys:
            continue
        try:
            sels = [a for x in xs for a in x.atoms() if a in I.sel]
            if not sels or not all(P.norm_select(a) for a in sels):
                continue
            at = {w: [P.at(x, w) for x in xs] for w in ORDERINGS}
        except (_Open, EvalError):
            continue
        which = {w: P.which_row(at[w]) for w in ORDERINGS}
        if any(s is not None for s in which.values()):
            selvecs.append((nm, xs, node, at, which))
    if not selvecs:
        ctx.undecided(rule, nu, None, construct="pivot-row", detail="no computed 3-vector selects one of the rows of (deviator - root*I) by comparisons of their norms")
        return
    top = lambda w: [s for s in range(3) if w[s] == max(w)]
    score = [sum(1 for w in ORDERINGS if t[4][w] is not None and t[4][w] in top(w)) for t in selvecs]
    best = max(score)
    if score.count(best) != 1:
        ctx.undecided(rule, nu, None, construct="pivot-row", detail="the pivot row is not identified: several selected vectors are equally often the row of largest norm")
        return
    piv = selvecs[score.index(best)]
    others = [t for k, t in enumerate(selvecs) if k != score.index(best)]
    pname, _pxs, pnode, pat, pwhich = piv
    unique = {s: [w for w in ORDERINGS if top(w) == [s]] for s in range(3)}
    ties = [w for w in ORDERINGS if len(top(w)) > 1]

    # ---- pivot row under each exclusive selection
    for s in range(3):
        verdict, bad = True, ""
        for w in unique[s]:
            for j in range(3):
                e = P.equal(pat[w][j], P.rows[s][1][j])
                if e is not True:
                    if verdict is True or (verdict is None and e is False):
                        verdict = e
                        bad = (f"selection 'row {s} is the largest' ({_show_order(w)}): component {j} of the pivot row `{pname}` is {_short(pat[w][j])}, "
                               f"not component {j} of row {s} of (deviator - root*I) = {_short(P.rows[s][1][j])}"
                               + ("" if e is False else " (not decided)"))
        ctx.decide(rule, verdict, nu, pnode, construct=f"pivot-row[k={s}]",
                   detail=f"whenever row {s} of (deviator - root*I) alone has the largest norm the pivot row equals it componentwise",
                   bad_detail=bad + ": the QR step no longer orthogonalises against a row of the matrix, the eigenvectors do not reconstruct the tensor")
    verdict, bad = True, ""
    for w in ties:
        if pwhich[w] is not None and pwhich[w] in top(w):
            continue
        dec = all(P.equal(pat[w][j], P.rows[s][1][j]) is not None for s in range(3) for j in range(3))
        v = False if dec else None
        if verdict is True or (verdict is None and v is False):
            verdict = v
            bad = (f"tie {_show_order(w)}: the pivot row `{pname}` is [{', '.join(_short(x, 40) for x in pat[w])}], "
                   f"{'row %d, which is not one of the largest' % pwhich[w] if pwhich[w] is not None else 'not a row of (deviator - root*I)'}"
                   f" (on this ordering the selections do not pick exactly one of the tied largest rows)")
    ctx.decide(rule, verdict, nu, pnode, construct="pivot-row[ties]",
               detail="on every weak ordering of the three squared norms with a tie for the largest exactly one of the tied rows is selected",
               bad_detail=bad)

    # the orderings in which selection s is taken (by the pivot as computed; the unique-largest ones always)
    taken = {s: list(unique[s]) + [w for w in ties if pwhich[w] == s] for s in range(3)}

    # ---- reciprocal squared norm
    one = Rat(Poly.const(Fraction(1)))
    scal = []
    for key, v in I.values.items():
        a = _single(v)
        nat = I.let[a] if a in I.let and a not in P.keep else v
        try:
            if not P.has_norm_select(nat) or nat.d.is_const():
                continue
            at = {w: P.at(nat, w) for w in ORDERINGS}
        except (_Open, EvalError):
            continue
        hits = {w: [s for s in range(3) if P.equal(at[w] * P.Q[s], one) is True] for w in ORDERINGS}
        n = sum(1 for w in ORDERINGS if any(s in top(w) for s in hits[w]))
        if n:
            scal.append((n, key, v, at))
    if not scal or [t[0] for t in scal].count(max(t[0] for t in scal)) != 1:
        ctx.undecided(rule, nu, None, construct="pivot-norm", detail="the reciprocal squared norm of the pivot row was not identified among the computed scalars")
    else:
        _n, skey, sval, sat = max(scal, key=lambda t: t[0])
        sname = I.bound_names.get(skey, "?")
        for s in range(3):
            verdict, bad = True, ""
            for w in taken[s]:
                e = P.equal(sat[w] * P.Q[s], one)
                if e is not True and (verdict is True or (verdict is None and e is False)):
                    verdict = e
                    bad = (f"selection 'row {s} is the largest' ({_show_order(w)}): the scale `{sname}` is {_short(sat[w])}, not the reciprocal of the squared norm of row {s}"
                           + ("" if e is False else " (not decided)"))
            ctx.decide(rule, verdict, nu, I.bound_nodes.get(skey), construct=f"pivot-norm[k={s}]",
                       detail=f"whenever row {s} is the pivot the projections are scaled by 1/|row {s}|^2", bad_detail=bad)

    # ---- the two rows orthogonalised against the pivot
    def pair_ok(A, B, s, w):
        rest = [k for k in range(3) if k != s]
        got = (A[4][w], B[4][w])
        if None not in got:
            return sorted(got) == rest
        dec = all(P.equal(x[3][w][j], P.rows[k][1][j]) is not None for x in (A, B) for k in range(3) for j in range(3))
        return False if dec else None

    pairs = list(itertools.combinations(others, 2))
    good = None
    for A, B in pairs:
        if all(pair_ok(A, B, s, w) is True for s in range(3) for w in taken[s]):
            good = (A, B)
            break
    if good is None and len(others) != 2:
        ctx.undecided(rule, nu, None, construct="other-rows", detail=f"{len(others)} further vectors select rows by norm comparisons: the two rows orthogonalised against the pivot were not identified")
        return
    A, B = good if good is not None else (others[0], others[1])
    for s in range(3):
        verdict, bad = True, ""
        for w in taken[s]:
            e = pair_ok(A, B, s, w)
            if e is not True and (verdict is True or (verdict is None and e is False)):
                verdict = e
                def nm(k):
                    return f"row {k}" if k is not None else "no row"
                bad = (f"selection 'row {s} is the largest' ({_show_order(w)}): `{A[0]}` is {nm(A[4][w])} and `{B[0]}` is {nm(B[4][w])} of (deviator - root*I); "
                       f"expected the two rows other than the pivot row {s}")
        ctx.decide(rule, verdict, nu, A[2], construct=f"other-rows[k={s}]",
                   detail=f"whenever row {s} is the pivot the two vectors orthogonalised against it are the two other rows", bad_detail=bad)


def _single(r: Rat):
    if r.d.is_const() and r.d.const_value() == 1 and len(r.n.t) == 1:
        (mono, c), = r.n.t.items()
        if c == 1 and len(mono) == 1 and mono[0][1] == 1:
            return mono[0][0]
    return None


def _short(r, limit=90):
    t = repr(r)
    return t if len(t) <= limit else t[:limit] + "..."
