"""C18 -- smoothed min/max/abs, friction regularisation, smoothed ramp and segment parameter.

Level: proof (identities over the reals).  Every function is *abstractly interpreted* from its source to a piecewise
rational function (rules/C18_pw.py: pieces = conjunctions of comparisons, values = exact rational functions); the
interpreter inlines helper functions / nested defs / lambdas with Python's argument binding, follows temporaries, tuple
unpacking, guard clauses and every selection idiom (where / if_then_else / lax.cond / select / IfExp / minimum / maximum /
clip / abs / sign), so the result does not depend on how the function is spelled.  Parameters are located by position in
the public signature, nothing else by name.  For the arrangement of switching surfaces of the implementation *and* of the
specification every cell (breakpoints, open intervals between them, both ends) is visited at representative rational points
-- a finite, exhaustive set of orderings -- and in each cell the *symbolic* value of the active piece must satisfy the
specification identity (on a surface: after substituting the surface equation):

  min_base   outside |x-y| >= eps : value == plain minimum, and it is *selected* from the arguments (bit-exact in floating
             point; a value recomputed by rounded arithmetic that absorbs the other argument is refuted);
             inside               : minimum - value == (|x-y| - eps)^2 / (4 eps)   (so value <= min, gap <= eps/4);
             symmetric in (x, y); C0 and C1 across every switching surface;
  min, max, abs   the same identities for min(x,y), the mirrored ones for max(x,y) and |x| = max(x,-x);
  friction   inner arm t^2/(2 sReg), outer arm t - sReg/2 in t = |s|; C0/C1 at t = sReg; non-negativity,
             convexity and the Coulomb upper bound by certificate identities;
  zmax, smooth_linear   C0/C1 across their switches and the stated arms;
  smooth_distance   in every orientation case its value is c * smin(c*a, c*b, w) with c = +-1, one pair (a, b) and a width
             w >= 0 (smin kept symbolic, the orientation sign enumerated by np.sign -> {-1, 0, 1});
             over the coordinates of a corner s -> c -> e (rules/C18_geom.py: small vectors interpreted element-wise) the value
             is the same for the edges given as (sc, ce) and as (ce, sc) -- the caller orders them by proximity -- and the
             mirror factor is -1 (smoothed maximum) exactly when the far end points lie behind the other edge (convex corner).
Rounding is modelled only for the exactness obligation; assumes eps > safeTol, sReg > 0, 0 < l < 1/2.
"""
from __future__ import annotations

import ast
from fractions import Fraction

from optilint.model import namedtuple_fields
from optilint.core import Incomplete
from optilint.expr import Algebra, NotPolynomial, Rat, Poly, simplify, poly_div_exact
from optilint.piecewise import PW, solve_linear, _merge
from .C18_pw import SymEval, TupleVal, cells, surfaces, exact_eval, exactness, term_str, sign_of
from .C18_geom import GeoEval, vec, names

LEVEL = "proof"
RULE_TEXT = ("obligations = (function x cell of its switching arrangement x specification identity) + "
             "(adjacent cells x C0/C1 identity on the shared surface) + certificate identities; every obligation is an "
             "equality of exact rational normal forms of the abstractly interpreted source")
EXPLANATION = ("Abstract interpretation (helpers inlined, idiom-independent) of SmoothFunctions.py, contact/Friction.py, "
               "contact/MortarContact.py, contact/EdgeCpp.py into piecewise rational functions and proof of their specification by "
               "normal-form identities in every cell of the switching arrangement (exhaustive finite set of orderings). "
               "Real arithmetic; rounding modelled only for 'the hard minimum is selected, not recomputed'.")

SF = "optimism.SmoothFunctions"
FR = "optimism.contact.Friction"
MC = "optimism.contact.MortarContact"
EC = "optimism.contact.EdgeCpp"


def _guarded(fn):
    """algebra the engine cannot carry out (non-polynomial form, division by a vanishing sample) = not decided, never an error"""
    def run_rule(ctx):
        try:
            return fn(ctx)
        except (NotPolynomial, ZeroDivisionError, RecursionError) as ex:
            raise Incomplete(f"{fn.__name__}: {type(ex).__name__}: {ex}")
    run_rule.__name__ = fn.__name__
    return run_rule


def run(ctx):
    for m in (SF, FR, MC):
        ctx.need_module(m)
    for rule_fn in (min_base, max_abs, zmax, smooth_linear, friction, users, corner):
        ctx.guard(rule_fn, ctx)
    ctx.trust("exact rational arithmetic (fractions.Fraction); normal forms of multivariate rational functions; d sqrt(E) = dE/(2 sqrt E); "
              "inlining of calls by Python's argument binding; IEEE: selection, negation, *(+-1), +0 are exact")
    ctx.assume("eps > safeTol (= 1e-14), sReg > 0, 0 < l < 1/2, smoothingTol > 0, real arithmetic (no rounding) except for the exactness obligations")


# ------------------------------------------------------------------ shared machinery

def _anchor(ctx, qual):
    """the function a public name denotes: a def of that module, or whatever the module binds the name to (a function
    imported from another module, a lambda, a jit-wrapped function)"""
    sc = ctx.repo.find(qual)
    if sc is not None and sc.is_function():
        ctx.touch(sc)
        return sc
    modname, _, fname = qual.partition(":")
    m = ctx.repo.module(modname)
    if m is not None and fname and "." not in fname:
        from optilint.model import FuncVal
        fs = {v.scope for v in ctx.repo.resolve(ast.Name(id=fname, ctx=ast.Load()), m.scope) if isinstance(v, FuncVal)}
        if len(fs) == 1:
            sc = fs.pop()
            ctx.touch(sc)
            return sc
    raise Incomplete(f"anchor {qual} not found in the source tree")


def _lower(ctx, qual, what, **kw):
    """(scope, interpreter, piecewise value, parameter names) of the function `qual`"""
    sc = _anchor(ctx, qual)
    ev = SymEval(ctx.repo, Algebra(), on_inline=ctx.touch, **kw)
    try:
        pw = ev.run(sc)
    except NotPolynomial as ex:
        raise Incomplete(f"{what} cannot be lowered to a piecewise rational function: {ex}")
    if not isinstance(pw, PW):
        raise Incomplete(f"{what} does not return one scalar value")
    return sc, ev, pw, sc.params()


def _understood(ev, *rats):
    """False when a compared value contains an atom standing for a call the interpreter could not read"""
    for r in rats:
        if r is not None and any(a in ev.opaque for a in r.atoms()):
            return False
    return True


def _decide(ctx, ev, rule, ok, sc, construct, detail, bad_detail, rats=()):
    if ok is False and not _understood(ev, *rats):
        culprit = sorted(a for r in rats if r is not None for a in r.atoms() if a in ev.opaque)[0]
        return ctx.undecided(rule, sc, None, construct=construct, detail=f"the value goes through `{culprit}`, which the interpreter cannot read")
    return ctx.decide(rule, ok, sc, None, construct=construct, detail=detail, bad_detail=bad_detail)


def _fl(pt):
    return {k: float(v) for k, v in pt.items()}


def _active(ctx, ev, rule, sc, pw, p, where):
    act = ev.active(pw, p)
    if len(act) > 1 and all(ev.A.equal(q.value, act[0].value) and q.term == act[0].term for q in act[1:]):
        act = act[:1]          # overlapping pieces that carry the same value
    if len(act) != 1:
        ctx.undecided(rule, sc, None, construct=f"cell {where}", detail=f"{len(act)} pieces of the interpreted function are active at {p}")
        return None
    return act[0]


def _glue(ctx, rule, sc, pe, pw, var, others_points, deriv_vars, nonneg=False, label="", candidates=()):
    """C0/C1 across every switching surface reachable by moving `var`."""
    A = pe.A
    surf = surfaces(pe, pw, var, nonneg, candidates)
    n = 0
    seen = set()
    # surfaces that cannot be solved symbolically: locate them numerically and look for a jump (witness search);
    # a jump found in the extracted formula refutes continuity, no jump leaves the obligation undecided
    for (a, roots) in surf:
        if roots is not None:
            continue
        for pt in others_points:
            f = lambda x, pt=pt: A.eval(a.diff, dict(pt, **{var: x}))
            lo_, hi_ = (0.0 if nonneg else -50.0), 50.0
            try:
                flo, fhi = f(lo_), f(hi_)
            except Exception:
                continue
            if flo * fhi > 0:
                continue
            for _ in range(200):
                mid = 0.5 * (lo_ + hi_)
                fm = f(mid)
                if flo * fm <= 0:
                    hi_, fhi = mid, fm
                else:
                    lo_, flo = mid, fm
            root = 0.5 * (lo_ + hi_)
            d = 1e-6 * max(1.0, abs(root))
            pl = pe.active(pw, dict(pt, **{var: root - d}))
            ph = pe.active(pw, dict(pt, **{var: root + d}))
            if len(pl) == 1 and len(ph) == 1 and pl[0] is not ph[0] and _understood(pe, pl[0].value, ph[0].value):
                v0 = A.eval(pl[0].value, dict(pt, **{var: root}))
                v1 = A.eval(ph[0].value, dict(pt, **{var: root}))
                if abs(v0 - v1) > 1e-6 * max(1.0, abs(v0)):
                    ctx.refuted(rule, sc, None, construct=f"{label}C0 at surface {a.key}",
                                detail=f"value jumps across the switching surface `{a.key}`: at {var}={root:.6g} ({pt}) the arms give {v0:.6g} and {v1:.6g}")
                    n += 1
                    break
        else:
            ctx.undecided(rule, sc, None, construct=f"{label}surface:{a.key}", detail="switching surface not solvable symbolically and no jump found numerically")
    for (a, roots) in surf:
        for vstar in (roots or []):
            for pt in others_points:
                try:
                    vs = A.eval(vstar, pt)
                except KeyError:
                    continue
                if nonneg and vs < 0:
                    continue
                lo, hi = dict(pt), dict(pt)
                d = 1e-7 * max(1.0, abs(vs))
                lo[var], hi[var] = vs - d, vs + d
                if nonneg and lo[var] < 0:
                    continue
                pl, ph = pe.active(pw, lo), pe.active(pw, hi)
                if len(pl) != 1 or len(ph) != 1:
                    ctx.undecided(rule, sc, None, construct=f"{label}glue:{a.key}", detail=f"{len(pl)}/{len(ph)} active pieces next to the surface")
                    continue
                P, Q = pl[0], ph[0]
                key = (a.key, repr(vstar), repr(P.value), repr(Q.value))
                if key in seen:
                    continue
                seen.add(key)
                if A.equal(P.value, Q.value):
                    ctx.proved(rule, sc, None, construct=f"{label}surface {var}={vstar!r}: same arm both sides", detail="no switch of value here")
                    n += 1
                    continue
                v0, v1 = A.subst(P.value, var, vstar), A.subst(Q.value, var, vstar)
                ok = A.equal(v0, v1)
                _decide(ctx, pe, rule, ok, sc, f"{label}C0 at {var}={vstar!r}", f"both arms equal {v0!r}",
                        f"value jumps across {var} = {vstar!r}: {v0!r} on one side, {v1!r} on the other", (P.value, Q.value))
                n += 1
                for dv in deriv_vars:
                    g0 = A.subst(A.diff(P.value, dv), var, vstar)
                    g1 = A.subst(A.diff(Q.value, dv), var, vstar)
                    ok = A.equal(g0, g1)
                    _decide(ctx, pe, rule, ok, sc, f"{label}C1 d/d{dv} at {var}={vstar!r}", f"both one-sided derivatives equal {g0!r}",
                            f"d/d{dv} jumps across {var} = {vstar!r}: {g0!r} vs {g1!r}", (P.value, Q.value))
                    n += 1
    return n


def _roots(A, var, *diffs):
    out = []
    for d in diffs:
        r = solve_linear(A, A.norm(d), var)
        if r is not None and not any(A.equal(r, q) for q in out):
            out.append(r)
    return out


def _leftover(ctx, ev, rule, sc, pw, allowed, what):
    """atoms other than the function's own inputs in the interpreted value: the function is not a closed formula of them"""
    extra = sorted({a for p in pw.pieces for a in p.value.atoms()} - set(allowed) - {a for a in ev.A.rules})
    if extra:
        ctx.undecided(rule, sc, None, construct=f"{what}closed-form", detail=f"the value depends on `{extra[0]}`, which is not an input of the function")
        return True
    return False


# ------------------------------------------------------------------ smoothed extremum specification

def _extremum(ctx, rule, sc, ev, pw, var, others, u: Rat, v: Rat, E: Rat, kind, label="", swap=None, mincells=0):
    """`pw` (a function of `var` and the atoms fixed by `others`) is the smoothed minimum (kind='min') / maximum ('max') of the
    two expressions u, v with width E: equal to the plain extremum -- selected, not recomputed -- where |u-v| >= E; inside the band
    the gap to the plain extremum is (|u-v|-E)^2/(4E) on the safe side; symmetric under `swap`; C0/C1 across every surface."""
    A = ev.A
    name = "minimum" if kind == "min" else "maximum"
    spec = _roots(A, var, u - v - E, u - v + E, u - v)
    ncell = 0
    for pt in others:
        samples, unsolved = cells(ev, pw, var, pt, spec=spec)
        for a in unsolved:
            ctx.undecided(rule, sc, None, construct=f"{label}surface:{a.key}", detail=f"switching surface not solvable for {var}")
        for (xv, roots) in samples:
            p = dict(pt)
            p[var] = xv
            d, eps = exact_eval(A.norm(u - v), p), exact_eval(E, p)
            where = f"d/eps={d / eps}"
            P = _active(ctx, ev, rule, sc, pw, p, f"{label}{where}")
            if P is None:
                continue
            ncell += 1
            onsurf = roots[0] if roots else None

            def at(r):
                return A.subst(r, var, onsurf) if onsurf is not None else A.norm(r)
            small_is_u = (d < 0) if kind == "min" else (d > 0)
            m = u if small_is_u else v
            absd = A.norm(v - u) if d < 0 else A.norm(u - v)
            if abs(d) >= eps:
                ok = A.equal(at(P.value), at(m))
                _decide(ctx, ev, rule, ok, sc, f"{label}outside-band [{where}] value == {kind}", f"value {P.value!r}",
                        f"outside the smoothing band (|x-y| >= eps, {where}) the value is {P.value!r}, not the plain {name} {m!r}", (P.value,))
                if ok and abs(d) > eps:
                    ex = exactness(P.term, m.atoms())
                    _decide(ctx, ev, rule, ex != "absorbing", sc, f"{label}outside-band [{where}] {kind} is selected, not recomputed",
                            f"floating-point trace `{term_str(P.term)}` ({ex})",
                            f"outside the smoothing band ({where}) the result is computed as `{term_str(P.term)}`: over the reals this is the plain "
                            f"{name} {m!r}, but in floating point the rounded arithmetic absorbs it when the other argument is much larger "
                            f"(the value no longer *equals* the {name} outside the band)", (P.value,))
            else:
                gap = at(A.norm(m - P.value)) if kind == "min" else at(A.norm(P.value - m))
                want = at(A.norm((absd - E) * (absd - E) / (A.const(4) * E)))
                ok = A.equal(gap, want)
                lhs = "min - value" if kind == "min" else "value - max"
                _decide(ctx, ev, rule, ok, sc, f"{label}inside-band [{where}] {lhs} == (|d|-eps)^2/(4 eps)",
                        f"certificate identity holds: 0 <= {lhs} <= eps/4",
                        f"inside the band ({where}) {lhs} = {gap!r}, which is not (|x-y|-eps)^2/(4 eps) = {want!r}: "
                        f"the one-sided bound / eps/4 tightness certificate fails", (P.value,))
            if swap is not None:
                # symmetry: value at the swapped point, written in the same variables
                a0, a1 = swap
                ps = dict(p)
                ps[a0], ps[a1] = p[a1], p[a0]
                acts = ev.active(pw, ps)
                if len(acts) == 1:
                    t0, t1 = A.atom("__swap0"), A.atom("__swap1")
                    sw = A.subst(A.subst(acts[0].value, a0, t0), a1, t1)
                    sw = A.subst(A.subst(sw, "__swap0", A.atom(a1)), "__swap1", A.atom(a0))
                    v_here, sw = at(P.value), at(sw)
                    ok = A.equal(v_here, sw)
                    _decide(ctx, ev, rule, ok, sc, f"{label}symmetric [{where}]", "f(x,y) == f(y,x)",
                            f"not symmetric at {where}: f(x,y) = {v_here!r} but f(y,x) = {sw!r}", (P.value, acts[0].value))
    if ncell < mincells:
        ctx.undecided(rule, sc, None, construct=f"{label}cells", detail=f"only {ncell} cells visited")
    return spec


# ------------------------------------------------------------------ min_base and its wrappers

def min_base(ctx):
    rule = "T7-min_base"
    sc, ev, pw, ps = _lower(ctx, f"{SF}:min_base", "min_base")
    if len(ps) != 3:
        raise Incomplete("min_base no longer has the signature (x, y, eps)")
    xn, yn, en = ps
    A = ev.A
    if _leftover(ctx, ev, rule, sc, pw, ps, ""):
        return
    X, Y, E = A.atom(xn), A.atom(yn), A.atom(en)
    others = [{yn: Fraction(0), en: Fraction(1, 2)}, {yn: Fraction(1, 3), en: Fraction(2)}, {yn: Fraction(-2), en: Fraction(3, 7)}]
    spec = _extremum(ctx, rule, sc, ev, pw, xn, others, X, Y, E, "min", swap=(xn, yn), mincells=15)
    n = _glue(ctx, rule, sc, ev, pw, xn, [_fl(pt) for pt in others], (xn, yn), candidates=spec)
    if n < 4:
        ctx.undecided(rule, sc, None, construct="glue", detail=f"{n} surface obligations")


def max_abs(ctx):
    """min / max / abs are verified against their own specification (the mirrored bounds), whatever way they are reduced to the
    smoothed minimum: -min_base(-x,-y), max(x,-x), a keyword call, a private helper ..."""
    rule = "T5-mirrored-wrappers"
    for name in ("min", "max", "abs"):
        sc, ev, pw, ps = _lower(ctx, f"{SF}:{name}", name)
        A = ev.A
        if _leftover(ctx, ev, rule, sc, pw, ps, f"{name}: "):
            continue
        if name == "abs":
            if len(ps) != 2:
                raise Incomplete("abs no longer has the signature (x, eps)")
            xn, en = ps
            X, E = A.atom(xn), A.atom(en)
            others = [{en: Fraction(1, 2)}, {en: Fraction(2)}, {en: Fraction(3, 7)}]
            spec = _extremum(ctx, rule, sc, ev, pw, xn, others, X, A.norm(-X), E, "max", label="abs: ", mincells=9)
            _glue(ctx, rule, sc, ev, pw, xn, [_fl(pt) for pt in others], (xn,), label="abs: ", candidates=spec)
        else:
            if len(ps) != 3:
                raise Incomplete(f"{name} no longer has the signature (x, y, eps)")
            xn, yn, en = ps
            X, Y, E = A.atom(xn), A.atom(yn), A.atom(en)
            others = [{yn: Fraction(0), en: Fraction(1, 2)}, {yn: Fraction(1, 3), en: Fraction(2)}, {yn: Fraction(-2), en: Fraction(3, 7)}]
            spec = _extremum(ctx, rule, sc, ev, pw, xn, others, X, Y, E, name, label=f"{name}: ", swap=(xn, yn), mincells=15)
            _glue(ctx, rule, sc, ev, pw, xn, [_fl(pt) for pt in others], (xn, yn), label=f"{name}: ", candidates=spec)


# ------------------------------------------------------------------ zmax / smooth_linear

def _arms(ctx, rule, sc, ev, pw, var, others, spec, arm_of, mincells=0, nonneg=False, after=None):
    """generic cell walk: in every cell the active piece equals the specification arm `arm_of(point) -> (Rat, text)`
    (on a surface: after substituting the surface equation)."""
    A = ev.A
    ncell = 0
    for pt in others:
        samples, unsolved = cells(ev, pw, var, pt, nonneg=nonneg, spec=spec)
        for a in unsolved:
            ctx.undecided(rule, sc, None, construct=f"surface:{a.key}", detail=f"switching surface not solvable for {var}")
        for (xv, roots) in samples:
            p = dict(pt)
            p[var] = xv
            P = _active(ctx, ev, rule, sc, pw, p, f"{var}={xv}")
            if P is None:
                continue
            ncell += 1
            want, nm, where = arm_of(p)
            onsurf = roots[0] if roots else None
            at = (lambda r: A.subst(r, var, onsurf)) if onsurf is not None else A.norm
            ok = A.equal(at(P.value), at(want))
            _decide(ctx, ev, rule, ok, sc, f"[{where}] value == {nm}", "arm as specified",
                    f"at {where} the function evaluates the arm {P.value!r}, expected {nm}", (P.value,))
            if after is not None and onsurf is None:
                after(p, P, ok, where)
    if ncell < mincells:
        ctx.undecided(rule, sc, None, construct="cells", detail=f"only {ncell} cells visited")


def zmax(ctx):
    rule = "T7-zmax"
    sc, ev, pw, ps = _lower(ctx, f"{SF}:zmax", "zmax")
    if len(ps) != 2:
        raise Incomplete("zmax no longer has the signature (x, eps)")
    xn, en = ps
    A = ev.A
    if _leftover(ctx, ev, rule, sc, pw, ps, ""):
        return
    X, E = A.atom(xn), A.atom(en)
    pts = [{en: Fraction(1, 2)}, {en: Fraction(2)}]
    spec = _roots(A, xn, X - E, X + E)

    def arm(p):
        r = p[xn] / p[en]
        where = f"x/eps={float(r):g}"
        if r >= 1:
            return X, "x", where
        if r <= -1:
            return A.const(0), "0", where
        return A.norm((X + E) * (X + E) / (A.const(4) * E)), "(x+eps)^2/(4 eps)", where
    _arms(ctx, rule, sc, ev, pw, xn, pts, spec, arm, mincells=6)
    _glue(ctx, rule, sc, ev, pw, xn, [_fl(p) for p in pts], (xn,), candidates=spec)


def smooth_linear(ctx):
    rule = "T7-smooth_linear"
    sc, ev, pw, ps = _lower(ctx, f"{MC}:smooth_linear", "smooth_linear")
    if len(ps) != 2:
        raise Incomplete("smooth_linear no longer has the signature (xi, l)")
    xn, ln = ps
    A = ev.A
    if _leftover(ctx, ev, rule, sc, pw, ps, ""):
        return
    X, L = A.atom(xn), A.atom(ln)
    one = A.const(1)
    pts = [{ln: Fraction(1, 4)}, {ln: Fraction(1, 10)}, {ln: Fraction(2, 5)}]
    spec = _roots(A, xn, X - L, X - one + L)

    def arm(p):
        x, l = p[xn], p[ln]
        where = f"xi={float(x):g}, l={float(l):g}"
        if x < l:
            return A.norm(X * X / (A.const(2) * L)), "xi^2/(2 l)", where
        if x > 1 - l:
            return A.norm(one - L - (one - X) * (one - X) / (A.const(2) * L)), "1 - l - (1-xi)^2/(2 l)", where
        return A.norm(X - L / A.const(2)), "xi - l/2", where
    _arms(ctx, rule, sc, ev, pw, xn, pts, spec, arm, mincells=9)
    n = _glue(ctx, rule, sc, ev, pw, xn, [_fl(p) for p in pts], (xn,), candidates=spec)
    if n < 4:
        ctx.undecided(rule, sc, None, construct="glue", detail=f"{n} surface obligations")


# ------------------------------------------------------------------ friction

def _record_layout(ctx, modname, needed):
    """field order of the one namedtuple of module `modname` that has the fields `needed` (so that p[0] and p.mu denote the same)"""
    m = ctx.repo.module(modname)
    found = []
    for n in ast.walk(m.tree):
        if isinstance(n, ast.Call) and (getattr(n.func, "id", None) or getattr(n.func, "attr", None)) == "namedtuple" and len(n.args) >= 2:
            nt = namedtuple_fields(n)
            if nt is not None and all(f in nt.fields for f in needed):
                found.append(list(nt.fields))
    return found[0] if len(found) == 1 else None


def friction(ctx):
    rule = "T7-friction"
    sc0 = _anchor(ctx, f"{FR}:compute_friction_energy_from_perp_slip")
    if len(sc0.params()) != 2:
        raise Incomplete("the friction potential no longer has the signature (sPerp, frictionParams)")
    sp, fp = sc0.params()
    layout = _record_layout(ctx, FR, ("mu", "sReg"))
    sc, ev, pw, _ = _lower(ctx, f"{FR}:compute_friction_energy_from_perp_slip", "friction potential",
                           vectors={sp: "t"}, tuple_fields={fp: layout} if layout else None)
    A = ev.A
    ctx.assume("t = |sPerp| >= 0 (the self inner product of the slip vector is t*t; sqrt(t^2) = t)")
    sreg_key, mu_key = f"{fp}.sReg", f"{fp}.mu"
    if _leftover(ctx, ev, rule, sc, pw, ("t", sreg_key, mu_key), ""):
        return
    T, S, MU = A.atom("t"), A.atom(sreg_key), A.atom(mu_key)
    pts = [{sreg_key: Fraction(1, 2), mu_key: Fraction(3, 10)}, {sreg_key: Fraction(2), mu_key: Fraction(3, 2)}]
    spec = [S]

    def arm(p):
        r = p["t"] / p[sreg_key]
        where = f"t/sReg={float(r):g}"
        if r <= 1:
            return A.norm(MU * T * T / (A.const(2) * S)), "mu t^2/(2 sReg)", where
        return A.norm(MU * (T - S / A.const(2))), "mu (t - sReg/2)", where

    def certificates(p, P, ok, where):
        if not ok:
            return
        v = P.value
        d2 = A.diff(A.diff(v, "t"), "t")
        if p["t"] <= p[sreg_key]:
            # certificates: >= 0 (square over positive), convex (second derivative mu/sReg), <= mu t:
            ctx.decide(rule, A.equal(d2, A.norm(MU / S)), sc, None, construct=f"[{where}] inner arm convex",
                       detail="second derivative mu/sReg > 0", bad_detail=f"second derivative is {d2!r}")
            gap = A.norm(MU * T - v)
            cert = A.norm(MU * T * (A.const(2) * S - T) / (A.const(2) * S))
            ctx.decide(rule, A.equal(gap, cert), sc, None, construct=f"[{where}] inner arm <= Coulomb value",
                       detail="mu t - value == mu t (2 sReg - t)/(2 sReg) >= 0 for 0 <= t <= sReg",
                       bad_detail=f"mu t - value = {gap!r}: Coulomb upper-bound certificate fails")
        else:
            ctx.decide(rule, A.is_zero(d2), sc, None, construct=f"[{where}] outer arm linear", detail="second derivative 0",
                       bad_detail=f"second derivative is {d2!r}")
    _arms(ctx, rule, sc, ev, pw, "t", pts, spec, arm, mincells=6, nonneg=True, after=certificates)
    n = _glue(ctx, rule, sc, ev, pw, "t", [_fl(p) for p in pts], ("t",), nonneg=True, candidates=spec)
    if n < 2:
        ctx.undecided(rule, sc, None, construct="glue", detail=f"{n} surface obligations at t = sReg")


# ------------------------------------------------------------------ users of the smoothed minimum

def _unit_times_app(ev, r: Rat):
    """(c, app atom) when r == c * <symbolic application> with c = +-1, else None"""
    r = simplify(r)
    if r.d != Poly.const(1) or len(r.n.t) != 1:
        return None
    (m, c), = r.n.t.items()
    if c not in (1, -1) or len(m) != 1 or m[0][1] != 1 or m[0][0] not in ev.sym_apps:
        return None
    return int(c), m[0][0]


def users(ctx):
    """The smoothed corner distance is the smoothed minimum mirrored by an orientation factor c in {-1, +1}: c*smin(c*a, c*b, w) is the
    smoothed min of (a, b) for c = +1 and their smoothed max for c = -1.  In *every* orientation case the value must have this
    shape with the same pair (a, b) and a width w >= 0 (a width that carries the orientation sign is negative for one orientation:
    the blend band is empty there, the hard min/max is returned and the corner distance is not continuously differentiable).
    The function is interpreted with the smoothed minimum kept symbolic and the unrelated geometry (closest points, normals,
    areas) kept opaque; np.sign is enumerated over {-1, 0, +1}."""
    rule = "T5-users"
    # the smoothed extrema are used through their *verified meaning* (T7-min_base, T5-mirrored-wrappers), whatever way the
    # wrappers are implemented: min = smin, max = -smin(-a,-b), abs = -smin(-x,x)
    sym = {f"{SF}:min_base": "min", f"{SF}:min": "min", f"{SF}:max": "max", f"{SF}:abs": "abs"}
    named = {}
    for q, k in sym.items():
        try:
            named[_anchor(ctx, q)] = k
        except Incomplete:
            pass
    sym = named
    sd = _anchor(ctx, f"{EC}:smooth_distance")
    if len(sd.params()) != 3:
        raise Incomplete("smooth_distance no longer has the signature (twoEdges, p, smoothingTol)")
    tol_param = sd.params()[2]
    sc, ev, pw, ps = _lower(ctx, f"{EC}:smooth_distance", "smooth_distance", symbolic=sym, abs_as_atom=True, keep_only_reduced=True)
    A = ev.A
    shapes = []
    unread = []
    for P in pw.pieces:
        ua = _unit_times_app(ev, P.value)
        if ua is None:
            unread.append(P)
            continue
        c, app = ua
        a0, a1, w = ev.sym_apps[app][1]
        shapes.append((P, c, a0, a1, w))
    # no smoothed extremum at all: a value that merely *selects* (+- one opaque distance per case, at least two of them)
    # is a hard min/max (positively not smoothed); anything else is an idiom this rule cannot read
    anyapp = any(a in ev.sym_apps for P in pw.pieces for a in P.value.atoms())
    def selected(r):
        r = simplify(r)
        if r.d != Poly.const(1) or len(r.n.t) != 1:
            return None
        (m, c), = r.n.t.items()
        if c in (1, -1) and len(m) == 1 and m[0][1] == 1 and m[0][0] not in A.rules and m[0][0] not in ev.failed:
            return m[0][0]
        return None
    picks = [selected(P.value) for P in pw.pieces]
    hard = all(x is not None for x in picks) and len(set(picks)) >= 2
    ctx.decide(rule, True if shapes else (False if (not anyapp and hard) else None), sc, None, construct="smooth_distance-uses-smoothed-min",
               detail=f"smooth_distance = c * smoothed-min(c*a, c*b, w) in {len(shapes)} orientation / width case(s)",
               bad_detail="smooth_distance no longer goes through the smoothed minimum of SmoothFunctions: it only selects among "
                          f"{sorted({repr(P.value) for P in pw.pieces})[:4]} (hard min/max, not C1 across the corner bisector)" if (not anyapp and hard)
               else f"the value `{pw.pieces[0].value!r}` of smooth_distance is not (+-1) * smoothed minimum")
    if not shapes:
        return
    for P in unread:
        ctx.undecided(rule, sc, None, construct="mirrored-by-one-sign-factor",
                      detail=f"in one case the value of smooth_distance is `{P.value!r}`, which is not (+-1) * smoothed minimum")
    # width: >= 0 in every case
    verdict, wit = True, ""
    for (P, c, a0, a1, w) in shapes:
        sg = sign_of(ev, w, positive=(tol_param,))
        if sg is None:
            # the width goes through a folded helper: look at the values the helper can return
            sgs = {sign_of(ev, x, positive=(tol_param,)) for x in ev.alternatives(w)}
            sg = "0+" if sgs <= {"+", "0+", "0"} else "-0" if (sgs <= {"-", "-0", "0"} and sgs & {"-", "-0"}) else None
        if sg in ("+", "0+", "0"):
            continue
        if sg in ("-", "-0"):
            verdict, wit = False, f"for the orientation factor {c:+d} the width is `{w!r}`, which is negative whenever it is not zero"
            break
        verdict, wit = None, f"the sign of the width `{w!r}` is not determined"
    widths = sorted({repr(w) for (_, _, _, _, w) in shapes})
    ctx.decide(rule, verdict, sc, None, construct="smoothing-width-nonnegative", detail=f"widths {widths} are >= 0 in every orientation case",
               bad_detail=f"the smoothing width passed to the smoothed minimum is not >= 0: {wit}; for a negative width the "
                          f"blend band is empty and the hard min/max is returned (distance not C1 across the corner bisector)")
    # one pair (a, b) whatever the orientation: the set of pairs {c*A, c*B} met with c = +1 equals the set met with c = -1
    # (a and b may themselves be piecewise -- clamped closest points -- but must not depend on the orientation factor)
    pairs = {}
    for (P, c, a0, a1, w) in shapes:
        k = tuple(sorted((repr(A.norm(A.const(c) * a0)), repr(A.norm(A.const(c) * a1)))))
        pairs.setdefault(c, set()).add(k)
    okm = len(pairs) < 2 or pairs[1] == pairs[-1]
    bad = ""
    if not okm:
        k0 = sorted(pairs[1] - pairs[-1] or pairs[1])[0]
        k1 = sorted(pairs[-1] - pairs[1] or pairs[-1])[0]
        bad = (f"for the orientation factor +1 the value is the smoothed extremum of ({k0[0]}, {k0[1]}), "
               f"for -1 of ({k1[0]}, {k1[1]})")
    ctx.decide(rule, okm, sc, None, construct="mirrored-by-one-sign-factor", detail="c * smin(c*a, c*b, w) with one factor c and one pair (a, b)",
               bad_detail="smooth_distance is not c * smoothed-min(c*a, c*b, eps) with the same sign factor on both arguments and the result: " + bad)


# ------------------------------------------------------------------ the corner the smoothed distance belongs to

def _corner_samples(tol_name):
    """exact rational corners s -> c -> e (convex / concave, right / acute / obtuse, off the origin, collinear), query points
    around the shared vertex on three radii, two smoothing tolerances"""
    F = Fraction
    corners = [
        ((1, -1), (1, 1), (-1, 1)), ((1, -1), (1, 1), (-1, -1)), ((-1, 1), (1, 1), (1, -1)),
        ((-1, F(3, 5)), (F(1, 2), F(1, 5)), (F(17, 10), F(-9, 10))), ((3, -2), (4, F(-17, 10)), (F(23, 5), F(-4, 5))),
        ((0, 0), (2, 0), (3, F(1, 7))), ((0, 0), (2, 0), (3, F(-1, 7))), ((-2, 5), (-3, 3), (-1, 2)), ((-2, 5), (-3, 3), (-5, 4)),
        ((0, 0), (1, 1), (3, 3)),
    ]
    dirs = [(1, 0), (3, 1), (1, 1), (1, 3), (0, 1), (-1, 3), (-1, 1), (-3, 1), (-1, 0), (-3, -1), (-1, -1), (-1, -3), (0, -1), (1, -3), (1, -1), (3, -1)]
    out = []
    for (s, c, e) in corners:
        for r in (F(1, 20), F(1, 2)):
            for (dx, dy) in dirs:
                for tol in ((F(1, 1000), F(3, 5)) if r < 1 and dx * dy == 0 else (F(1, 10),)):
                    pt = {}
                    for nm, v in (("S", s), ("C", c), ("E", e), ("P", (c[0] + r * dx, c[1] + r * dy))):
                        for k, x in zip(names(nm), v):
                            pt[k] = F(x)
                    pt[tol_name] = tol
                    out.append(pt)
    return out


def _fmt_corner(pt):
    f = lambda n: "(" + ", ".join(f"{float(pt[k]):g}" for k in names(n)) + ")"
    return f"s={f('S')}, c={f('C')}, e={f('E')}, p={f('P')}"


def _same_value(ev, u: Rat, v: Rat):
    """equal normal forms, or the same mirror factor on applications of the smoothed minimum whose operand pairs and widths
    are equal as rational functions"""
    A = ev.A
    if A.equal(u, v):
        return True
    su, sv = _unit_times_app(ev, u), _unit_times_app(ev, v)
    if su is None or sv is None or su[0] != sv[0]:
        return False
    (a0, a1, w0), (b0, b1, w1) = ev.sym_apps[su[1]][1], ev.sym_apps[sv[1]][1]
    try:
        return A.equal(w0, w1) and ((A.equal(a0, b0) and A.equal(a1, b1)) or (A.equal(a0, b1) and A.equal(a1, b0)))
    except NotPolynomial:
        return False


def _sign_from_conditions(ev, q: Rat, conds):
    """set of possible signs of q = N/den (den a product of norms, > 0) under the conjunction `conds`: a condition whose
    polynomial D divides N with a cofactor N/(D den) of known sign restricts it, anything else leaves it open"""
    q = simplify(ev.A.norm(q))
    N = q.n
    allowed = {-1, 0, 1}
    if N.is_zero():
        return {0}
    for (a, pol) in conds:
        if not a.diff.d.is_const() or not a.diff.n.t or a.diff.n.is_const():
            continue
        Dn = a.diff.n
        quo = poly_div_exact(N, Dn)
        if quo is None or quo.is_zero():
            continue
        sr = sign_of(ev, simplify(Rat(quo, q.d * a.diff.d)))     # q == (quo/den) * D with a factor of known sign
        if sr in ("+", "0+"):
            f = 1
        elif sr in ("-", "-0"):
            f = -1
        else:
            continue
        s = ({-1} if pol else {0, 1}) if a.op == "Lt" else ({-1, 0} if pol else {1})
        allowed &= {f * x for x in s}
    return allowed


def corner(ctx):
    """smooth_distance as a function of the coordinates of a corner s -> c -> e (rules/C18_geom.py).

    (1) The two edges reach the function ordered by their proximity to the query point, so one corner is met in both orders:
        f((sc, ce), p) == f((ce, sc), p) -- the smoothed minimum / maximum is symmetric in its arguments, and so must be the
        choice between them.  Proved by comparing every jointly satisfiable pair of cases of the two interpretations; refuted
        by an exact rational corner at which the two (fully interpreted) values differ.
    (2) The mirror factor k in k*smin(k*a, k*b, w) makes the smoothed *maximum* (k = -1) of the plane distances a, b exactly for a
        convex corner.  Convexity is read off the function's own operands: at the far end of either edge the other edge's plane
        distance is negative (the vertex lies behind that edge) for a convex corner, positive for a re-entrant one.  In every case
        of the interpreted function that sign must be fixed by the case's own conditions and agree with k."""
    rule = "T5-users"
    sym = {}
    for q, k in ((f"{SF}:min_base", "min"), (f"{SF}:min", "min"), (f"{SF}:max", "max"), (f"{SF}:abs", "abs")):
        try:
            sym[_anchor(ctx, q)] = k
        except Incomplete:
            pass
    sd = _anchor(ctx, f"{EC}:smooth_distance")
    if len(sd.params()) != 3:
        raise Incomplete("smooth_distance no longer has the signature (twoEdges, p, smoothingTol)")
    tol_name = sd.params()[2]
    ev = GeoEval(ctx.repo, Algebra(), symbolic=sym, abs_as_atom=True, on_inline=ctx.touch)
    A = ev.A
    S, C, E, P = (vec(ev, n) for n in "SCEP")
    first, second = TupleVal([S, C]), TupleVal([C, E])
    runs = []
    for tag, edges in (("(s-c, c-e)", [first, second]), ("(c-e, s-c)", [second, first])):
        try:
            pw = ev.run(sd, [TupleVal(edges), P, ev.atom_pw(tol_name)])
        except NotPolynomial as ex:
            raise Incomplete(f"smooth_distance cannot be lowered over the coordinates of a corner: {ex}")
        if not isinstance(pw, PW):
            raise Incomplete("smooth_distance does not return one scalar value")
        runs.append((tag, pw))
    ctx.assume("the two edges handed to smooth_distance form a corner s -> c -> e (they share the vertex c), in either order; edges have positive length")
    (tag1, pw1), (tag2, pw2) = runs

    known = {x for n in "SCEP" for x in names(n)} | {tol_name}

    def unread(*rats):
        """an atom that is neither a coordinate nor a norm / |.| / smoothed minimum of understood values: it stands for something
        the interpreter could not read (a callee, a field of its result), anywhere below the given values"""
        seen, todo = set(), [x for r in rats for x in r.atoms()]
        while todo:
            x = todo.pop()
            if x in seen or x in known:
                continue
            seen.add(x)
            if x in ev.sym_apps:
                todo += [y for r in ev.sym_apps[x][1] for y in r.atoms()]
            elif x in ev.absdefs:
                todo += list(ev.absdefs[x].atoms())
            elif x in A.rules:
                todo += list(A.rules[x].atoms())
            else:
                return x
        return None

    # active case of either interpretation at every sample corner (exact arithmetic wherever no norm is involved); on demand
    _memo = []

    def samples():
        if not _memo:
            out = []
            for pt in _corner_samples(tol_name):
                full, cache, act = dict(pt), {}, []
                for (_, pw) in runs:
                    state = [(p, ev.holds(p.conds, full, cache)) for p in pw.pieces]
                    hit = [p for (p, h) in state if h is True]
                    act.append(hit[0] if (len(hit) == 1 and not any(h is None for (_, h) in state)) else None)
                out.append((pt, full, act))
            _memo.append(out)
        return _memo[0]

    # ---- (1) symmetry under exchange of the two edges
    npairs, bad = 0, []
    for P1 in pw1.pieces:
        for P2 in pw2.pieces:
            if ev._clean(_merge(P1.conds, P2.conds)) is None:
                continue
            npairs += 1
            if not _same_value(ev, P1.value, P2.value):
                bad.append((P1, P2))
    if not bad:
        ctx.proved(rule, sd, None, construct="edge-order-symmetric",
                   detail=f"f({tag1}, p) == f({tag2}, p): equal values in all {npairs} jointly satisfiable pairs of cases")
    else:
        wit = None
        for (pt, full, (Q1, Q2)) in samples():
            if Q1 is None or Q2 is None or _same_value(ev, Q1.value, Q2.value):
                continue
            try:
                v1, v2 = float(ev.value(Q1.value, full)), float(ev.value(Q2.value, full))
            except (KeyError, ZeroDivisionError, TypeError):
                continue
            if abs(v1 - v2) > 1e-9 * max(1.0, abs(v1), abs(v2)):
                wit = (pt, Q1, Q2, v1, v2)
                break
        if wit is not None:
            pt, Q1, Q2, v1, v2 = wit
            s1, s2 = _unit_times_app(ev, Q1.value), _unit_times_app(ev, Q2.value)
            why = ""
            if s1 is not None and s2 is not None and s1[0] != s2[0]:
                kind = {1: "smoothed minimum (mirror factor +1)", -1: "smoothed maximum (mirror factor -1)"}
                why = (f": the orientation factor depends on the order of the edges -- {kind[s1[0]]} for {tag1}, {kind[s2[0]]} for {tag2}")
            ctx.refuted(rule, sd, None, construct="edge-order-symmetric",
                        detail=f"smooth_distance is not symmetric in its two edges (the caller orders them by proximity to the query point): "
                               f"at the corner {_fmt_corner(pt)} the edges given as {tag1} yield {v1:.6g}, given as {tag2} yield {v2:.6g}{why}")
        else:
            P1, P2 = bad[0]
            u = unread(P1.value, P2.value, *[a.diff for (a, _) in P1.conds + P2.conds])
            ctx.undecided(rule, sd, None, construct="edge-order-symmetric",
                          detail=(f"the value goes through `{u}`, which the interpreter cannot read" if u else
                                  f"{len(bad)} pair(s) of cases with different values for {tag1} / {tag2} are neither excluded by their "
                                  f"conditions nor met at a sample corner: `{P1.value!r}` vs `{P2.value!r}`"))

    # ---- (2) the mirror factor follows the convexity of the corner
    _far = {}

    def subst_at(r, V):
        """the operand `r` with the query point moved to the vertex V"""
        key = (repr(r), V)
        if key not in _far:
            _far[key] = A.subst(A.subst(r, names("P")[0], A.atom(names(V)[0])), names("P")[1], A.atom(names(V)[1]))
        return _far[key]
    ncase, verdict, msg = 0, True, ""
    for idx, (tag, pw) in enumerate(runs):
        for Pc in pw.pieces:
            ua = _unit_times_app(ev, Pc.value)
            if ua is None:
                if verdict is True:
                    verdict, msg = None, f"in one case the value `{Pc.value!r}` is not (+-1) * smoothed minimum"
                continue
            k, app = ua
            a0, a1, _w = ev.sym_apps[app][1]
            ops = [A.norm(A.const(k) * a0), A.norm(A.const(k) * a1)]      # the plane distances themselves
            u = unread(*ops)
            if u is not None:
                if verdict is True:
                    verdict, msg = None, f"the plane distances go through `{u}`, which the interpreter cannot read"
                continue
            try:
                far = [q for V in ("S", "E") for q in (subst_at(o, V) for o in ops) if not A.is_zero(q)]
            except (NotPolynomial, ZeroDivisionError):
                far = None
            if not far:
                if verdict is True:
                    verdict, msg = None, "the plane distances of the far end points of the corner could not be formed"
                continue
            ncase += 1
            signs = set()
            for q in far:
                sq = _sign_from_conditions(ev, q, Pc.conds)
                signs |= sq
            # sign(q) = -1 : convex, the smoothed maximum (k = -1) is due;  +1 : re-entrant, the smoothed minimum (k = +1)
            if signs <= {0, k}:
                continue
            # this case admits (as far as its conditions say) a corner of the other convexity: look for one
            wit = None
            for (pt, full, act) in samples():
                if act[idx] is not Pc:
                    continue
                try:
                    vals = [ev.value(q, full) for q in far]
                except (KeyError, ZeroDivisionError, TypeError):
                    continue
                if all((v < 0) if k > 0 else (v > 0) for v in vals):
                    wit = (pt, vals)
                    break
            if wit is not None:
                pt, vals = wit
                shape = "convex" if k > 0 else "re-entrant"
                got, want = ("minimum", "maximum") if k > 0 else ("maximum", "minimum")
                ctx.refuted(rule, sd, None, construct="mirror-factor-follows-convexity",
                            detail=f"for the edges given as {tag} the orientation factor of smooth_distance is {k:+d} (smoothed {got} of the two plane "
                                   f"distances) at the {shape} corner {_fmt_corner(pt)}: the far end points of the edges lie at plane distances "
                                   f"{', '.join(f'{float(v):.4g}' for v in vals)} from the other edge, so the distance to this corner is the smoothed {want}")
                verdict = False
                break
            if verdict is True:
                verdict, msg = None, (f"for the edges given as {tag} a case with orientation factor {k:+d} does not fix the convexity of the corner "
                                      f"by its own conditions, and no sample corner decides it")
        if verdict is False:
            break
    if verdict is True and ncase == 0:
        verdict, msg = None, "no case of smooth_distance has the form (+-1) * smoothed minimum"
    if verdict is not False:
        ctx.decide(rule, verdict, sd, None, construct="mirror-factor-follows-convexity",
                   detail=f"in all {ncase} cases (both edge orders) the conditions of the case fix the sign of the far end points' plane distances, "
                          f"and the smoothed maximum is taken exactly for the convex corner", bad_detail=msg)


# the rule functions are also called from other properties (C16 shares smooth_linear): guard them at the definition
min_base, max_abs, zmax, smooth_linear, friction, users, corner = (_guarded(f) for f in (min_base, max_abs, zmax, smooth_linear, friction, users, corner))


def _replace_def(name, new_text):
    """edit: replace the whole top-level function `name` by `new_text` (which may define helpers as well)"""
    def f(src):
        try:
            tree = ast.parse(src)
        except SyntaxError:
            return None
        node = [st for st in tree.body if isinstance(st, ast.FunctionDef) and st.name == name]
        if len(node) != 1:
            return None
        lines = src.split("\n")
        return "\n".join(lines[:node[0].lineno - 1] + new_text.strip("\n").split("\n") + [""] + lines[node[0].end_lineno:])
    return f


def _chain(*edits):
    def f(src):
        for e in edits:
            src = e(src)
            if src is None:
                return None
        return src
    return f


_P_MIN_BASE = """
def _blend(s, p, w):
    return (p - 0.25*(s - w)**2)/w


def min_base(x, y, eps):
    width = np.maximum(eps, safeTol)
    inside = (x - y < eps) & (y - x < eps)
    lo = np.minimum(x, y)
    xs = np.where(inside, x, 0.0)
    ys = np.where(inside, y, 0.0)
    smooth = _blend(xs + ys, xs*ys, w=width)
    return np.where(~inside, lo, smooth)
"""

_P_MIN_BASE_GUARD = """
def min_base(x, y, eps):
    'smoothed minimum'
    d = y - x
    if d >= eps:
        return x
    if -d >= eps:
        return y
    e = eps if eps > safeTol else safeTol
    total: float = x + y
    total -= e
    return (x*y - total*total/4)/e
"""

_P_MIN_BASE_SQUARED_BAND = """
def min_base(x, y, eps):
    safeEps = np.where(eps > safeTol, eps, safeTol)
    xmy = x-y
    justMin = np.where(x < y, x, y)
    isInsideEps = xmy*xmy < eps*eps
    x = np.where(isInsideEps, x, 0.0)
    y = np.where(isInsideEps, y, 0.0)
    return np.where(isInsideEps, (-0.25*(x+y-safeEps)**2 + x*y)/safeEps, justMin)
"""

_B_MIN_BASE_ABSORB = """
def min_base(x, y, eps):
    safeEps = np.where(eps > safeTol, eps, safeTol)
    xmy = x-y
    justMin = 0.5*(x + y) - 0.5*np.abs(xmy)
    isInsideEps = np.abs(xmy) < eps
    x = np.where(isInsideEps, x, 0.0)
    y = np.where(isInsideEps, y, 0.0)
    return np.where(isInsideEps, (-0.25*(x+y-safeEps)**2 + x*y)/safeEps, justMin)
"""

_P_ZMAX = """
def zmax(x, eps):
    def blend(z):
        return 0.25*(z + eps)*(z + eps)/eps
    return np.where(x <= -eps, 0.0, np.where(x < eps, blend(x), x))
"""

_P_ZMAX_COND = """
def zmax(x, eps):
    from jax import lax
    upper = lax.cond(x >= eps, lambda z: z, lambda z: (z+eps)**2/(4.0*eps), x)
    return lax.cond(x > -eps, lambda: upper, lambda: 0.0)
"""

_P_FRICTION = """
def _stick_energy(s2, r):
    return 0.5*s2/r


def _slip_energy(s2, r):
    return np.sqrt(s2) - r/2


def compute_friction_energy_from_perp_slip(sPerp, frictionParams):
    mu, sReg = frictionParams
    s2 = np.dot(sPerp, sPerp)
    return mu*np.where(s2 > sReg**2, _slip_energy(s2, sReg), _stick_energy(s2, r=sReg))
"""

_P_FRICTION_NORM = """
def compute_friction_energy_from_perp_slip(sPerp, frictionParams):
    slip = np.linalg.norm(sPerp)
    reg = frictionParams[1]
    inner = frictionParams.mu*np.sum(sPerp**2)/(2*reg)
    outer = frictionParams[0]*(slip - 0.5*reg)
    return np.where(slip <= reg, inner, outer)
"""

_B_FRICTION_PRECEDENCE = """
def compute_friction_energy_from_perp_slip(sPerp, frictionParams):
    mu, sReg = frictionParams
    s2 = np.dot(sPerp, sPerp)
    return mu*np.where(s2 > sReg**2, np.sqrt(s2) - 0.5*sReg, s2 / 2*sReg)
"""

_P_SMOOTH_LINEAR = """
def smooth_linear(xi, l):
    lower = xi < l
    upper = xi > 1.0 - l
    cap = lambda z: 0.5*z**2/l
    return jnp.select([lower, upper], [cap(xi), 1.0 - l - cap(1.0 - xi)], xi - 0.5*l)
"""

_B_SMOOTH_LINEAR_CAP = """
def smooth_linear(xi, l):
    lower = xi < l
    upper = xi > 1.0 - l
    cap = lambda z: 0.5*z**2/l
    return jnp.select([lower, upper], [cap(xi), 1.0 - l - cap(xi - 1.0 + l)], xi - 0.5*l)
"""

_SD_HEAD = """
def _orientation(twoEdges):
    a1 = area(twoEdges[0][0], twoEdges[0][1], twoEdges[1][0])
    a2 = area(twoEdges[1][0], twoEdges[1][1], twoEdges[0][0])
    return np.where(a1 + a2 > 0, -1.0, 1.0)


def _signed_normal_distance(edge, p):
    closest, _ = cpp(edge, p)
    return dot(p - closest, Surface.compute_normal(edge))
"""

_P_SMOOTH_DISTANCE = _SD_HEAD + """

def _mirrored_min(s, a, b, w):
    return s*SmoothFunctions.min(s*a, s*b, eps=w)


def smooth_distance(twoEdges, p, smoothingTol):
    s = _orientation(twoEdges)
    pd = (_signed_normal_distance(twoEdges[0], p), _signed_normal_distance(twoEdges[1], p))
    crossN = np.abs(cross(Surface.compute_normal(twoEdges[0]), Surface.compute_normal(twoEdges[1])))
    width = np.where(crossN > 1e-14, smoothingTol*crossN, 0.0)
    return _mirrored_min(s, pd[0], pd[1], width)
"""

_P_SMOOTH_DISTANCE_MINMAX = _SD_HEAD + """

def smooth_distance(twoEdges, p, smoothingTol):
    s = _orientation(twoEdges)
    pd0 = _signed_normal_distance(twoEdges[0], p)
    pd1 = _signed_normal_distance(twoEdges[1], p)
    crossN = np.abs(cross(Surface.compute_normal(twoEdges[0]), Surface.compute_normal(twoEdges[1])))
    width = np.where(crossN > 1e-14, smoothingTol*crossN, 0.0)
    return np.where(s > 0, SmoothFunctions.min(pd0, pd1, width), SmoothFunctions.max(pd0, pd1, width))
"""

_B_SMOOTH_DISTANCE_HELPER = _SD_HEAD + """

def _mirrored_min(s, a, b, w):
    return s*SmoothFunctions.min(s*a, s*b, eps=s*w)


def smooth_distance(twoEdges, p, smoothingTol):
    s = _orientation(twoEdges)
    pd0 = _signed_normal_distance(twoEdges[0], p)
    pd1 = _signed_normal_distance(twoEdges[1], p)
    crossN = np.abs(cross(Surface.compute_normal(twoEdges[0]), Surface.compute_normal(twoEdges[1])))
    width = np.where(crossN > 1e-14, smoothingTol*crossN, 0.0)
    return _mirrored_min(s, pd0, pd1, width)
"""

_B_SMOOTH_DISTANCE_MINMAX = _SD_HEAD + """

def smooth_distance(twoEdges, p, smoothingTol):
    s = _orientation(twoEdges)
    pd0 = _signed_normal_distance(twoEdges[0], p)
    pd1 = _signed_normal_distance(twoEdges[1], p)
    crossN = np.abs(cross(Surface.compute_normal(twoEdges[0]), Surface.compute_normal(twoEdges[1])))
    width = np.where(crossN > 1e-14, smoothingTol*crossN, 0.0)
    return np.where(s > 0, SmoothFunctions.min(pd0, pd1, width), SmoothFunctions.max(pd0, -pd1, width))
"""

_P_MIN_SWAPPED_ROLES = """
def min(x, y, eps):
    safeEps = np.where(eps > safeTol, eps, safeTol)
    isInsideEps = np.sqrt((x-y)*(x-y)) < eps
    xi = np.where(isInsideEps, x, 0.0)
    yi = np.where(isInsideEps, y, 0.0)
    return np.where(isInsideEps, 0.5*(xi + yi) - ((xi - yi)**2 + safeEps**2)/(4*safeEps), np.minimum(x, y))
"""

_P_FRICTION_METHODS = """
def compute_friction_energy_from_perp_slip(sPerp, frictionParams):
    sReg = frictionParams.sReg
    sPerpSquared = sPerp.dot(sPerp)
    fEnergy = lax.select(np.einsum('i,i', sPerp, sPerp) <= sReg*sReg,
                         sPerpSquared / (2*sReg),
                         sPerpSquared**0.5 - 0.5*sReg)
    return frictionParams.mu * fEnergy
"""


def _swap_min_roles(src):
    src = _replace_def("min", "def min_base_NEW(x, y, eps):\n    return min(x, y, eps)\n")(src)
    src = None if src is None else _replace_def("min_base", _P_MIN_SWAPPED_ROLES)(src)
    return None if src is None else src.replace("min_base_NEW", "min_base")

_SD_INLINE = """
def smooth_distance(twoEdges, p, smoothingTol):
    e0, e1 = twoEdges[0], twoEdges[1]
    orientation = -np.sign(area(e0[0], e0[1], e1[0]) + area(e1[0], e1[1], e0[0]))
    orientation = np.where(orientation == 0, 1.0, orientation)
    v0 = e0[1] - e0[0]
    t0 = np.clip(-dot(v0, e0[0]-p) / norm_squared(v0), 0.0, 1.0)
    v1 = e1[1] - e1[0]
    t1 = np.clip(-dot(v1, e1[0]-p) / norm_squared(v1), 0.0, 1.0)
    n0 = Surface.compute_normal(e0)
    n1 = Surface.compute_normal(e1)
    pd0 = dot(p - ((1.0-t0)*e0[0] + t0*e0[1]), n0)
    pd1 = dot(p - ((1.0-t1)*e1[0] + t1*e1[1]), n1)
    crossN = np.abs(cross(n0, n1))
    tol = np.where(crossN > 1e-14, crossN*smoothingTol, 0.0)
    return orientation*SmoothFunctions.min(orientation*pd0, ARG1, tol)
"""

_P_LAMBDA_WRAPPERS = """
min = lambda x, y, eps: min_base(x, y, eps)
max = lambda x, y, eps: -min_base(-x, -y, eps)
"""

_P_SMOOTH_LINEAR_PIECEWISE = """
def smooth_linear(xi, l):
    return jnp.piecewise(xi, [xi < l, xi > 1.0 - l],
                         [lambda z: 0.5*z*z/l, lambda z: 1.0 - l - 0.5*(1.0 - z)**2/l, lambda z: z - 0.5*l])
"""


def _lambda_wrappers(src):
    src = _replace_def("min", "")(src)
    return None if src is None else _replace_def("max", _P_LAMBDA_WRAPPERS)(src)


def variants(repo):
    from optilint.selftest import Variant, sub, sub_in_func, alpha_rename, reformat
    S = "optimism/SmoothFunctions.py"
    F = "optimism/contact/Friction.py"
    M = "optimism/contact/MortarContact.py"
    E = "optimism/contact/EdgeCpp.py"
    RET = "    return sign*SmoothFunctions.min(sign*pd0, sign*pd1, tol)"
    FRI = "compute_friction_energy_from_perp_slip"
    A1 = "    a1 = area(twoEdges[0][0], twoEdges[0][1], twoEdges[1][0])"
    A2 = "    a2 = area(twoEdges[1][0], twoEdges[1][1], twoEdges[0][0])"
    return [
        Variant("blend coefficient", S, sub("(-0.25*(x+y-safeEps)**2 + x*y)/safeEps", "(-0.5*(x+y-safeEps)**2 + x*y)/safeEps"), "T7-min_base"),
        Variant("blend sign of eps", S, sub("(-0.25*(x+y-safeEps)**2 + x*y)/safeEps", "(-0.25*(x+y+safeEps)**2 + x*y)/safeEps"), "T7-min_base"),
        Variant("band twice as wide", S, sub("isInsideEps = np.abs(xmy) < eps", "isInsideEps = np.abs(xmy) < 2*eps"), "T7-min_base"),
        Variant("plain min picks max", S, sub("justMin = np.where(x < y, x, y)", "justMin = np.where(x < y, y, x)"), "T7-min_base"),
        Variant("asymmetric blend", S, sub("(-0.25*(x+y-safeEps)**2 + x*y)/safeEps", "(-0.25*(x+y-safeEps)**2 + x*x)/safeEps"), "T7-min_base"),
        Variant("hard min recomputed by cancelling arithmetic", S, _replace_def("min_base", _B_MIN_BASE_ABSORB), "T7-min_base"),
        Variant("max not mirrored", S, sub("    return -min_base(-x, -y, eps)", "    return -min_base(-x, y, eps)"), "T5-mirrored-wrappers"),
        Variant("abs wrong", S, sub("    return -min_base(-x, x, eps)", "    return min_base(-x, x, eps)"), "T5-mirrored-wrappers"),
        Variant("max by x + y - min (absorbs the smaller argument)", S, sub("    return -min_base(-x, -y, eps)", "    return x + y - min_base(x, y, eps)"), "T5-mirrored-wrappers"),
        Variant("max with negated width", S, sub("    return -min_base(-x, -y, eps)", "    return -min_base(-x, -y, eps=-eps)"), "T5-mirrored-wrappers"),
        Variant("abs with half the band", S, sub("    return -min_base(-x, x, eps)", "    return max(x, -x, 0.5*eps)"), "T5-mirrored-wrappers"),
        Variant("abs by sqrt regularisation", S, sub("    return -min_base(-x, x, eps)", "    return np.sqrt(x*x + eps*eps)"), "T5-mirrored-wrappers"),
        Variant("zmax blend", S, sub("(x+eps)**2/(4.0*eps)", "(x+eps)**2/(2.0*eps)"), "T7-zmax"),
        Variant("zmax switch", S, sub("if_then_else(x <= -eps, 0.0, tmp)", "if_then_else(x <= 0, 0.0, tmp)"), "T7-zmax"),
        Variant("friction offset", F, sub("Math.safe_sqrt(sPerpSquared) - 0.5*sReg", "Math.safe_sqrt(sPerpSquared) - sReg"), "T7-friction"),
        Variant("friction inner arm", F, sub("sPerpSquared / (2*sReg)", "sPerpSquared / sReg"), "T7-friction"),
        Variant("friction switch", F, sub("sPerpSquared <= sReg*sReg", "sPerpSquared <= sReg"), "T7-friction"),
        Variant("friction precedence slip in a refactored body", F, _replace_def(FRI, _B_FRICTION_PRECEDENCE), "T7-friction"),
        Variant("smooth_linear end cap", M, sub("1.0-l-0.5*(1.0-xi)*(1.0-xi)/l", "1.0-0.5*(1.0-xi)*(1.0-xi)/l"), "T7-smooth_linear"),
        Variant("smooth_linear middle", M, sub("xi-0.5*l)", "xi-l)"), "T7-smooth_linear"),
        Variant("smooth_linear switch", M, sub("jnp.where(xi > 1.0-l,", "jnp.where(xi > 1.0-2*l,"), "T7-smooth_linear"),
        Variant("smooth_linear wrong cap argument in a refactored body", M, _replace_def("smooth_linear", _B_SMOOTH_LINEAR_CAP), "T7-smooth_linear"),
        Variant("smoothing width carries the mirror sign", E, sub(RET, "    return sign*SmoothFunctions.min(sign*pd0, sign*pd1, sign*tol)"), "T5-users"),
        Variant("mirror sign on one argument only", E, sub(RET, "    return sign*SmoothFunctions.min(sign*pd0, pd1, tol)"), "T5-users"),
        Variant("negative smoothing width", E, sub(RET, "    return sign*SmoothFunctions.min(sign*pd0, sign*pd1, -tol)"), "T5-users"),
        Variant("hard min instead of the smoothed one", E, sub(RET, "    return sign*np.minimum(sign*pd0, sign*pd1)"), "T5-users"),
        Variant("mirror sign in the width, inside an extracted helper", E, _replace_def("smooth_distance", _B_SMOOTH_DISTANCE_HELPER), "T5-users"),
        Variant("min/max selection with a different pair", E, _replace_def("smooth_distance", _B_SMOOTH_DISTANCE_MINMAX), "T5-users"),
        # ---- preserving
        Variant("reformat SmoothFunctions", S, reformat(), None),
        Variant("reformat Friction", F, reformat(), None),
        Variant("alpha-rename min_base", S, alpha_rename("min_base"), None),
        Variant("equivalent blend form", S, sub("(-0.25*(x+y-safeEps)**2 + x*y)/safeEps", "(x*y - (x+y-safeEps)*(x+y-safeEps)/4)/safeEps"), None),
        Variant("equivalent friction form", F, sub("sPerpSquared / (2*sReg)", "0.5*sPerpSquared/sReg"), None),
        Variant("min_base: helper with keyword, minimum/maximum, two-sided band test, negated select", S, _replace_def("min_base", _P_MIN_BASE), None),
        Variant("min_base: guard clauses, IfExp, annotated and augmented assignment", S, _replace_def("min_base", _P_MIN_BASE_GUARD), None),
        Variant("min_base: band test on squares", S, _replace_def("min_base", _P_MIN_BASE_SQUARED_BAND), None),
        Variant("max through min, abs through max with swapped arguments", S,
                _chain(sub("    return -min_base(-x, -y, eps)", "    return -min(-x, -y, eps)"),
                       sub("    return -min_base(-x, x, eps)", "    return max(-x, x, eps=eps)")), None),
        Variant("zmax: nested where, closure helper, strict upper test", S, _replace_def("zmax", _P_ZMAX), None),
        Variant("zmax: lax.cond with operands and thunks", S, _replace_def("zmax", _P_ZMAX_COND), None),
        Variant("friction: unpacked record, dot, helpers, swapped select", F, _replace_def(FRI, _P_FRICTION), None),
        Variant("friction: norm / sum of squares / indexed record", F, _replace_def(FRI, _P_FRICTION_NORM), None),
        Variant("smooth_linear: select with lambda cap", M, _replace_def("smooth_linear", _P_SMOOTH_LINEAR), None),
        Variant("smooth_distance: orientation / distance / mirrored-min helpers", E, _replace_def("smooth_distance", _P_SMOOTH_DISTANCE), None),
        Variant("smooth_distance: min for one orientation, max for the other", E, _replace_def("smooth_distance", _P_SMOOTH_DISTANCE_MINMAX), None),
        Variant("smooth_distance: keyword width and commuted factors", E, sub(RET, "    return SmoothFunctions.min(pd0*sign, eps=tol, y=pd1*sign)*sign"), None),
        Variant("zmax as the smoothed maximum with zero", S, _replace_def("zmax", "def zmax(x, eps):\n    return max(x, 0.0, eps)\n"), None),
        Variant("zmax as the smoothed maximum with zero, wrong width", S, _replace_def("zmax", "def zmax(x, eps):\n    return max(x, 0.0, 2*eps)\n"), "T7-zmax"),
        Variant("numpy alias renamed", S, lambda src: src.replace("import jax.numpy as np", "import jax.numpy as jnp").replace("np.", "jnp.") if "import jax.numpy as np" in src else None, None),
        Variant("min carries the body (sqrt-of-square band test, centred blend), min_base delegates", S, _swap_min_roles, None),
        Variant("friction: array methods, einsum, lax.select, fractional power", F, _replace_def(FRI, _P_FRICTION_METHODS), None),
        Variant("smooth_distance: smoothed min imported under an alias", E,
                _chain(sub("from optimism import SmoothFunctions", "from optimism.SmoothFunctions import min as smooth_min"), sub(RET, "    return sign*smooth_min(sign*pd0, sign*pd1, tol)")), None),
        Variant("smooth_distance: width as tolerance times a selected factor", E,
                sub("    tol = np.where(crossN > 1e-14, crossN*smoothingTol, 0.0)", "    tol = smoothingTol*np.where(crossN > 1e-14, crossN, 0.0)"), None),
        Variant("smooth_distance: sign fix through abs", E, sub("    sign = np.where(sign==0, 1.0, sign)", "    sign = np.where(np.abs(sign) > 0, sign, 1.0)"), None),
        Variant("smooth_distance: clamped closest points inlined (piecewise distances)", E,
                _replace_def("smooth_distance", _SD_INLINE.replace("ARG1", "orientation*pd1")), None),
        Variant("smooth_distance: clamped closest points inlined, mirror sign on one argument only", E,
                _replace_def("smooth_distance", _SD_INLINE.replace("ARG1", "pd1")), "T5-users"),
        Variant("min / max bound to lambdas", S, _lambda_wrappers, None),
        Variant("smooth_linear: jnp.piecewise with lambdas", M, _replace_def("smooth_linear", _P_SMOOTH_LINEAR_PIECEWISE), None),
        Variant("friction: transposed self product", F, sub("sPerpSquared = sPerp@sPerp", "sPerpSquared = sPerp.T @ sPerp"), None),
        Variant("min_base: selection by mask arithmetic", S,
                sub("    return np.where(isInsideEps, (-0.25*(x+y-safeEps)**2 + x*y)/safeEps, justMin)",
                    "    blend = (-0.25*(x+y-safeEps)**2 + x*y)/safeEps\n    return isInsideEps*blend + (1 - isInsideEps)*justMin"), None),
        Variant("smooth_distance: orientation factor from a mask", E,
                _chain(sub("    sign = -np.sign(a1+a2)\n", "    sign = 1.0 - 2.0*(a1+a2 > 0)\n"), sub("    sign = np.where(sign==0, 1.0, sign)\n", "")), None),
        # ---- the corner behind smooth_distance: order of the two edges, convexity
        Variant("orientation area: wrong vertex of the second edge (matters for the reversed edge order only)", E,
                sub(A1, "    a1 = area(twoEdges[0][0], twoEdges[0][1], twoEdges[1][1])"), "T5-users"),
        Variant("orientation area: wrong vertex of the first edge (matters for the chain order only)", E,
                sub(A2, "    a2 = area(twoEdges[1][0], twoEdges[1][1], twoEdges[0][1])"), "T5-users"),
        Variant("orientation factor with the opposite sign (minimum at convex corners)", E, sub("    sign = -np.sign(a1+a2)\n", "    sign = np.sign(a1+a2)\n"), "T5-users"),
        Variant("orientation from the cross product of the edge tangents (antisymmetric in the two edges)", E,
                _chain(sub(A1, "    a1 = 0.5*cross(twoEdges[0][1]-twoEdges[0][0], twoEdges[1][1]-twoEdges[1][0])"), sub(A2, "    a2 = 0.0")), "T5-users"),
        Variant("orientation area: wrong vertex, in a body with inlined closest points", E,
                _replace_def("smooth_distance", _SD_INLINE.replace("ARG1", "orientation*pd1").replace("area(e0[0], e0[1], e1[0])", "area(e0[0], e0[1], e1[1])")), "T5-users"),
        Variant("smooth_distance: orientation by the shoelace area of the four end points", E,
                _chain(sub(A1, "    a1 = 0.5*(cross(twoEdges[0][0], twoEdges[0][1]) + cross(twoEdges[0][1], twoEdges[1][0]))"),
                       sub(A2, "    a2 = 0.5*(cross(twoEdges[1][0], twoEdges[1][1]) + cross(twoEdges[1][1], twoEdges[0][0]))")), None),
        Variant("smooth_distance: triangle areas by cross products of difference vectors", E,
                _chain(sub(A1, "    a1 = 0.5*cross(twoEdges[0][1]-twoEdges[0][0], twoEdges[1][0]-twoEdges[0][0])"),
                       sub(A2, "    a2 = cross(twoEdges[1][1]-twoEdges[1][0], twoEdges[0][0]-twoEdges[1][0])/2")), None),
    ]
