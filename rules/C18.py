"""C18 -- smoothed min/max/abs, friction regularisation, smoothed ramp and segment parameter.

Level: proof (identities over the reals).  Every function is lowered from its source to a piecewise
rational function (pieces = conjunctions of comparisons, values = exact rational functions).  For the
arrangement of switching surfaces every cell (breakpoints, open intervals between them, both ends) is
visited at representative rational points -- a finite, exhaustive set of orderings -- and in each cell the
*symbolic* value of the active piece must satisfy the specification identity:

  min_base   outside |x-y| >= eps : value == plain minimum;
             inside               : minimum - value == (|x-y| - eps)^2 / (4 eps)   (so value <= min, gap <= eps/4);
             symmetric in (x, y); C0 and C1 across every switching surface;
  max, abs   are -min_base(-x,-y,eps) and -min_base(-x,x,eps);
  friction   inner arm t^2/(2 sReg), outer arm t - sReg/2 in t = |s|; C0/C1 at t = sReg; non-negativity,
             convexity and the Coulomb upper bound by certificate identities;
  zmax, smooth_linear   C0/C1 across their switches and the stated outer arms.
Rounding is not modelled; assumes eps > safeTol, sReg > 0, 0 < l < 1/2.
"""
from __future__ import annotations

import ast
import copy
from fractions import Fraction

from optilint.model import dotted
from optilint.core import Incomplete
from optilint.expr import Algebra, NotPolynomial, Rat, Poly
from optilint.piecewise import PiecewiseEval, PW, solve_linear, solve_square, breakpoints, cell_samples
from .common import src, same, canon

LEVEL = "proof"
RULE_TEXT = ("obligations = (function x cell of its switching arrangement x specification identity) + "
             "(adjacent cells x C0/C1 identity on the shared surface) + certificate identities; every obligation is an "
             "equality of exact rational normal forms")
EXPLANATION = ("Static extraction of piecewise rational functions from SmoothFunctions.py, contact/Friction.py, "
               "contact/MortarContact.py and proof of their specification by normal-form identities in every cell of the "
               "switching arrangement (exhaustive finite set of orderings). Real arithmetic; rounding not modelled.")

SF = "optimism.SmoothFunctions"
FR = "optimism.contact.Friction"
MC = "optimism.contact.MortarContact"


def run(ctx):
    for m in (SF, FR, MC):
        ctx.need_module(m)
    ctx.guard(min_base, ctx)
    ctx.guard(max_abs, ctx)
    ctx.guard(zmax, ctx)
    ctx.guard(smooth_linear, ctx)
    ctx.guard(friction, ctx)
    ctx.guard(users, ctx)
    ctx.trust("exact rational arithmetic (fractions.Fraction); normal forms of multivariate rational functions; d sqrt(E) = dE/(2 sqrt E)")
    ctx.assume("eps > safeTol (= 1e-14), sReg > 0, 0 < l < 1/2, real arithmetic (no rounding)")


def _pts(names, values):
    out = []
    for combo in values:
        out.append(dict(zip(names, combo)))
    return out


def _subst_many(A, r: Rat, mapping):
    # simultaneous substitution through temporaries
    tmp = {k: f"__tmp_{i}" for i, k in enumerate(mapping)}
    for k, t in tmp.items():
        r = A.subst(r, k, A.atom(t))
    for k, t in tmp.items():
        r = A.subst(r, t, mapping[k])
    return r


def _glue(ctx, rule, sc, pe, pw, var, others_points, deriv_vars, nonneg=False, label=""):
    """C0/C1 across every switching surface reachable by moving `var`."""
    A = pe.A
    allb = breakpoints(pe, pw, var, nonneg)
    bps = [(a, v) for (a, v) in allb if v is not None]
    n = 0
    seen = set()
    # surfaces that cannot be solved symbolically: locate them numerically and look for a jump (witness search);
    # a jump found in the extracted formula refutes continuity, no jump leaves the obligation undecided
    for (a, v) in allb:
        if v is not None:
            continue
        for pt in others_points:
            f = lambda x, pt=pt: A.eval(a.diff, dict(pt, **{var: x}))
            lo_, hi_ = (0.0 if nonneg else -50.0), 50.0
            try:
                flo, fhi = f(lo_), f(hi_)
            except Exception:
                continue
            if flo * fhi > 0:
                continue
            for _ in range(200):
                mid = 0.5 * (lo_ + hi_)
                fm = f(mid)
                if flo * fm <= 0:
                    hi_, fhi = mid, fm
                else:
                    lo_, flo = mid, fm
            root = 0.5 * (lo_ + hi_)
            d = 1e-6 * max(1.0, abs(root))
            pl = pe.active(pw, dict(pt, **{var: root - d}))
            ph = pe.active(pw, dict(pt, **{var: root + d}))
            if len(pl) == 1 and len(ph) == 1 and pl[0] is not ph[0]:
                v0 = A.eval(pl[0].value, dict(pt, **{var: root}))
                v1 = A.eval(ph[0].value, dict(pt, **{var: root}))
                if abs(v0 - v1) > 1e-6 * max(1.0, abs(v0)):
                    ctx.refuted(rule, sc, None, construct=f"{label}C0 at surface {a.key}",
                                detail=f"value jumps across the switching surface `{a.key}`: at {var}={root:.6g} ({pt}) the arms give {v0:.6g} and {v1:.6g}")
                    n += 1
                    break
        else:
            ctx.undecided(rule, sc, None, construct=f"{label}surface:{a.key}", detail="switching surface not solvable symbolically and no jump found numerically")
    for (a, vstar) in bps:
        for pt in others_points:
            try:
                vs = A.eval(vstar, pt)
            except KeyError:
                continue
            if nonneg and vs < 0:
                continue
            lo, hi = dict(pt), dict(pt)
            d = 1e-7 * max(1.0, abs(vs))
            lo[var], hi[var] = vs - d, vs + d
            if nonneg and lo[var] < 0:
                continue
            pl, ph = pe.active(pw, lo), pe.active(pw, hi)
            if len(pl) != 1 or len(ph) != 1:
                ctx.undecided(rule, sc, None, construct=f"{label}glue:{a.key}", detail=f"{len(pl)}/{len(ph)} active pieces next to the surface")
                continue
            P, Q = pl[0], ph[0]
            key = (a.key, repr(P.value), repr(Q.value))
            if key in seen:
                continue
            seen.add(key)
            if A.equal(P.value, Q.value):
                ctx.proved(rule, sc, None, construct=f"{label}surface {var}={vstar!r}: same arm both sides", detail="no switch of value here")
                n += 1
                continue
            v0, v1 = A.subst(P.value, var, vstar), A.subst(Q.value, var, vstar)
            ok = A.equal(v0, v1)
            ctx.decide(rule, ok, sc, None, construct=f"{label}C0 at {var}={vstar!r}",
                       detail=f"both arms equal {v0!r}",
                       bad_detail=f"value jumps across {var} = {vstar!r}: {v0!r} on one side, {v1!r} on the other")
            n += 1
            for dv in deriv_vars:
                g0 = A.subst(A.diff(P.value, dv), var, vstar)
                g1 = A.subst(A.diff(Q.value, dv), var, vstar)
                ok = A.equal(g0, g1)
                ctx.decide(rule, ok, sc, None, construct=f"{label}C1 d/d{dv} at {var}={vstar!r}",
                           detail=f"both one-sided derivatives equal {g0!r}",
                           bad_detail=f"d/d{dv} jumps across {var} = {vstar!r}: {g0!r} vs {g1!r}")
                n += 1
    return n


# ------------------------------------------------------------------ min_base

def _min_pw(ctx):
    sc = ctx.need(f"{SF}:min_base")
    xn, yn, en = sc.params()
    A = Algebra()
    pe = PiecewiseEval(A)
    pe.assume(f"{en} > safeTol")
    try:
        pw = pe.run_function(sc.node)
    except NotPolynomial as ex:
        raise Incomplete(f"min_base cannot be lowered to a piecewise rational function: {ex}")
    return sc, pe, pw, (xn, yn, en)


def min_base(ctx):
    rule = "T7-min_base"
    sc, pe, pw, (xn, yn, en) = _min_pw(ctx)
    A = pe.A
    X, Y, E = A.atom(xn), A.atom(yn), A.atom(en)
    others = [{yn: Fraction(0), en: Fraction(1, 2)}, {yn: Fraction(1, 3), en: Fraction(2)}, {yn: Fraction(-2), en: Fraction(3, 7)}]
    ncell = 0
    for pt in others:
        vals, unsolved = cell_samples(pe, pw, xn, {k: float(v) for k, v in pt.items()})
        for a in unsolved:
            ctx.undecided(rule, sc, None, construct=f"surface:{a.key}", detail="switching surface not solvable for x")
        for xv in vals:
            p = dict(pt)
            p[xn] = Fraction(xv)
            act = pe.active(pw, p)
            if len(act) != 1:
                ctx.refuted(rule, sc, None, construct=f"cell x-y={xv - pt[yn]} eps={pt[en]}",
                            detail=f"{len(act)} pieces are active at x={xv}, y={pt[yn]}, eps={pt[en]}: the function is not well defined there")
                continue
            P = act[0]
            d = xv - pt[yn]
            eps = pt[en]
            m = X if d < 0 else Y
            absd = (Y - X) if d < 0 else (X - Y)
            ncell += 1
            where = f"d/eps={Fraction(d) / eps}"
            onsurf = None
            if abs(d) == eps or d == 0:
                onsurf = A.norm(Y + A.const(Fraction(d) / eps) * E)      # x = y + k*eps on a switching surface
            def at(r):
                return A.subst(r, xn, onsurf) if onsurf is not None else r
            if abs(d) >= eps:
                ok = A.equal(at(P.value), at(m))
                ctx.decide(rule, ok, sc, None, construct=f"outside-band [{where}] value == min",
                           detail=f"value {P.value!r}", bad_detail=f"outside the smoothing band (|x-y| >= eps, {where}) the value is {P.value!r}, not the plain minimum {m!r}")
            else:
                gap = at(A.norm(m - P.value))
                want = at(A.norm((absd - E) * (absd - E) / (A.const(4) * E)))
                ok = A.equal(gap, want)
                ctx.decide(rule, ok, sc, None, construct=f"inside-band [{where}] min - value == (|d|-eps)^2/(4 eps)",
                           detail="certificate identity holds: 0 <= min - smooth <= eps/4",
                           bad_detail=f"inside the band ({where}) min - smooth = {gap!r}, which is not (|x-y|-eps)^2/(4 eps) = {want!r}: "
                                      f"the one-sided bound / eps/4 tightness certificate fails")
            # symmetry: value at (y, x)
            ps = dict(p)
            ps[xn], ps[yn] = p[yn], p[xn]
            acts = pe.active(pw, ps)
            if len(acts) == 1:
                sw = _subst_many(A, acts[0].value, {xn: Y, yn: X})
                v_here = at(P.value)
                sw = at(sw)
                ok = A.equal(v_here, sw)
                ctx.decide(rule, ok, sc, None, construct=f"symmetric [{where}]",
                           detail="f(x,y) == f(y,x)", bad_detail=f"not symmetric at {where}: f(x,y) = {v_here!r} but f(y,x) = {sw!r}")
    if ncell < 15:
        ctx.undecided(rule, sc, None, construct="cells", detail=f"only {ncell} cells visited")
    n = _glue(ctx, rule, sc, pe, pw, xn, [{k: float(v) for k, v in pt.items()} for pt in others], (xn, yn))
    if n < 4:
        ctx.undecided(rule, sc, None, construct="glue", detail=f"{n} surface obligations")


def max_abs(ctx):
    rule = "T5-mirrored-wrappers"
    for name, want in (("min", "min_base(x, y, eps)"), ("max", "-min_base(-x, -y, eps)"), ("abs", "-min_base(-x, x, eps)")):
        sc = ctx.need(f"{SF}:{name}")
        r = sc.returns()
        ok = len(r) == 1 and same(r[0], want)
        ctx.decide(rule, ok, sc, r[0] if r else None, construct=name, detail=f"{name} = {want}",
                   bad_detail=f"SmoothFunctions.{name} returns `{src(r[0]) if r else '?'}`, expected `{want}` (mirror of the smoothed minimum)")


# ------------------------------------------------------------------ zmax / smooth_linear

def zmax(ctx):
    rule = "T7-zmax"
    sc = ctx.need(f"{SF}:zmax")
    xn, en = sc.params()
    A = Algebra()
    pe = PiecewiseEval(A)
    try:
        pw = pe.run_function(sc.node)
    except NotPolynomial as ex:
        raise Incomplete(f"zmax: {ex}")
    X, E = A.atom(xn), A.atom(en)
    pts = [{en: 0.5}, {en: 2.0}]
    for pt in pts:
        vals, _ = cell_samples(pe, pw, xn, pt)
        for xv in vals:
            p = dict(pt)
            p[xn] = float(xv)
            act = pe.active(pw, p)
            if len(act) != 1:
                ctx.refuted(rule, sc, None, construct=f"cell x/eps={float(xv) / pt[en]}", detail=f"{len(act)} active pieces")
                continue
            v = act[0].value
            r = float(xv) / pt[en]
            if r >= 1:
                ctx.decide(rule, A.equal(v, X), sc, None, construct=f"[x/eps={r:g}] value == x", detail="identity above the band",
                           bad_detail=f"for x >= eps the smoothed ramp is {v!r}, not x")
            elif r <= -1:
                ctx.decide(rule, A.is_zero(v), sc, None, construct=f"[x/eps={r:g}] value == 0", detail="zero below the band",
                           bad_detail=f"for x <= -eps the smoothed ramp is {v!r}, not 0")
            else:
                want = A.norm((X + E) * (X + E) / (A.const(4) * E))
                ctx.decide(rule, A.equal(v, want), sc, None, construct=f"[x/eps={r:g}] value == (x+eps)^2/(4 eps)",
                           detail="quadratic blend", bad_detail=f"inside the band the ramp is {v!r}, not (x+eps)^2/(4 eps)")
    _glue(ctx, rule, sc, pe, pw, xn, pts, (xn,))


def smooth_linear(ctx):
    rule = "T7-smooth_linear"
    sc = ctx.need(f"{MC}:smooth_linear")
    xn, ln = sc.params()
    A = Algebra()
    pe = PiecewiseEval(A)
    try:
        pw = pe.run_function(sc.node)
    except NotPolynomial as ex:
        raise Incomplete(f"smooth_linear: {ex}")
    X, L = A.atom(xn), A.atom(ln)
    pts = [{ln: 0.25}, {ln: 0.1}, {ln: 0.4}]
    for pt in pts:
        vals, _ = cell_samples(pe, pw, xn, pt)
        for xv in vals:
            p = dict(pt)
            p[xn] = float(xv)
            act = pe.active(pw, p)
            if len(act) != 1:
                ctx.refuted(rule, sc, None, construct=f"cell xi={float(xv):g}", detail=f"{len(act)} active pieces")
                continue
            v = act[0].value
            x, l = float(xv), pt[ln]
            if x < l:
                want, nm = A.norm(X * X / (A.const(2) * L)), "xi^2/(2 l)"
            elif x > 1 - l:
                want, nm = A.norm(A.const(1) - L - (A.const(1) - X) * (A.const(1) - X) / (A.const(2) * L)), "1 - l - (1-xi)^2/(2 l)"
            else:
                want, nm = A.norm(X - L / A.const(2)), "xi - l/2"
            ctx.decide(rule, A.equal(v, want), sc, None, construct=f"[xi={x:g}, l={l:g}] value == {nm}", detail="arm as specified",
                       bad_detail=f"smooth_linear at xi={x:g}, l={l:g} evaluates the arm {v!r}, expected {nm}")
    n = _glue(ctx, rule, sc, pe, pw, xn, pts, (xn,))
    if n < 4:
        ctx.undecided(rule, sc, None, construct="glue", detail=f"{n} surface obligations")


# ------------------------------------------------------------------ friction

class _SelfDot(ast.NodeTransformer):
    def __init__(self, vec, scalar):
        self.vec, self.scalar = vec, scalar

    def visit_BinOp(self, n):
        self.generic_visit(n)
        if isinstance(n.op, ast.MatMult) and isinstance(n.left, ast.Name) and isinstance(n.right, ast.Name) \
                and n.left.id == self.vec and n.right.id == self.vec:
            return ast.BinOp(left=ast.Name(id=self.scalar, ctx=ast.Load()), op=ast.Mult(), right=ast.Name(id=self.scalar, ctx=ast.Load()))
        return n


def friction(ctx):
    rule = "T7-friction"
    sc = ctx.need(f"{FR}:compute_friction_energy_from_perp_slip")
    sp, fp = sc.params()
    fn = _SelfDot(sp, "t").visit(copy.deepcopy(sc.node))
    ast.fix_missing_locations(fn)
    A = Algebra()
    pe = PiecewiseEval(A)
    try:
        pw = pe.run_function(fn)
    except NotPolynomial as ex:
        raise Incomplete(f"friction potential: {ex}")
    ctx.assume("t = |sPerp| >= 0 (sPerp@sPerp is replaced by t*t; sqrt(t^2) = t)")
    T = A.atom("t")
    S = A.atom(f"{fp}.sReg")
    MU = A.atom(f"{fp}.mu")
    sreg_key = f"{fp}.sReg"
    pts = [{sreg_key: 0.5, f"{fp}.mu": 0.3}, {sreg_key: 2.0, f"{fp}.mu": 1.5}]
    ncell = 0
    for pt in pts:
        vals, unsolved = cell_samples(pe, pw, "t", pt, nonneg=True)
        for tv in vals:
            p = dict(pt)
            p["t"] = float(tv)
            act = pe.active(pw, p)
            if len(act) != 1:
                ctx.refuted(rule, sc, None, construct=f"cell t/sReg={float(tv) / pt[sreg_key]:g}", detail=f"{len(act)} active pieces")
                continue
            ncell += 1
            v = act[0].value
            r = float(tv) / pt[sreg_key]
            if r <= 1:
                want = A.norm(MU * T * T / (A.const(2) * S))
                ok = A.equal(v, want)
                ctx.decide(rule, ok, sc, None, construct=f"[t/sReg={r:g}] inner arm == mu t^2/(2 sReg)",
                           detail="quadratic potential inside the regularisation radius",
                           bad_detail=f"inside the switch radius the potential is {v!r}, not mu*t^2/(2 sReg)")
                if ok:
                    # certificates: >= 0 (square over positive), convex (second derivative mu/sReg), <= mu t:
                    d2 = A.diff(A.diff(v, "t"), "t")
                    ctx.decide(rule, A.equal(d2, A.norm(MU / S)), sc, None, construct=f"[t/sReg={r:g}] inner arm convex",
                               detail="second derivative mu/sReg > 0", bad_detail=f"second derivative is {d2!r}")
                    gap = A.norm(MU * T - v)
                    cert = A.norm(MU * T * (A.const(2) * S - T) / (A.const(2) * S))
                    ctx.decide(rule, A.equal(gap, cert), sc, None, construct=f"[t/sReg={r:g}] inner arm <= Coulomb value",
                               detail="mu t - value == mu t (2 sReg - t)/(2 sReg) >= 0 for 0 <= t <= sReg",
                               bad_detail=f"mu t - value = {gap!r}: Coulomb upper-bound certificate fails")
            else:
                want = A.norm(MU * (T - S / A.const(2)))
                ok = A.equal(v, want)
                ctx.decide(rule, ok, sc, None, construct=f"[t/sReg={r:g}] outer arm == mu (t - sReg/2)",
                           detail="Coulomb value minus half the regularisation length",
                           bad_detail=f"outside the switch radius the potential is {v!r}, not mu*(t - sReg/2)")
                if ok:
                    d2 = A.diff(A.diff(v, "t"), "t")
                    ctx.decide(rule, A.is_zero(d2), sc, None, construct=f"[t/sReg={r:g}] outer arm linear", detail="second derivative 0",
                               bad_detail=f"second derivative is {d2!r}")
    if ncell < 6:
        ctx.undecided(rule, sc, None, construct="cells", detail=f"{ncell} cells visited")
    n = _glue(ctx, rule, sc, pe, pw, "t", pts, ("t",), nonneg=True)
    if n < 2:
        ctx.undecided(rule, sc, None, construct="glue", detail=f"{n} surface obligations at t = sReg")
    # slope at the junction is mu (so the derivative is non-decreasing: mu t/sReg <= mu on the inner arm)
    for p_ in pw.pieces:
        pass


def users(ctx):
    """The smoothed distance uses the smoothed minimum mirrored by a sign factor s in {-1, +1}: s*min(s*a, s*b, eps) is min for s = +1
    and the smoothed max for s = -1; the width must be non-negative for BOTH signs (a width that carries the sign collapses
    the blend band for s = -1 and the corner distance is no longer continuously differentiable)."""
    rule = "T5-users"
    from optilint.absdom import SignEnv, is_nonneg, TOP
    from optilint.cfg import cfg_of
    from .common import expand, single_def, def_value
    sd = ctx.need("optimism.contact.EdgeCpp:smooth_distance")
    cfg = cfg_of(sd)
    calls = [c for c in ast.walk(sd.node) if isinstance(c, ast.Call) and (dotted(c.func) or "") == "SmoothFunctions.min"]
    ok = len(calls) == 1 and len(calls[0].args) == 3
    ctx.decide(rule, ok, sd, calls[0] if calls else None, construct="smooth_distance-uses-smoothed-min",
               detail="smooth_distance = sign * SmoothFunctions.min(sign*pd0, sign*pd1, tol)",
               bad_detail="smooth_distance no longer goes through SmoothFunctions.min")
    if not ok:
        return
    c = calls[0]
    node = [n for n in cfg.nodes if n.ast is not None and any(x is c for x in ast.walk(n.ast))][0]

    def resolver(name):
        ds = cfg.reaching(node, name)
        ds = [d for d in ds if d.kind == "stmt"]
        if not ds:
            return None
        # the last definition on the straight-line path
        d = ds[-1]
        return def_value(d, name)
    tol_param = sd.params()[2]
    env = SignEnv([], assumptions={tol_param: "+"}, expander=resolver)
    sg = env.sign(c.args[2])
    # mirrored use: the two arguments and the result carry the same sign factor
    okw = True if is_nonneg(sg) else (None if sg == TOP else False)
    wit = ""
    if okw is None:
        # a factor whose definition is -sign(.) / where(.., 1.0, ..) takes both signs: then the width is negative for one of them
        e = expand(cfg, node, c.args[2], depth=1)
        facs = []

        def flat(x):
            if isinstance(x, ast.BinOp) and isinstance(x.op, ast.Mult):
                flat(x.left)
                flat(x.right)
            else:
                facs.append(x)
        flat(e)
        signed = [f for f in facs if isinstance(f, ast.Name) and any(isinstance(k, ast.Call) and (dotted(k.func) or "").split(".")[-1] == "sign"
                                                                     for st_ in ast.walk(sd.node) if isinstance(st_, ast.Assign) and isinstance(st_.targets[0], ast.Name)
                                                                     and st_.targets[0].id == f.id for k in ast.walk(st_.value))]
        if signed:
            okw, wit = False, f"it carries the factor `{signed[0].id}`, which is -1 for one orientation of the edge pair"
    ctx.decide(rule, okw, sd, c, construct="smoothing-width-nonnegative", detail=f"width `{src(c.args[2])}` has sign {sg}",
               bad_detail=f"the smoothing width passed to SmoothFunctions.min is `{src(c.args[2])}`: {wit or 'not provably >= 0'}; for a negative width the "
                          f"blend band is empty and the hard min/max is returned (distance not C1 across the corner bisector)")
    a0, a1 = c.args[0], c.args[1]
    okm = isinstance(a0, ast.BinOp) and isinstance(a1, ast.BinOp) and isinstance(a0.op, ast.Mult) and isinstance(a1.op, ast.Mult) \
        and isinstance(a0.left, ast.Name) and isinstance(a1.left, ast.Name) and a0.left.id == a1.left.id
    if okm:
        r = cfg.returns()
        okm = len(r) == 1 and isinstance(r[0].ast.value, ast.BinOp) and isinstance(r[0].ast.value.op, ast.Mult) and \
            ((isinstance(r[0].ast.value.left, ast.Name) and r[0].ast.value.left.id == a0.left.id and r[0].ast.value.right is c) or
             (isinstance(r[0].ast.value.right, ast.Name) and r[0].ast.value.right.id == a0.left.id and r[0].ast.value.left is c))
    ctx.decide(rule, okm, sd, c, construct="mirrored-by-one-sign-factor", detail="s * min(s*a, s*b, eps) with one factor s",
               bad_detail="smooth_distance is not s * SmoothFunctions.min(s*a, s*b, eps) with the same sign factor on both arguments and the result")


def variants(repo):
    from optilint.selftest import Variant, sub, sub_in_func, alpha_rename, reformat
    S = "optimism/SmoothFunctions.py"
    F = "optimism/contact/Friction.py"
    M = "optimism/contact/MortarContact.py"
    return [
        Variant("blend coefficient", S, sub("(-0.25*(x+y-safeEps)**2 + x*y)/safeEps", "(-0.5*(x+y-safeEps)**2 + x*y)/safeEps"), "T7-min_base"),
        Variant("blend sign of eps", S, sub("(-0.25*(x+y-safeEps)**2 + x*y)/safeEps", "(-0.25*(x+y+safeEps)**2 + x*y)/safeEps"), "T7-min_base"),
        Variant("band twice as wide", S, sub("isInsideEps = np.abs(xmy) < eps", "isInsideEps = np.abs(xmy) < 2*eps"), "T7-min_base"),
        Variant("plain min picks max", S, sub("justMin = np.where(x < y, x, y)", "justMin = np.where(x < y, y, x)"), "T7-min_base"),
        Variant("asymmetric blend", S, sub("(-0.25*(x+y-safeEps)**2 + x*y)/safeEps", "(-0.25*(x+y-safeEps)**2 + x*x)/safeEps"), "T7-min_base"),
        Variant("max not mirrored", S, sub("    return -min_base(-x, -y, eps)", "    return -min_base(-x, y, eps)"), "T5-mirrored-wrappers"),
        Variant("abs wrong", S, sub("    return -min_base(-x, x, eps)", "    return min_base(-x, x, eps)"), "T5-mirrored-wrappers"),
        Variant("zmax blend", S, sub("(x+eps)**2/(4.0*eps)", "(x+eps)**2/(2.0*eps)"), "T7-zmax"),
        Variant("zmax switch", S, sub("if_then_else(x <= -eps, 0.0, tmp)", "if_then_else(x <= 0, 0.0, tmp)"), "T7-zmax"),
        Variant("friction offset", F, sub("Math.safe_sqrt(sPerpSquared) - 0.5*sReg", "Math.safe_sqrt(sPerpSquared) - sReg"), "T7-friction"),
        Variant("friction inner arm", F, sub("sPerpSquared / (2*sReg)", "sPerpSquared / sReg"), "T7-friction"),
        Variant("friction switch", F, sub("sPerpSquared <= sReg*sReg", "sPerpSquared <= sReg"), "T7-friction"),
        Variant("smooth_linear end cap", M, sub("1.0-l-0.5*(1.0-xi)*(1.0-xi)/l", "1.0-0.5*(1.0-xi)*(1.0-xi)/l"), "T7-smooth_linear"),
        Variant("smooth_linear middle", M, sub("xi-0.5*l)", "xi-l)"), "T7-smooth_linear"),
        Variant("smooth_linear switch", M, sub("jnp.where(xi > 1.0-l,", "jnp.where(xi > 1.0-2*l,"), "T7-smooth_linear"),
        Variant("smoothing width carries the mirror sign", "optimism/contact/EdgeCpp.py", sub("    return sign*SmoothFunctions.min(sign*pd0, sign*pd1, tol)", "    return sign*SmoothFunctions.min(sign*pd0, sign*pd1, sign*tol)"), "T5-users"),
        Variant("mirror sign on one argument only", "optimism/contact/EdgeCpp.py", sub("    return sign*SmoothFunctions.min(sign*pd0, sign*pd1, tol)", "    return sign*SmoothFunctions.min(sign*pd0, pd1, tol)"), "T5-users"),
        Variant("reformat SmoothFunctions", S, reformat(), None),
        Variant("reformat Friction", F, reformat(), None),
        Variant("alpha-rename min_base", S, alpha_rename("min_base"), None),
        Variant("equivalent blend form", S, sub("(-0.25*(x+y-safeEps)**2 + x*y)/safeEps", "(x*y - (x+y-safeEps)*(x+y-safeEps)/4)/safeEps"), None),
        Variant("equivalent friction form", F, sub("sPerpSquared / (2*sReg)", "0.5*sPerpSquared/sReg"), None),
    ]
