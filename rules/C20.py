"""C20 -- VTK output: declared counts equal records written; writing does not change the writer.

  D1  purity (T11): no method reachable from write() stores into, or calls a mutating method on, the writer's
      accumulated state (attributes set in __init__ / add_*), directly or through an alias;
  D2  symbolic lengths: an abstract interpreter over record counts (symbols N_out = written points,
      N_nodes, N_el, N_sph, N_ce, K) evaluates every section writer: the declared count of each header equals the
      records emitted until the next header; POINTS == POINT_DATA; CELLS == CELL_TYPES == CELL_DATA; the CELLS
      size equals the integers written; every field admitted by add_nodal_field / add_cell_field has the
      record count of its section after padding.
Not decided: numeric round trip of values, formatting of numbers, that connectivity indices refer to written
points for element orders whose output nodes are a subset (depends on mesh numbering data).
"""
from __future__ import annotations

import ast

from optilint.model import dotted, walk_local, FuncVal
from optilint.core import Incomplete
from optilint.expr import Algebra, NotPolynomial, Rat, Poly
from .common import src, same, calls_in, const_value, facts_at
from optilint.cfg import cfg_of

LEVEL = "other"
RULE_TEXT = ("obligations = (method reachable from write() x state attribute not written) + (section header x declared count == "
             "records emitted) + (pair of sibling headers x equal counts) + (field kind x record count after padding)")
EXPLANATION = ("Static analysis of optimism/VTKWriter.py: effect analysis (who writes self.* under write()) with alias tracking, and an "
               "abstract interpretation of array row/record counts as exact polynomials over symbolic sizes, comparing each declared "
               "count with the records written. Values and number formatting are not analysed.")

V = "optimism.VTKWriter"
MUTATORS = {"append", "extend", "update", "pop", "popitem", "clear", "insert", "remove", "setdefault", "sort", "reverse", "__setitem__", "add", "discard"}


def run(ctx):
    ctx.need_module(V)
    cls = ctx.need(f"{V}:VTKWriter")
    ctx.guard(d1, ctx, cls)
    ctx.guard(d2, ctx, cls)
    ctx.guard(d2_padding, ctx)
    ctx.trust("numpy shape semantics of zeros/tile/concatenate/vstack/hstack/reshape used by the writer (table in rules/C20.py)")
    ctx.assume("one element type per mesh; fields are admitted only through add_nodal_field / add_cell_field")


def d2_padding(ctx):
    """Records appended for spheres / contact edges are produced by default_values(fieldType, dataType): for every data-type branch the
    padding record of a SCALARS / VECTORS / TENSORS field must have 1 / 3 / 3x3 components, like the records it is stacked under."""
    rule = "D2/T6-padding-record-shape"
    dv = ctx.need(f"{V}:default_values")
    want = {"SCALARS": (), "VECTORS": (3,), "TENSORS": (3, 3)}

    def shape(e):
        if isinstance(e, (ast.Constant, ast.Name, ast.IfExp, ast.BinOp, ast.UnaryOp)):
            return ()          # a scalar expression
        if isinstance(e, ast.Call) and (dotted(e.func) or "").split(".")[-1] in ("array", "asarray", "zeros") and e.args:
            a = e.args[0]
            if (dotted(e.func) or "").endswith("zeros"):
                if isinstance(a, ast.Tuple):
                    return tuple(const_value(x) for x in a.elts)
                return (const_value(a),)
            return shape(a)
        if isinstance(e, (ast.List, ast.Tuple)):
            subs = {shape(x) for x in e.elts}
            if len(subs) != 1:
                return None
            sub_ = subs.pop()
            return None if sub_ is None else (len(e.elts),) + sub_
        return None
    cfg = cfg_of(dv)
    seen = {}
    for r in cfg.returns():
        facts = facts_at(cfg, r)
        ft = None
        branch = []
        for (a, pol, c) in facts:
            t = src(a)
            if isinstance(a, ast.Compare) and len(a.ops) == 1 and isinstance(a.ops[0], ast.Eq) and pol:
                for k in want:
                    if t.endswith("." + k):
                        ft = k
            if ft is None or not t.endswith("." + (ft or "")):
                branch.append(("" if pol else "not ") + t[:60])
        if ft is None:
            continue
        key = (ft, " & ".join(b for b in branch if "fieldType" not in b) or "first branch")
        got = shape(r.ast.value)
        seen.setdefault(ft, []).append(got)
        ctx.decide(rule, got == want[ft], dv, r.ast, construct=f"{ft}[{key[1]}]", detail=f"padding record of shape {got}",
                   bad_detail=f"default_values returns a record of shape {got} for {ft} fields in the branch [{key[1]}]; records of such fields have shape "
                              f"{want[ft]}: the padded array would not hold one record per point/cell")
    n_br = {k: len(v) for k, v in seen.items()}
    if set(n_br) != set(want) or len(set(n_br.values())) != 1:
        ctx.refuted(rule, dv, None, construct="all-field-types-in-every-branch", detail=f"padding records per field type: {n_br}; every data-type branch must cover SCALARS, VECTORS and TENSORS")


def _methods(cls):
    return {c.name: c for c in cls.children if c.kind == "function"}


def _write_cone(ctx, cls):
    meths = _methods(cls)
    if "write" not in meths:
        raise Incomplete("VTKWriter.write not found")
    seen, work = [], ["write"]
    order = []
    while work:
        m = work.pop(0)
        if m in seen or m not in meths:
            continue
        seen.append(m)
        sc = meths[m]
        for c in calls_in(sc):
            if isinstance(c.func, ast.Attribute) and isinstance(c.func.value, ast.Name) and c.func.value.id == sc.params()[0] \
                    and c.func.attr in meths:
                work.append(c.func.attr)
    return [meths[m] for m in seen]


# ------------------------------------------------------------------ D1

def d1(ctx, cls):
    rule = "D1/T11-write-is-pure"
    meths = _methods(cls)
    state = set()
    for m in meths.values():
        if m.name == "__init__" or m.name.startswith("add_"):
            selfn = m.params()[0]
            for st in walk_local(m.node):
                tg = st.targets if isinstance(st, ast.Assign) else [st.target] if isinstance(st, (ast.AugAssign, ast.AnnAssign)) else []
                for t in tg:
                    base = t
                    while isinstance(base, ast.Subscript):
                        base = base.value
                    if isinstance(base, ast.Attribute) and isinstance(base.value, ast.Name) and base.value.id == selfn:
                        state.add(base.attr)
    if len(state) < 5:
        raise Incomplete(f"writer state attributes found: {sorted(state)}")
    cone = _write_cone(ctx, cls)
    if len(cone) < 6:
        raise Incomplete(f"only {len(cone)} methods reachable from write()")
    for m in cone:
        selfn = m.params()[0]
        aliases = {}        # local name -> state attribute it aliases (no copy)
        bad = []

        def root_state(e):
            """state attribute that expression e refers into (self.X, self.X[...], alias, alias.attr ...), else None"""
            while isinstance(e, (ast.Subscript, ast.Attribute)):
                if isinstance(e, ast.Attribute) and isinstance(e.value, ast.Name) and e.value.id == selfn:
                    return e.attr if e.attr in state else None
                e = e.value
            if isinstance(e, ast.Name) and e.id in aliases:
                return aliases[e.id]
            return None
        for st in walk_local(m.node):
            if isinstance(st, ast.Assign):
                # alias creation: name = self.X  |  name = self.X[...]  |  name = alias[...]   (no call => no copy)
                if len(st.targets) == 1 and isinstance(st.targets[0], ast.Name):
                    v = st.value
                    if isinstance(v, (ast.Attribute, ast.Subscript)):
                        r = root_state(v)
                        if r:
                            aliases[st.targets[0].id] = r
                        else:
                            aliases.pop(st.targets[0].id, None)
                    elif isinstance(v, ast.Name) and v.id in aliases:
                        aliases[st.targets[0].id] = aliases[v.id]
                    else:
                        aliases.pop(st.targets[0].id, None)
                for t in st.targets:
                    if isinstance(t, (ast.Attribute, ast.Subscript)):
                        if isinstance(t, ast.Attribute) and isinstance(t.value, ast.Name) and t.value.id == selfn:
                            bad.append((st, f"assigns self.{t.attr}"))
                        else:
                            r = root_state(t)
                            if r:
                                bad.append((st, f"stores into self.{r}"))
            elif isinstance(st, ast.AugAssign):
                t = st.target
                if isinstance(t, ast.Attribute) and isinstance(t.value, ast.Name) and t.value.id == selfn:
                    bad.append((st, f"updates self.{t.attr}"))
                elif isinstance(t, (ast.Subscript, ast.Attribute)):
                    r = root_state(t)
                    if r:
                        bad.append((st, f"updates an element of self.{r}"))
                elif isinstance(t, ast.Name) and t.id in aliases:
                    bad.append((st, f"in-place update of an alias of self.{aliases[t.id]}"))
            elif isinstance(st, ast.Call) and isinstance(st.func, ast.Attribute) and st.func.attr in MUTATORS:
                r = root_state(st.func.value) if not isinstance(st.func.value, ast.Name) else aliases.get(st.func.value.id)
                if isinstance(st.func.value, ast.Attribute) and isinstance(st.func.value.value, ast.Name) and st.func.value.value.id == selfn \
                        and st.func.value.attr in state:
                    r = st.func.value.attr
                if r:
                    bad.append((st, f"calls .{st.func.attr}() on self.{r}"))
        if not bad:
            ctx.proved(rule, m, None, construct=f"{m.name}:no-state-write", detail=f"{m.name} writes none of {sorted(state)}")
        for (st, why) in bad:
            ctx.refuted(rule, m, st, construct=f"{m.name}:{why}",
                        detail=f"{m.name}, which runs under write(), {why} (`{src(st)[:80]}`): writing changes the writer, so a second write() differs")


# ------------------------------------------------------------------ D2: symbolic lengths

class Arr:
    """Abstract array: number of records along axis 0 (Rat) and, if known, entries per record (Rat)."""
    def __init__(self, rows, cols=None):
        self.rows, self.cols = rows, cols


class Rec:
    """Field record: data array."""
    def __init__(self, data):
        self.data = data


class Unknown:
    pass


UNK = Unknown()


class LenEval:
    def __init__(self, selfn, A: Algebra):
        self.s = selfn
        self.A = A
        self.env = {}
        self.problems = []
        self.call_method = None
        self.rets = []

    def sym(self, n):
        return self.A.atom(n)

    def state(self, attr):
        A = self.A
        table = {"spheres": Arr(self.sym("N_sph")), "sphereRadii": Arr(self.sym("N_sph")),
                 "contactEdges": Arr(self.sym("N_ce"), A.const(2)), "elConn": Arr(self.sym("K")),
                 "outputNodes": Arr(self.sym("N_out")),
                 # field dictionaries: every admitted entry has the count its admission guard demands (checked separately)
                 "nodalFields": {"*": Rec(Arr(self.sym("N_out"))), "kind": "nodalFields"},
                 "cellFields": {"*": Rec(Arr(self.sym("N_el"))), "kind": "cellFields"}}
        return table.get(attr, UNK)

    def ev(self, e):
        A = self.A
        s = self.s
        d = dotted(e) if isinstance(e, (ast.Attribute, ast.Name)) else None
        if isinstance(e, ast.Constant) and isinstance(e.value, (int, float)) and not isinstance(e.value, bool):
            return A.const(e.value)
        if isinstance(e, ast.Name):
            return self.env.get(e.id, UNK)
        if d == f"{s}.mesh.coords":
            return Arr(self.sym("N_nodes"), A.const(2))
        if d == f"{s}.mesh.conns":
            return Arr(self.sym("N_el"), self.sym("NPE"))
        if isinstance(e, ast.Attribute):
            if isinstance(e.value, ast.Name) and e.value.id == s:
                return self.state(e.attr)
            base = self.ev(e.value)
            if e.attr == "data" and isinstance(base, Rec):
                return base.data
            if e.attr == "size" and isinstance(base, Arr) and base.cols is not None:
                return A.norm(base.rows * base.cols)
            if e.attr == "size" and isinstance(base, Arr):
                return UNK
            if e.attr == "shape" and isinstance(base, Arr):
                return [base.rows, base.cols if base.cols is not None else UNK]
            return UNK
        if isinstance(e, ast.Subscript):
            base = self.ev(e.value)
            if isinstance(base, list) and isinstance(e.slice, ast.Constant) and isinstance(e.slice.value, int) \
                    and -len(base) <= e.slice.value < len(base):
                return base[e.slice.value]
            # X.shape[i]
            if isinstance(e.value, ast.Attribute) and e.value.attr == "shape":
                arr = self.ev(e.value.value)
                i = e.slice.value if isinstance(e.slice, ast.Constant) else None
                if isinstance(arr, Arr):
                    if i == 0:
                        return arr.rows
                    if i == 1 and arr.cols is not None:
                        return arr.cols
                return UNK
            idx = e.slice
            if isinstance(base, Arr):
                # rows selected by an index array / all rows with column selection
                if isinstance(idx, ast.Tuple) and len(idx.elts) == 2 and isinstance(idx.elts[0], ast.Slice) and idx.elts[0].lower is None \
                        and idx.elts[0].upper is None:
                    sel = self.ev(idx.elts[1])
                    return Arr(base.rows, sel.rows if isinstance(sel, Arr) else None)
                sel = self.ev(idx)
                if isinstance(sel, Arr):
                    return Arr(sel.rows, base.cols)
                return UNK
            if isinstance(base, dict):
                return base.get("*", UNK)
            return UNK
        if isinstance(e, ast.BinOp):
            a, b = self.ev(e.left), self.ev(e.right)
            if isinstance(a, Rat) and isinstance(b, Rat):
                if isinstance(e.op, ast.Add):
                    return A.norm(a + b)
                if isinstance(e.op, ast.Sub):
                    return A.norm(a - b)
                if isinstance(e.op, ast.Mult):
                    return A.norm(a * b)
            return UNK
        if isinstance(e, ast.Tuple):
            return [self.ev(x) for x in e.elts]
        if isinstance(e, ast.Call):
            f = dotted(e.func) or ""
            last = f.split(".")[-1]
            args = e.args
            if last == "len" and args:
                a = self.ev(args[0])
                return a.rows if isinstance(a, Arr) else UNK
            if last in ("zeros", "ones", "empty") and args:
                sh = self.ev(args[0])
                if isinstance(sh, list) and sh and isinstance(sh[0], Rat):
                    return Arr(sh[0], sh[1] if len(sh) > 1 and isinstance(sh[1], Rat) else A.const(1))
                if isinstance(sh, Rat):
                    return Arr(sh, A.const(1))
                return UNK
            if last == "tile" and len(args) == 2:
                reps = self.ev(args[1])
                if isinstance(reps, list) and isinstance(reps[0], Rat):
                    return Arr(reps[0], reps[1] if len(reps) > 1 and isinstance(reps[1], Rat) else A.const(1))
                return UNK
            if last == "concatenate" and args:
                parts = self.ev(args[0])
                axis = None
                for k in e.keywords:
                    if k.arg == "axis" and isinstance(k.value, ast.Constant):
                        axis = k.value.value
                if isinstance(parts, list) and all(isinstance(p, Arr) for p in parts):
                    if axis == 1:
                        for p in parts[1:]:
                            if not A.equal(p.rows, parts[0].rows):
                                self.problems.append((e, f"concatenate(axis=1) of arrays with {parts[0].rows!r} and {p.rows!r} rows"))
                        cols = None
                        if all(p.cols is not None for p in parts):
                            cols = parts[0].cols
                            for p in parts[1:]:
                                cols = A.norm(cols + p.cols)
                        return Arr(parts[0].rows, cols)
                    rows = parts[0].rows
                    for p in parts[1:]:
                        rows = A.norm(rows + p.rows)
                    return Arr(rows, parts[0].cols)
                return UNK
            if last in ("vstack", "hstack") and args:
                parts = self.ev(args[0])
                if isinstance(parts, list):
                    rows = None
                    for p in parts:
                        r = p.rows if isinstance(p, Arr) else (A.const(1) if p == "default-record" else None)
                        if r is None:
                            return UNK
                        rows = r if rows is None else A.norm(rows + r)
                    return Arr(rows, parts[0].cols if isinstance(parts[0], Arr) else None)
                return UNK
            if last == "default_values":
                return "default-record"
            if last in ("array", "asarray", "copy") and args:
                return self.ev(args[0])
            if last == "reshape" and isinstance(e.func, ast.Attribute):
                base = self.ev(e.func.value)
                if isinstance(base, Arr) and args:
                    first = self.ev(args[0][0] if isinstance(args[0], ast.Tuple) and False else args[0])
                    if isinstance(first, list):
                        first = first[0]
                    if isinstance(first, Rat):
                        return Arr(first, None)
                return UNK
            if last == "dict" and args:
                return self.ev(args[0])
            if last == "range" and args:
                n = self.ev(args[-1] if len(args) == 1 else args[1])
                return Arr(n) if isinstance(n, Rat) else UNK
            if last == "VTKFieldRecord":
                a0 = args[0] if args else None
                for k in e.keywords:
                    if k.arg == "data":
                        a0 = k.value
                v = self.ev(a0) if a0 is not None else UNK
                return Rec(v) if isinstance(v, Arr) else UNK
            if last == "write_matrix_as_table" and args:
                return self.ev(args[0])
            # value-returning helper of the writer itself: interpreted on the abstract arguments
            if isinstance(e.func, ast.Attribute) and isinstance(e.func.value, ast.Name) and e.func.value.id == s and self.call_method is not None:
                return self.call_method(e.func.attr, [self.ev(a) for a in args], {k.arg: self.ev(k.value) for k in e.keywords if k.arg})
            return UNK
        return UNK


def _header_of(call):
    """vtkFile.write('KEY {} ...'.format(a, b)) -> (KEY, [args])"""
    if not (isinstance(call, ast.Call) and isinstance(call.func, ast.Attribute) and call.func.attr == "write" and call.args):
        return None
    a = call.args[0]
    if isinstance(a, ast.Call) and isinstance(a.func, ast.Attribute) and a.func.attr == "format" and isinstance(a.func.value, ast.Constant) \
            and isinstance(a.func.value.value, str):
        key = a.func.value.value.split()[0] if a.func.value.value.split() else ""
        if key in ("POINTS", "CELLS", "CELL_TYPES", "POINT_DATA", "CELL_DATA"):
            return key, a.args
    return None


class SectionRun:
    """Abstractly executes the section writers in write() order, accumulating per header the declared
    count and the records written after it."""

    def __init__(self, ctx, cls, A):
        self.ctx, self.cls, self.A = ctx, cls, A
        self.meths = _methods(cls)
        self.sections = []          # [dict(key, declared, extra, written Rat, scope, node)]
        self.fields_written = []    # (section key, records Rat|None, scope, node)
        self.dict_records = {}      # dict name -> records of each entry
        self.unknown = []

    def cur(self):
        return self.sections[-1] if self.sections else None

    def add_rows(self, rows, ints_per_row=None):
        c = self.cur()
        if c is None:
            return
        if rows is None:
            c["written"] = None
        elif c["written"] is not None:
            c["written"] = self.A.norm(c["written"] + rows)
        if ints_per_row is not None and rows is not None and c.get("ints") is not None:
            c["ints"] = self.A.norm(c["ints"] + rows * ints_per_row)
        elif c.get("ints") is not None and ints_per_row is None:
            c["ints"] = None

    def run_method(self, m, ev=None, args=None):
        selfn = m.params()[0]
        ev = LenEval(selfn, self.A)
        ev.call_method = self.call_value
        # field dictionaries: every admitted entry has the guard's count
        ev.env["__nodal__"] = None
        if args:
            ev.env.update(args)
        self._block(m, ev, m.node.body, mult=self.A.const(1))
        for (node, msg) in ev.problems:
            self.ctx.refuted("D2/T9-symbolic-lengths", m, node, construct=f"{m.name}:shape", detail=msg)

    def call_value(self, name, args, kw, depth=[0]):
        """Abstract value returned by the helper method `name` (no section output expected from it)."""
        m = self.meths.get(name)
        if m is None or depth[0] > 4:
            return UNK
        params = m.params()
        ev = LenEval(params[0], self.A)
        ev.call_method = self.call_value
        for p_, a in zip(params[1:], args):
            ev.env[p_] = a
        for k, v in kw.items():
            if k in params:
                ev.env[k] = v
        depth[0] += 1
        try:
            self._block(m, ev, m.node.body, mult=self.A.const(1))
        finally:
            depth[0] -= 1
        for (node, msg) in ev.problems:
            self.ctx.refuted("D2/T9-symbolic-lengths", m, node, construct=f"{m.name}:shape", detail=msg)
        # all return sites must agree on the abstract value
        def same(a, b):
            if isinstance(a, Rec) and isinstance(b, Rec):
                return same(a.data, b.data)
            if isinstance(a, Arr) and isinstance(b, Arr):
                return self.A.equal(a.rows, b.rows) and ((a.cols is None and b.cols is None) or (a.cols is not None and b.cols is not None and self.A.equal(a.cols, b.cols)))
            if isinstance(a, Rat) and isinstance(b, Rat):
                return self.A.equal(a, b)
            return False
        if ev.rets and all(same(ev.rets[0], r) for r in ev.rets[1:]) and not isinstance(ev.rets[0], Unknown):
            return ev.rets[0]
        return UNK

    def _dict_of(self, ev, e):
        """records per entry of a field dictionary expression"""
        if isinstance(e, ast.Attribute) and isinstance(e.value, ast.Name) and e.value.id == ev.s and e.attr in ("nodalFields", "cellFields"):
            return {"*": Rec(Arr(self.A.atom("N_out" if e.attr == "nodalFields" else "N_el"))), "kind": e.attr}
        v = ev.ev(e)
        return v if isinstance(v, dict) else None

    def _block(self, m, ev, body, mult):
        A = self.A
        for st in body:
            if isinstance(st, ast.Assign) and len(st.targets) == 1:
                t = st.targets[0]
                if isinstance(t, ast.Name):
                    # dictionaries
                    v = st.value
                    if isinstance(v, ast.Call) and (dotted(v.func) or "") == "dict" and v.args:
                        dct = self._dict_of(ev, v.args[0])
                        ev.env[t.id] = dict(dct) if dct else UNK
                    elif isinstance(v, ast.Dict) and not v.keys:
                        ev.env[t.id] = {"*": None, "kind": "new"}
                    elif isinstance(v, ast.Subscript) and self._dict_of(ev, v.value) is not None:
                        ev.env[t.id] = self._dict_of(ev, v.value).get("*", UNK)
                    elif isinstance(v, ast.UnaryOp) and isinstance(v.op, ast.Not):
                        ev.env[t.id] = UNK
                    else:
                        ev.env[t.id] = ev.ev(v)
                elif isinstance(t, ast.Subscript) and isinstance(t.value, ast.Name) and isinstance(ev.env.get(t.value.id), dict):
                    dct = ev.env[t.value.id]
                    val = ev.ev(st.value)
                    if isinstance(t.slice, ast.Constant):
                        dct.setdefault("named", {})[t.slice.value] = val
                    else:
                        dct["*"] = val
                elif isinstance(t, (ast.Tuple, ast.List)):
                    val = ev.ev(st.value)
                    for k, el in enumerate(t.elts):
                        if isinstance(el, ast.Name):
                            ev.env[el.id] = val[k] if isinstance(val, list) and len(val) == len(t.elts) else UNK
                continue
            if isinstance(st, ast.Expr) and isinstance(st.value, ast.Call):
                c = st.value
                h = _header_of(c)
                if h:
                    key, hargs = h
                    vals = [ev.ev(a) for a in hargs]
                    declared = vals[0] if vals and isinstance(vals[0], Rat) else None
                    sec = dict(key=key, declared=declared, written=A.const(0), scope=m, node=st, ints=A.const(0) if key == "CELLS" else None,
                               size=vals[1] if key == "CELLS" and len(vals) > 1 and isinstance(vals[1], Rat) else None, src=src(hargs[0]) if hargs else "")
                    self.sections.append(sec)
                    continue
                if isinstance(c.func, ast.Attribute) and c.func.attr == "write" and c.args:
                    a = c.args[0]
                    if isinstance(a, ast.Call) and (dotted(a.func) or "").endswith("write_matrix_as_table"):
                        arr = ev.ev(a.args[0])
                        if isinstance(arr, Arr):
                            self.add_rows(A.norm(arr.rows * mult), arr.cols)
                        else:
                            self.add_rows(None)
                        continue
                    # a literal line: counts as a record iff it is not just a newline / a field header
                    txt = None
                    if isinstance(a, ast.Constant) and isinstance(a.value, str):
                        txt = a.value
                    elif isinstance(a, ast.Call) and isinstance(a.func, ast.Attribute) and a.func.attr == "format" and isinstance(a.func.value, ast.Constant):
                        txt = a.func.value.value
                    elif isinstance(a, ast.Name):
                        txt = "<line>"
                    elif isinstance(a, ast.BinOp):
                        txt = "<line>"
                    if txt is None:
                        self.add_rows(None)
                    elif txt.strip() == "" or txt.split()[0] in ("SCALARS", "VECTORS", "TENSORS", "LOOKUP_TABLE", "#", "Written", "DATASET") or txt.startswith("# vtk"):
                        pass
                    elif isinstance(a, ast.BinOp) and "vtkFormat" in src(a):
                        pass
                    else:
                        nints = A.const(len(txt.split())) if txt != "<line>" else None
                        self.add_rows(mult, nints)
                    continue
                # self._write_xxx(vtkFile) / self._write_out_all_fields_in_dict(D, vtkFile)
                if isinstance(c.func, ast.Attribute) and isinstance(c.func.value, ast.Name) and c.func.value.id == ev.s and c.func.attr in self.meths:
                    callee = self.meths[c.func.attr]
                    if c.func.attr == "_write_out_all_fields_in_dict":
                        dct = ev.env.get(c.args[0].id) if isinstance(c.args[0], ast.Name) else self._dict_of(ev, c.args[0])
                        sec = self.cur()
                        if isinstance(dct, dict):
                            entries = [("every admitted field", dct.get("*"))] + [(k, v) for k, v in dct.get("named", {}).items()]
                            for nm, rec in entries:
                                if rec is None:
                                    continue
                                rows = rec.data.rows if isinstance(rec, Rec) and isinstance(rec.data, Arr) else None
                                self.fields_written.append((sec["key"] if sec else "?", nm, rows, m, st))
                        else:
                            self.fields_written.append((sec["key"] if sec else "?", "?", None, m, st))
                    else:
                        self.run_method(callee)
                    continue
                continue
            if isinstance(st, ast.If):
                # both branches are explored; counts declared inside a branch are checked for that branch
                self._block(m, ev, st.body, mult)
                self._block(m, ev, st.orelse, mult)
                continue
            if isinstance(st, ast.For):
                it = st.iter
                n = None
                dct = None
                if isinstance(it, ast.Name) and isinstance(ev.env.get(it.id), dict):
                    dct = ev.env[it.id]
                elif self._dict_of(ev, it) is not None:
                    dct = self._dict_of(ev, it)
                if dct is not None:
                    # loop over the fields of a dictionary: body executed once per field, abstractly once
                    self._block(m, ev, st.body, mult)
                    continue
                v = ev.ev(it)
                if isinstance(v, Arr):
                    n = v.rows
                if n is None:
                    self.unknown.append((m, st, f"loop over `{src(it)}` with unknown trip count"))
                    continue
                # accumulator pattern: X = Record(vstack((X.data, default)), ...) adds one record per iteration
                before = {k: v2 for k, v2 in ev.env.items()}
                self._block(m, ev, st.body, A.norm(mult * n))
                for k, v2 in list(ev.env.items()):
                    b = before.get(k)
                    if isinstance(v2, Rec) and isinstance(b, Rec) and isinstance(v2.data, Arr) and isinstance(b.data, Arr):
                        inc = A.norm(v2.data.rows - b.data.rows)
                        ev.env[k] = Rec(Arr(A.norm(b.data.rows + inc * n), v2.data.cols))
                    elif isinstance(v2, Arr) and isinstance(b, Arr):
                        inc = A.norm(v2.rows - b.rows)
                        ev.env[k] = Arr(A.norm(b.rows + inc * n), v2.cols)
                continue
            if isinstance(st, (ast.Try,)):
                self._block(m, ev, st.body, mult)
                continue
            if isinstance(st, ast.Return):
                ev.rets.append(ev.ev(st.value) if st.value is not None else UNK)
                return True


def d2(ctx, cls):
    rule = "D2/T9-symbolic-lengths"
    A = Algebra()
    meths = _methods(cls)
    run = SectionRun(ctx, cls, A)
    run.run_method(meths["write"])
    keys = [s["key"] for s in run.sections]
    for want in ("POINTS", "CELLS", "CELL_TYPES", "POINT_DATA", "CELL_DATA"):
        if want not in keys:
            ctx.undecided(rule, meths["write"], None, construct=f"header:{want}", detail="section header not found under write()")
    if len(keys) != len(set(keys)):
        dup = [k for k in keys if keys.count(k) > 1]
        ctx.refuted(rule, meths["write"], None, construct=f"duplicate-header:{dup[0]}", detail=f"header {dup[0]} is emitted more than once per file")
    for (m, st, msg) in run.unknown:
        ctx.undecided(rule, m, st, construct=f"{m.name}:loop", detail=msg)
    by = {s["key"]: s for s in run.sections}
    # declared == written for geometry sections
    for k in ("POINTS", "CELLS", "CELL_TYPES"):
        s = by.get(k)
        if not s:
            continue
        if s["declared"] is None or s["written"] is None:
            ctx.undecided(rule, s["scope"], s["node"], construct=f"{k}:declared==written", detail=f"declared `{s['src']}` or written rows not computable")
            continue
        ok = A.equal(s["declared"], s["written"])
        ctx.decide(rule, ok, s["scope"], s["node"], construct=f"{k}:declared==written",
                   detail=f"{k} declares {s['declared']!r}, writes {s['written']!r} records",
                   bad_detail=f"{k} declares {s['declared']!r} records but {s['written']!r} are written before the next header")
    s = by.get("CELLS")
    if s and s.get("size") is not None and s.get("ints") is not None:
        ints = A.subst(s["ints"], "NPE", A.atom("NPE"))
        ok = A.equal(s["size"], s["ints"])
        ctx.decide(rule, ok, s["scope"], s["node"], construct="CELLS:size==integers-written",
                   detail=f"size {s['size']!r} == integers {s['ints']!r}",
                   bad_detail=f"CELLS declares size {s['size']!r} but {s['ints']!r} integers are written")
    elif s:
        ctx.undecided(rule, s["scope"], s["node"], construct="CELLS:size==integers-written", detail="size or integer count not computable")
    # sibling headers agree
    for a_, b_ in (("POINTS", "POINT_DATA"), ("CELLS", "CELL_TYPES"), ("CELLS", "CELL_DATA")):
        sa, sb = by.get(a_), by.get(b_)
        if not sa or not sb:
            continue
        if sa["declared"] is None or sb["declared"] is None:
            ctx.undecided(rule, sb["scope"], sb["node"], construct=f"{b_}=={a_}", detail=f"`{sb['src']}` / `{sa['src']}` not computable")
            continue
        ok = A.equal(sa["declared"], sb["declared"])
        ctx.decide(rule, ok, sb["scope"], sb["node"], construct=f"{b_}=={a_}",
                   detail=f"both declare {sa['declared']!r}",
                   bad_detail=f"{b_} declares {sb['declared']!r} but {a_} declares {sa['declared']!r}: the file is not a valid dataset "
                              f"(N_out = written points, N_nodes = mesh nodes, N_el = elements, N_sph = spheres, N_ce = contact edges)")
    # every written field has the record count of its section
    n_f = 0
    for (key, nm, rows, m, st) in run.fields_written:
        sec = by.get(key)
        if sec is None or sec["declared"] is None or rows is None:
            ctx.undecided(rule, m, st, construct=f"{key}:field-records:{nm}", detail="record count of the written fields not computable")
            continue
        n_f += 1
        ok = A.equal(rows, sec["declared"])
        ctx.decide(rule, ok, m, st, construct=f"{key}:field-records:{nm}",
                   detail=f"{nm}: {rows!r} records == declared {sec['declared']!r}",
                   bad_detail=f"under {key} ({sec['declared']!r} declared) the arrays of {nm} carry {rows!r} records")
    if n_f < 2:
        ctx.undecided(rule, meths["write"], None, construct="field-records", detail=f"{n_f} field groups analysed")
    # admission guards: add_nodal_field admits N_out records, add_cell_field N_el
    for mname, want_sym, dname in (("add_nodal_field", "N_out", "nodalFields"), ("add_cell_field", "N_el", "cellFields")):
        m = meths.get(mname)
        if m is None:
            raise Incomplete(f"{mname} not found")
        ev = LenEval(m.params()[0], A)
        ok = None
        shown = ""
        for st in ast.walk(m.node):
            if isinstance(st, ast.Assign) and len(st.targets) == 1 and isinstance(st.targets[0], ast.Name):
                ev.env.setdefault(st.targets[0].id, ev.ev(st.value))
        cfg = cfg_of(m)
        for n in cfg.stmt_nodes():
            st = n.ast
            if not (n.kind == "stmt" and isinstance(st, ast.Assign) and any(isinstance(t, ast.Subscript) and isinstance(t.value, ast.Attribute) and t.value.attr == dname
                                                       for t in st.targets)):
                continue
            # the store must be guarded, on every path, by <data>.shape[0] == <count> (as a taken == branch or a skipped != branch)
            found = None
            for (tst, pol, _c) in facts_at(cfg, n):
                if not (isinstance(tst, ast.Compare) and len(tst.ops) == 1):
                    continue
                if not ((isinstance(tst.ops[0], ast.Eq) and pol) or (isinstance(tst.ops[0], ast.NotEq) and not pol)):
                    continue
                for l_, r_e in ((tst.left, tst.comparators[0]), (tst.comparators[0], tst.left)):
                    r_ = ev.ev(r_e)
                    if isinstance(r_, Rat) and (src(l_).endswith(".shape[0]") or src(l_).startswith("len(")):
                        found = (tst, r_)
            if found is None:
                ok = False
                shown = "no record-count guard"
                break
            good = A.equal(found[1], A.atom(want_sym))
            ok = good if ok is None else (ok and good)
            shown = f"{src(found[0])} with count {found[1]!r}"
        ctx.decide(rule, ok, m, None, construct=f"{mname}:admits-section-count",
                   detail=f"admits a field only if {shown}", bad_detail=f"{mname} admits fields under `{shown}`; its section needs {want_sym} records")


def variants(repo):
    from optilint.selftest import Variant, sub, sub_in_func, alpha_rename, reformat
    P = "optimism/VTKWriter.py"
    return [
        Variant("integer tensor padding is one row", P, sub("            return np.array([[0, 0, 0],[0, 0, 0],[0, 0, 0]])", "            return np.array([0, 0, 0])"), "D2/T6-padding-record-shape"),
        Variant("vector padding has two components", P, sub("            return np.array([0.0, 0.0, 0.0])", "            return np.array([0.0, 0.0])"), "D2/T6-padding-record-shape"),
        Variant("store padded records back", P, sub("                nodalFields[field] = fieldRecord\n", "                nodalFields[field] = fieldRecord\n                self.nodalFields[field] = fieldRecord\n"), "D1/T11-write-is-pure"),
        Variant("alias instead of copy", P, sub("        nodalFields = dict(self.nodalFields)", "        nodalFields = self.nodalFields"), "D1/T11-write-is-pure"),
        Variant("append in write path", P, sub_in_func("VTKWriter._write_coordinate_data", "        for spherePt in self.spheres:", "        self.sphereRadii.append(0.0)\n        for spherePt in self.spheres:"), "D1/T11-write-is-pure"),
        Variant("POINT_DATA from mesh.coords", P, sub("                vals = np.zeros( (nnodes,) )", "                nnodes = self.mesh.coords.shape[0]\n                vals = np.zeros( (nnodes,) )"), "D2/T9-symbolic-lengths"),
        Variant("CELL_DATA ignores contact edges", P, sub("            ncells = self.mesh.conns.shape[0] + nContactEdges", "            ncells = self.mesh.conns.shape[0]"), "D2/T9-symbolic-lengths"),
        Variant("cell fields not padded", P, sub("                for edge in range(nContactEdges):", "                for edge in range(0):"), "D2/T9-symbolic-lengths"),
        Variant("POINTS forgets spheres", P, sub("vtkFile.write('POINTS {} double\\n'.format(nnodes + len(self.spheres)))", "vtkFile.write('POINTS {} double\\n'.format(nnodes))"), "D2/T9-symbolic-lengths"),
        Variant("CELL_TYPES forgets contact edges", P, sub("vtkFile.write('CELL_TYPES {}\\n'.format(nelements+self.contactEdges.shape[0]))", "vtkFile.write('CELL_TYPES {}\\n'.format(nelements))"), "D2/T9-symbolic-lengths"),
        Variant("CELLS size wrong", P, sub("self.contactEdges.shape[0] * 3", "self.contactEdges.shape[0] * 2"), "D2/T9-symbolic-lengths"),
        Variant("pad twice per sphere", P, sub_in_func("VTKWriter._write_nodal_fields", "                for sphere in self.spheres:", "                for sphere in self.spheres + self.spheres:"), "D2/T9-symbolic-lengths"),
        Variant("second header", P, sub_in_func("VTKWriter._write_cell_types", "        for e in self.contactEdges:           \n", "        vtkFile.write('CELL_TYPES {}\\n'.format(nelements))\n        for e in self.contactEdges:           \n"), "D2/T9-symbolic-lengths"),
        Variant("admission against mesh nodes", P, sub("        nnodes = self.mesh.coords[self.outputNodes].shape[0]\n        nodalData = nodalData[self.outputNodes]", "        nnodes = self.mesh.coords.shape[0]"), "D2/T9-symbolic-lengths"),
        Variant("reformat", P, reformat(), None),
    ]
